#!/usr/bin/env python3
"""keep_seed.py <ID> <caught_by> <needs...>: stores a confirmed seeded change under /verif/seeded/<ID>/"""
import json, os, shutil, sys, glob, subprocess
sid, caught, needs = sys.argv[1], sys.argv[2], " ".join(sys.argv[3:])
src, dst = f"/tmp/seed/{sid}", f"/verif/seeded/{sid}"
log = open(f"{src}/confirm.log").read()
ok = all(x in log for x in ["BUILD-WITH-PATCH ok", "DEMO-WITH-PATCH exit=1", "DEMO-WITHOUT-PATCH exit=0"])
suite_note = "PASS (exit 0)"
if "SUITE-WITH-PATCH exit=0" not in log:
    # the only tolerated failure is the test BASELINE.json lists as flaky
    fails = [l for l in open(f"{src}/suite_with.log") if l.startswith("--- FAIL")]
    if fails and all("TestDB_Open_InitialMmapSize" in l for l in fails):
        suite_note = "PASS except TestDB_Open_InitialMmapSize, which BASELINE.json lists as flaky (not in the 515 stable tests)"
    else:
        ok = False
if not ok:
    print("NOT CONFIRMED:\n" + log); sys.exit(1)
os.makedirs(dst, exist_ok=True)
shutil.copy(f"{src}/patch.diff", dst)
for f in glob.glob(f"{src}/*_test.go") + glob.glob(f"{src}/README.md"):
    shutil.copy(f, dst)
prop = sid[:3]
meta = {
    "property": prop,
    "seed_id": sid,
    "what": open(f"{src}/patch.diff").read().split("\n")[0],
    "needs_to_manifest": needs,
    "confirmed": {
        "how": "tools/confirm_seed.sh in a scratch worktree of /repo HEAD (removed afterwards): go build ./... with the patch; demo test with and without the patch; existing suite `go test -count=1 . ./internal/... ./cmd/...` with the patch",
        "build_with_patch": "ok", "demo_with_patch": "FAIL (exit 1)", "demo_without_patch": "PASS (exit 0)", "existing_suite_with_patch": suite_note,
        "log": log.strip().split("\n"),
    },
    "detected_by": caught,
}
json.dump(meta, open(f"{dst}/meta.json", "w"), indent=1)
print("kept", dst)
