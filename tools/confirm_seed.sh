#!/bin/bash
# usage: confirm_seed.sh <ID> [demo-test-regex]   — confirms a seeded change in its scratch worktree /tmp/wt/<ID>
# (compiles; demo fails with the patch and passes without; existing suite passes with the patch)
ID=$1; RX=${2:-.}
WT=/tmp/wt/$ID; SD=/tmp/seed/$ID; LOG=$SD/confirm.log
export GOFLAGS=-mod=mod GOPROXY=off
cd $WT || exit 2
: > $LOG
git checkout -q -- . ; git clean -fdq
git apply $SD/patch.diff || { echo "PATCH-DOES-NOT-APPLY" >> $LOG; exit 1; }
go build ./... >> $LOG 2>&1 && echo "BUILD-WITH-PATCH ok" >> $LOG || { echo "BUILD-WITH-PATCH FAILED" >> $LOG; exit 1; }
DEMOS=$(ls $SD/*_test.go 2>/dev/null)
cp $DEMOS $WT/ 2>/dev/null
NAMES=$(grep -ho 'func Test[A-Za-z0-9_]*' $DEMOS | sed 's/func //' | paste -sd'|')
echo "demo tests: $NAMES" >> $LOG
go test -count=1 -run "^($NAMES)\$" -timeout 10m . > $SD/demo_with.log 2>&1; echo "DEMO-WITH-PATCH exit=$?" >> $LOG
git apply -R $SD/patch.diff
go test -count=1 -run "^($NAMES)\$" -timeout 10m . > $SD/demo_without.log 2>&1; echo "DEMO-WITHOUT-PATCH exit=$?" >> $LOG
for f in $DEMOS; do rm -f $WT/$(basename $f); done
git apply $SD/patch.diff
go test -count=1 -timeout 120m . ./internal/... ./cmd/... > $SD/suite_with.log 2>&1; echo "SUITE-WITH-PATCH exit=$?" >> $LOG
grep -E "^(ok|FAIL|---)" $SD/suite_with.log | head -30 >> $LOG
echo DONE >> $LOG
