#!/bin/bash
# usage: scan_repo.sh <repo-dir>  — evaluates every property's host rules against <repo-dir> on one loaded
# program (child mode: writes nothing under /verif) and prints the failing obligation keys.
REPO=$1
VERIF="$(cd "$(dirname "$0")/.." && pwd)"
. "$VERIF/env.sh"
"$VERIF/bin/verif-static" -prop ALL -child -repo "$REPO" -verif "$VERIF" 2>&1 | python3 -c '
import json,sys
txt=sys.stdin.read()
i=txt.find("CHILD-RESULT ")
if i<0:
    print("NO RESULT:", txt[-2000:]); sys.exit(2)
r=json.loads(txt[i+13:].split("\n")[0])
f=r.get("failed") or []
known="C08.R4:(*Tx).writeMeta[fdatasync-error]->(*Tx).Commit[rollback]"
n=0
for o in f:
    if o["key"]==known: continue
    n+=1
    print("FAIL", o["key"], "@", o.get("site"), "|", (o.get("detail") or "")[:220].replace("\n"," "))
print("failed obligations (beyond the known finding):", n)
'
