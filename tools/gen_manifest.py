#!/usr/bin/env python3
"""Regenerates /verif/MANIFEST.json from the table below (kept next to the checker so the two stay in step)."""
import json, os, sys
HERE = os.path.dirname(os.path.dirname(os.path.abspath(__file__)))

TECH = "static analysis: repository-specific rules over go/types + go/ssa + VTA call graph (must-pass-through/dominance, who-may-call, error discipline, locksets, provenance slices, finite truth tables, struct layouts); nothing in /repo is executed"
NOTE = ("Trusted: go/types + go/ssa (x/tools v0.29.0), VTA call-graph soundness for static/interface/func-field calls, kernel semantics of the syscalls, "
        "one-DB-per-transaction lock identity. The check decides the named structural clauses (necessary conditions), not the whole behaviour; see DESIGN.md §4 for what is not decided.")

CLAIMED = {
 "C02": ("reader registration / private meta copy / mapping pin established atomically under metalock and released on every exit (must/may locksets), remap and unmap only under the exclusive mmaplock, mapping-description fields written only by map/unmap, copy-on-write targets never derive from the mapping, meta write and pending-page release inside the metalock critical section, dirty-page cache filled only from the allocator; free-set entry chain and write targets re-evaluated (pages an open reader references never become allocatable; bytes go only where allocator-provided ids say)", "4 C02, 8.2"),
 "C03": ("writer lock taken only in beginRWTx and released on every exit of Commit/Rollback/rollback for an open write transaction (interprocedural locksets specialised per transaction kind), managed-transaction discipline of Update/View, ownership of DB.rwtx, acyclic lock order rwlock<metalock<mmaplock<statlock with batchMu/statlock as leaves, guarded-by table for DB.stats/DB.batch/lifecycle fields, nothing can fail after the meta write and handlers run after close, every abort of a write transaction undoes its recorded frees (freelist.Rollback before close); the lazily loaded free list is published only through freelistLoad.Do (assigned only in the Once body, not touched by loadFreelist before Do returned, used by tx.check only after loadFreelist()); physical rollback shape re-evaluated (a failed commit restores the allocator before the lock is released)", "4 C03, 8.2"),
 "C09": ("free-set entry chain (VTA+CHA), backend agreement (storage role only on the backends, policy on *shared, newFreelist total, Allocate bookkeeping), 0xFFFF count convention tabulated on writer/reader/estimator, Free's guards, Init re-assigns every storage field of its backend; Free records every id of the run p.Id()..p.Id()+p.Overflow() (loop tabulated); abort-undoes-frees re-evaluated (every abort path calls freelist.Rollback before the lock is released)", "4 C09"),
 "C10": ("release step at every writer begin under metalock, every exit of a read transaction reaches RemoveReadonlyTXID, same registration key, ReleasePendingPages tabulated for 0/1/2 readers, order-dependent reads of the reader list preceded by a sort, counts published before the writer lock is released, pending->free only through the release path which runs only at writer begin; db.allocate asks the free list first and returns an offered run without growing the file (tabulated)", "4 C10, 8.2"),
 "C11": ("checksum covers every byte before it on all gc architectures, Validate truth table (8 rows), validate-before-use in page-size probing and Open, decision tables of db.mmap / db.meta() / getPageSize, every rejecting exit of Open closes (with db.opened already set, so close is not a no-op) and returns an error; free-set entry chain re-evaluated (the older meta's state survives until the next writer begins, so the fallback presents exactly that state); checksum-after-mutation and meta slot alternation re-evaluated (the other meta page is valid and is the previous state)", "4 C11, 8.2"),
 "C12": ("version-2 layout table of the 5 mapped structs on all gc architectures, format constants, checksum algorithm and coverage, writer/reader field pairing, 0xFFFF convention, initial 4-page layout evaluated from init, checksum-after-mutation; an inline bucket owns no pages (inlineable() tabulated); a page carries exactly one type flag (type predicates tabulated); accessor integrity: each of the 50 getters/setters of the mapped structs reads/writes exactly its own field; page capacity re-evaluated (every element lies inside its page run)", "4 C12"),
 "C13": ("NARROW claim — the structural skeleton that makes the free list independent of how it was obtained: freepages() scans exactly [2, high-water mark) minus what the walk from the root reached; loadFreelist chooses persisted-vs-rebuilt by hasSyncedFreelist, once, with the backend from db.FreelistType; Open flushes a missing free list exactly when NoFreelistSync is off; re-evaluated: both NoFreelistSync arms redefine the freelist pointer, backend agreement, Init forgets previous content, rollback reload by the same predicate, syncs skipped only under NoSync. Equality of contents / API results across option assignments is NOT decided; the lazily loaded free list is published only through freelistLoad.Do (assigned only in the Once body, not touched by loadFreelist before Do returned, used by tx.check only after loadFreelist()); for an existing file the page size in force at the first mapping is the one read from the file (Options.PageSize only seeds new files)", "5 and 8.2"),
 "C14": ("backup cut from tx.meta (never db.meta()), both meta pages checksummed after their last change with page 0 keeping the higher txid, data window [2*pageSize, tx.Size()) and byte accounting on the success path and on each failing write (WriteTo evaluated symbolically), CopyFile closes the destination and returns the close error; free-set entry chain re-evaluated (the snapshot's pages stay out of the free set while the backup reader is registered)", "4 C14"),
 "C15": ("SetSequence(seq) after every CreateBucket in both arms with seq = Sequence() of the reported bucket, one captured transaction cell re-assigned after an intermediate commit, source flows only into walk -> View and is opened ReadOnly by the CLI, callback/walk errors abort before the final commit; a parent with an unopened paged sub-bucket is never written inline (inlineable() tabulated with an empty per-transaction bucket cache)", "4 C15"),
 "C18": ("the size handed to file.Truncate is compared with / clamped to db.MaxSize on every path (windows: in db.mmap before mapping), size-limit error raised before remap and before the high-water mark moves and propagated unchanged, DB.MaxSize has Options.MaxSize as its only source, a size-limit failure of Commit takes the physical rollback; db.allocate's size-limit decision tabulated (refusal before the high-water mark moves, ErrMaxSizeReached, requests that fit are granted); writer-lock pairing re-evaluated (a size-limit failure leaves the database writable and closable)", "4 C18, 8.2"),
 "C20": ("every surgery writer call takes the --output path and is dominated by a successful CopyFile(source, output), the source path is only read, CopyFile refuses an existing destination, raw page writers confined to surgery, rewritten metas re-checksummed and both metas cleared, revert copies the other meta (tabulated) and retargets the page id before writing; every writer of meta pages in the module (commit, init, backup, surgery) checksums after the last change, so the page revert copies is valid; meta slot alternation re-evaluated (the page revert copies is the previous commit)", "4 C20"),
 "C04": ("in every exported mutator all effect sites are unreachable on a closed or read-only transaction and no error return follows an effect, the pre-effect validation of each mutator has not shrunk (frozen table), bucket-cache coherence (a cached child is freed or re-homed, never dropped), remap dereferences the writer before unmapping, key-order predicates tabulated over bytes.Compare, bucket header / sequence ownership; a user rollback undoes the page frees of DeleteBucket (freelist.Rollback before close on the abort path); keys handed to node.put never alias a caller-supplied slice; nested buckets reported with a nil value by Get and the cursor (value masking re-evaluated)", "4 C04"),
 "C05": ("after every raw descent no return precedes an emptiness test of the leaf (first/next/prev/Last/Seek), next/prev agree on re-positioning and on the exhausted position, every loop driven by a cursor advance has an exit depending on the key returned, lower-bound search predicates and branch step-back tabulated; every return of a value taken from a raw cursor step (First/Last/Next/Prev/Seek, Bucket.Get) is guarded by a bucket-bit test of that same step's flags (nested buckets reported with a nil value)", "4 C05"),
 "C07": ("free-before-drop for node page ids, bucket roots and node-cache removals, no mutation of a bucket from inside its own ForEach/ForEachBucket callback (every call site in the module), freelist pointer redefined and old freelist page freed before the new one is allocated, Bucket.free frees pages and nodes and DeleteBucket orders nested-delete < free < key removal, physical rollback gives pages back, aborts undo frees, inline conversion frees the old pages; page capacity: page counts requested for nodes and the free list cover ceil(size/pageSize) of the very object written, buffers are count*pageSize, node.size/sizeLessThan/serialiser agree on the terms, Commit grows the file to the high-water mark and grow truncates to at least the request (tabulated); a root leaf holding a nested-bucket element is never inlineable (inlineable() tabulated); mmapSize / db.mmap / allocate-remap tabulated (the mapping covers every page up to the high-water mark); free-set entry chain and key-order predicates re-evaluated", "4 C07, 8.2"),
 "C16": ("fail-fast inside the batch's Update closure with the failing index recorded, queued functions only ever run inside safelyCall's recover barrier, only the failing caller gets trySolo / is removed / never sees the sentinel, buffered result channel and batch.run referenced only through its sync.Once; every batch created is armed with the trigger timer before the mutex is released", "4 C16"),
 "C19": ("each corruption class has a detector wired to the error channel (identified by the data tested, with truth tables for the five map/type detectors and the three key-order comparisons), child subtrees checked against their separator bounds, panic becomes a reported error and the channel is always closed, the walk reaches no mutator, CLI counts every error and a positive count reaches os.Exit(1); the page-type predicates hold for exactly one flags word each (tabulated); the lazily loaded free list is published only through freelistLoad.Do (assigned only in the Once body, not touched by loadFreelist before Do returned, used by tx.check only after loadFreelist())", "4 C19"),
 "C06": ("write offsets derive only from ids of pages in tx.pages (filled only by tx.allocate from db.allocate: freelist.Allocate or the high-water mark), free-set entry chain (Free makes pages pending only; mergeSpans/Init only from the release / reload paths) under VTA and CHA, frees and rollbacks under the writer's own txid, free-before-allocate in spill, meta slot, file-writer allow-list, every page handed out is registered with its run length, aborts undo frees; physical rollback shape re-evaluated", "4 C06, 8.2"),
 "C08": ("every error exit of Commit passes the physical rollback (directly or through commitFreelist's summary), shape of rollback (freelist.Rollback, reload from the committed state chosen by hasSyncedFreelist, close), db.allocate has no error exit after an effect and raises the size-limit error first, no I/O error dropped, no rollback after the meta write was issued (one known finding, demonstrated at runtime in findings/F5); writer-lock pairing re-evaluated (the next writer never blocks after a failed commit), free-set entry chain re-evaluated (readers open during the failure keep their snapshot)", "4 C08"),
 "C17": ("lock request per GOOS tabulated over exclusive/outcome (exclusive iff read-write, non-blocking, retry until timeout), lock-before-content and flag selection in Open, read-only refuses writers before any state change and never reaches a file writer, read-only mapping protection constants on every GOOS, close always closes the descriptor and Close takes all three locks, CLI inspection commands open ReadOnly", "4 C17"),
 "C01": ("write-ahead shape of commit on every path (pages, barrier, meta, barrier), file-writer allow-list, I/O error discipline, meta slot = txid%2 with checksum after the last store, db.meta() decision table; plus (re-evaluated) the dirty-page cache is filled only by tx.allocate with allocator-provided ids (no page the durable meta references is rewritten before the new meta is durable); free-set entry chain re-evaluated (the previous meta's pages are not recycled by the commit in flight)", "4 C01, 8.2"),
}

NOT_YET = {}  # filled below for properties whose rules are not implemented yet

ALL = ["C%02d" % i for i in range(1, 21)]
NA = {}

def main():
    checks = []
    na = []
    for pid in ALL:
        if pid in CLAIMED:
            text, ref = CLAIMED[pid]
            checks.append({
                "property_id": pid,
                "quick_cmd": "bin/check %s quick" % pid,
                "thorough_cmd": "bin/check %s thorough" % pid,
                "evidence_file": "/verif/evidence/%s.json" % pid,
                "replay_cmd_template": "bin/check %s quick --replay {path}" % pid,
                "engine": "verif-static",
                "level_claimed": {"category": "other",
                                  "text": "Static decision, on every control-flow path / call-graph path of the current source, of: " + text + ". Each rule is a necessary condition of the property; the behaviour as a whole is not decided.",
                                  "design_ref": "DESIGN.md §" + ref},
                "level_note": NOTE,
                "technique": TECH,
            })
        elif pid in NA:
            na.append({"property_id": pid, "reason": NA[pid]})
        else:
            na.append({"property_id": pid, "reason": "rules designed (DESIGN.md §4) but not yet implemented in the checker at this commit; not claimed until the check exists and is silent on the unchanged tree"})
    m = {
        "version": 1,
        "setup_cmd": "./setup.sh",
        "hooks": {
            "guard": "verif",
            "enable": "none needed: static analysis reads /repo's source; no hook or instrumentation is compiled into bbolt",
            "baseline_off_cmd": "cd /repo && go test -mod=mod -json -vet=off -count=1 -timeout 25m ./...",
            "source_commits": [],
            "add_only": True,
        },
        "engines": [{"name": "verif-static", "path": "/verif/checker", "serves_properties": sorted(CLAIMED),
                     "kind_free_text": "Go program on golang.org/x/tools v0.29.0: loads /repo with go/packages, builds SSA and VTA/CHA call graphs, evaluates repository-specific rule tables; thorough tier adds the GOOS/GOARCH sibling matrix, a CHA re-check and a sensitivity self-test on scratch copies"}],
        "checks": checks,
        "not_applicable": na,
        "notes": "Every check exits 0 / 1 (+VIOLATION line) / 2 (machinery broken). known_findings.jsonl lists genuine defects (known or fixed). fix: commits in /repo: see known_findings.jsonl.",
    }
    with open(os.path.join(HERE, "MANIFEST.json"), "w") as f:
        json.dump(m, f, indent=1)
        f.write("\n")

if __name__ == "__main__":
    main()
