#!/bin/bash
# usage: scan_patches.sh <worktree> <patch>...  — applies each patch alone to the (reset) worktree and scans it
WT=$1; shift
for p in "$@"; do
  (cd $WT && git checkout -q -- . && git clean -fdq && git apply "$p") || { echo "== $p: DOES NOT APPLY"; continue; }
  echo "== $p"
  /verif/tools/scan_repo.sh $WT 2>&1 | cut -c1-420
done
(cd $WT && git checkout -q -- . && git clean -fdq)
