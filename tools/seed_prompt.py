#!/usr/bin/env python3
"""seed_prompt.py <PROP> <SEEDID>: prints the prompt given to an independent sub-agent (property text + scratch
worktree only; nothing from /verif's checks)."""
import json, sys
prop, sid = sys.argv[1], sys.argv[2]
P = {json.loads(l)["id"]: json.loads(l) for l in open("/verif/properties.jsonl")}[prop]
PREV = {
 "C01": "Tx.write's sync gated by len(tx.pages)>0; commitFreelist re-using the old freelist page ids in place; Commit growing the file before commitFreelist",
 "C02": "Tx.rollback using freelist.Init instead of NoSyncReload; Commit calling ReleasePendingPages a second time; Open not taking the shared flock for read-only handles; releaseRange compacting txPending.ids without alloctx (again)",
 "C03": "commitFreelist dropping tx.rollback(); Tx.rollback closing the tx before reloading the freelist; beginRWTx leaking rwlock on the ErrInvalidMapping exit",
 "C04": "Bucket.free replacing the InBucket header (sequence lost); nonPhysicalRollback skipping freelist.Rollback; MoveBucket's same-bucket test treating root page 0 as identity; rebalance unlink helper freeing a node before removing it from the node cache",
 "C05": "Cursor.prev using goToFirstElementOnTheStack at the front; Cursor.Seek dropping the flags of the hop to the next leaf; Cursor.keyValue truncating the element index to uint16 for materialised nodes; Cursor.Seek fast path answering from the leaf the cursor is already on",
 "C06": "Tx.rollback using freelist.Init; nonPhysicalRollback gating freelist.Rollback on a stats counter; hashMap.Allocate handing out a too-short span (size filter dropped); freepages() replaced by a home-made reachability walker (this idea was produced FIVE times: do not touch freepages)",
 "C07": "Tx.rollback gating the freelist reload on len(tx.pages)>0; Tx.write recomputing the chunk offset without '+ written'; DeleteBucket opening the doomed bucket from the committed value instead of the per-tx cache; freepages() replaced by a home-made reachability walker (do not touch freepages)",
 "C08": "Tx.rollback gating the freelist reload; Commit using nonPhysicalRollback on a spill failure; commitFreelist swallowing its allocation error through a shadowed err",
 "C09": "hashMap.Init not resetting freePagesCount; shared.Read handing the page's own id slice to Init (aliasing); releaseRange compacting ids but not the parallel alloctx slice; hashMap.Allocate inserting the remainder span before deleting the original; RemoveReadonlyTXID via slices.DeleteFunc",
 "C10": "RemoveReadonlyTXID using sort.Search on a swap-deleted list; rollback/loadFreelist sharing a Read/Init helper; ReleasePendingPages moved from beginRWTx into the writer's close",
 "C11": "page size accepted on magic+version only (no checksum); db.allocate calling ReleasePendingPages and retrying when the size cap is hit; getPageSizeFromSecondMeta skipping candidate offsets that do not divide the file size",
 "C12": "WriteTo computing the checksum once before DecTxid; removing the unused Meta.flags field; DB.meta() trusting validity flags cached at mmap time",
 "C13": "Tx.rollback using Init instead of NoSyncReload; loadFreelist fast-path before the sync.Once; freepages() using a new lean page walker instead of the checker's walk",
 "C14": "WriteTo taking metas and length from db.meta(); rollback using Init/Read instead of NoSyncReload/Reload; WriteTo's deferred close registered before the fallback to the database's own handle; Commit calling ReleasePendingPages a second time",
 "C15": "CLI compact opening the source read-write; Bucket.inlineable consulting the per-tx bucket cache; Compact's callback deciding bucket-vs-value by len(v)==0; Bucket.spill skipping cached child buckets that are not 'dirty'",
 "C16": "sync.Once removed from batch (timer and size trigger both run); same in batch.trigger; batch.run skipping the rollback of a 'clean' failing function",
 "C17": "flock testing the deadline before the first attempt; Open setting db.opened only after mmap; DB.close unlocking only when closing the descriptor failed; db.mmap's error rollback invalidating instead of unmapping (leaked mapping keeps the flock)",
 "C18": "Commit using nonPhysicalRollback on spill failure; commitFreelist not rolling back when its allocation fails; grow rounding the truncate size up to a page multiple after the MaxSize clamp",
 "C19": "verifyKeyOrder passing runningMin instead of the separator as the child's lower bound; IsBranchPage/IsLeafPage testing a bit instead of equality; verifyPageReachable testing only the head page for multiple references; shared.Read de-duplicating the freelist ids before Check sees them",
 "C20": "common.CopyFile copying only up to meta 0's high-water mark; WriteTo computing the checksum before DecTxid; freepages() looking nested buckets up in the wrong parent",
}
wt, out = f"/tmp/wt/{sid}", f"/tmp/seed/{sid}"
print(f"""You are helping to evaluate a verification framework for the Go project etcd-io/bbolt (an embedded key/value store: copy-on-write B+tree in one mmap'd file, two alternating meta pages, single-writer/multi-reader transactions, a page freelist). Your job is to write ONE realistic, subtle, *breaking* change to bbolt's non-test source — the kind of regression a plausible refactor, optimisation or "cleanup" pull request could introduce — that violates the property below while still compiling and while the project's existing test suite still passes.

You have your own scratch git worktree of the repository at {wt} (work ONLY there; never touch /repo or /verif, and do not read anything under /verif). Write your deliverables to {out}/ (create it).

## The property your change must break

id: {P['id']}
title: {P['title']}
statement: {P['statement']}
quantifier: {json.dumps(P['quantifier'])}
why the existing tests cannot settle it: {P['why_tests_cant']}
anchors (where the mechanism lives): {json.dumps(P['anchors'])}

## Requirements for the change

1. It edits only non-test Go source of the repository (any package: root, internal/common, internal/freelist, internal/surgeon, internal/guts_cli, cmd/bbolt/...). Keep it small (ideally < 30 changed lines) and plausible: it should look like something a maintainer might write or accept (a refactor, a micro-optimisation, a simplification, a reordering, a changed condition, a helper extracted or inlined incorrectly), not sabotage; no dead flags, no "if key == magic".
2. It must compile (`go build ./...`, `go vet` is not required) and the EXISTING tests must still pass: run `go test -count=1 . ./internal/... ./cmd/...` in the worktree with the change applied and check it is green (the one test TestDB_Open_InitialMmapSize is known flaky and may be ignored; tests under ./tests/ need not be run).
3. It must genuinely break the property above for SOME input/schedule/crash point/history — but only under something SPECIFIC: a particular interleaving, a crash or I/O fault at a particular point, a multi-step sequence of operations, an unusual input or option combination, an uncommon platform/architecture, or two cooperating edits that each look fine alone. A change that ordinary use or the existing tests expose at once is useless.
4. Earlier rounds already produced these changes for this property — do NOT repeat them or close variants; pick a different mechanism and preferably a different function/file: {PREV[prop]}. Also avoid anything whose essence is "freelist.Rollback/Reload/NoSyncReload/Init in Tx.rollback or nonPhysicalRollback" or "sync.Once in batch" — those are exhausted. Prefer the less obvious places among the anchors and their callees (node.go, bucket.go, cursor.go, db.go's mmap/grow/allocate/init/close paths, internal/freelist/array.go|hashmap.go|shared.go, internal/common/page.go|inode.go|meta.go|unsafe.go|utils.go, tx_check.go, compact.go, internal/surgeon, cmd/bbolt/command/*) wherever they are relevant to this property.
5. Provide a demonstration: a Go test file `{out}/seed_{sid.lower()}_test.go` that is placed in the repository ROOT directory to run (package `bbolt_test` or `bbolt`; it may import go.etcd.io/bbolt/internal/... packages and may simulate crashes/faults by copying/truncating/patching the database file, by swapping `db`'s unexported hooks if it is in package bbolt, by goroutine scheduling, etc.). It must FAIL (deterministically, within 2 minutes) with your change applied and PASS on the unchanged tree. Test function names must start with `TestSeed{sid}`. If the demonstration cannot live in the root package, say so in the README and still put the file in the root directory if at all possible (e.g. exec `go run ./cmd/bbolt` from it).

## Environment

No network. In every shell call first run: `export GOFLAGS=-mod=mod GOPROXY=off` (do not set GOSUMDB or GOTOOLCHAIN). `cd {wt}` then `go build ./...`, `go test ...` work offline. The machine is shared with other jobs, so test runs may be slow; use generous timeouts (`-timeout 20m`).

## Deliverables in {out}/

- `patch.diff`: output of `git diff` in the worktree with ONLY your source change (no test files), applicable with `git apply` to a clean checkout.
- `seed_{sid.lower()}_test.go`: the demonstration.
- `README.md`: what the change is, why it looks plausible, exactly which property clause it breaks, what specific circumstances it needs to manifest, and the commands you ran with their outcomes (build, demo with/without the change, existing suite with the change).

To save time on this shared machine iterate with targeted `go test -run` subsets and run the full root-package suite only once at the end (e.g. from a `go test -c` binary with a long -test.timeout). NEVER use `git stash` (it is shared between worktrees): use `git diff > file; git checkout -- .; git apply file`.

Before you finish: verify the patch applies to a clean tree (`git stash`/`git checkout -- .` then `git apply`), that the demo fails with it and passes without it, and that the existing suite is green with it. Leave the worktree clean of stray files if you can (it will be deleted anyway). Report back a 5-line summary: the change, what it needs to manifest, and the verification results.""")
