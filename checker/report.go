package main

import (
	"bufio"
	"encoding/json"
	"fmt"
	"go/token"
	"os"
	"path/filepath"
	"runtime/debug"
	"sort"
	"strings"
	"time"

	"golang.org/x/tools/go/ssa"
)

// Obligation is one checked instance of a rule.
type Obligation struct {
	Rule       string `json:"rule"`
	Key        string `json:"key"` // rule:function[:role] — never a line number
	Fn         string `json:"fn,omitempty"`
	Site       string `json:"site,omitempty"` // file:line (report only)
	Fact       string `json:"fact"`
	OK         bool   `json:"ok"`
	Nontrivial bool   `json:"nontrivial"`
	Detail     string `json:"detail,omitempty"`
	Platform   string `json:"platform,omitempty"`
}

type ruleStat struct {
	Rule      string `json:"rule"`
	Title     string `json:"title"`
	Instances int    `json:"instances"`
	Floor     int    `json:"floor"`
	Violated  int    `json:"violations"`
}

// Ctx is the evaluation context of one property run on one program.
type Ctx struct {
	Prop     string
	P        *Prog
	Platform string
	Obs      []Obligation
	Rules    []*ruleStat
	cur      *ruleStat
	fnsSeen  map[string]bool
	sites    int
	cgMode   string // "vta" or "cha"
}

type anchorErr struct{ name string }

func newCtx(prop string, p *Prog) *Ctx {
	pl := "host"
	if p != nil && p.GOOS != "" {
		pl = p.GOOS + "/" + p.GOARCH
	}
	return &Ctx{Prop: prop, P: p, Platform: pl, fnsSeen: map[string]bool{}, cgMode: "vta"}
}

// rule runs body as rule `id`; panics (anchor failures, checker bugs) become
// failed obligations — never a pass.
func (c *Ctx) rule(id, title string, floor int, body func()) {
	rs := &ruleStat{Rule: id, Title: title, Floor: floor}
	c.Rules = append(c.Rules, rs)
	c.cur = rs
	func() {
		defer func() {
			if r := recover(); r != nil {
				if ae, ok := r.(anchorErr); ok {
					c.add(id+":anchor-unresolved:"+ae.name, "", token.NoPos, "anchor resolves", false, false, "function or field `"+ae.name+"` not found in the loaded program")
					return
				}
				st := string(debug.Stack())
				if len(st) > 1500 {
					st = st[:1500]
				}
				c.add(id+":checker-panic", "", token.NoPos, "rule evaluates", false, false, fmt.Sprintf("panic: %v\n%s", r, st))
			}
		}()
		body()
	}()
	if rs.Instances < floor {
		c.add(id+":floor", "", token.NoPos, fmt.Sprintf("at least %d instances found", floor), false, false,
			fmt.Sprintf("only %d instances matched (floor %d): the rule would pass vacuously", rs.Instances, floor))
	}
	c.cur = nil
}

func (c *Ctx) add(key, fn string, pos token.Pos, fact string, ok, nontrivial bool, detail string) {
	rule := key
	if i := strings.Index(key, ":"); i >= 0 {
		rule = key[:i]
	}
	site := ""
	if c.P != nil && pos.IsValid() {
		site = c.P.Position(pos)
	}
	o := Obligation{Rule: rule, Key: key, Fn: fn, Site: site, Fact: fact, OK: ok, Nontrivial: nontrivial, Detail: detail}
	if c.Platform != "host" {
		o.Platform = c.Platform
		o.Key = key + "@" + c.Platform
	}
	c.Obs = append(c.Obs, o)
	if c.cur != nil && !strings.HasSuffix(key, ":floor") {
		c.cur.Instances++
		if !ok {
			c.cur.Violated++
		}
	} else if c.cur != nil && !ok {
		c.cur.Violated++
	}
	if fn != "" {
		c.fnsSeen[fn] = true
	}
	if site != "" {
		c.sites++
	}
}

// check records a non-trivial obligation (needed a path / call-graph / slice query).
func (c *Ctx) check(key string, fn *ssa.Function, pos token.Pos, fact string, ok bool, detail string) bool {
	name := ""
	if fn != nil {
		name = shortFn(fn)
		if !pos.IsValid() {
			pos = fn.Pos()
		}
	}
	if ok {
		detail = ""
	}
	c.add(key, name, pos, fact, ok, true, detail)
	return ok
}

// fact records a trivial obligation (a bare constant / layout comparison).
func (c *Ctx) fact(key string, pos token.Pos, fact string, ok bool, detail string) bool {
	if ok {
		detail = ""
	}
	c.add(key, "", pos, fact, ok, false, detail)
	return ok
}

// fn resolves an anchor; an unresolved anchor aborts the rule with a failure.
func (c *Ctx) fn(name string) *ssa.Function {
	f := c.P.Fn(name)
	if f == nil {
		panic(anchorErr{name})
	}
	c.fnsSeen[name] = true
	return f
}

func (c *Ctx) optFn(name string) *ssa.Function { return c.P.Fn(name) }

// ---------------------------------------------------------------- known findings

type knownFinding struct {
	Property string `json:"property"`
	Key      string `json:"key"`
	Status   string `json:"status"` // known | fixed
	Commit   string `json:"commit,omitempty"`
	What     string `json:"what"`
}

func loadKnown(path string) ([]knownFinding, error) {
	f, err := os.Open(path)
	if err != nil {
		if os.IsNotExist(err) {
			return nil, nil
		}
		return nil, err
	}
	defer f.Close()
	var out []knownFinding
	sc := bufio.NewScanner(f)
	sc.Buffer(make([]byte, 1<<20), 1<<20)
	for sc.Scan() {
		line := strings.TrimSpace(sc.Text())
		if line == "" || strings.HasPrefix(line, "#") {
			continue
		}
		var k knownFinding
		if err := json.Unmarshal([]byte(line), &k); err != nil {
			return nil, fmt.Errorf("known findings: %v in %q", err, line)
		}
		out = append(out, k)
	}
	return out, sc.Err()
}

// ---------------------------------------------------------------- evidence

type evidence struct {
	PropertyID  string         `json:"property_id"`
	Tier        string         `json:"tier"`
	Seed        int            `json:"seed"`
	Level       string         `json:"level"`
	Coverage    map[string]any `json:"coverage"`
	Assumptions []string       `json:"assumptions"`
	WallS       float64        `json:"wall_s"`
	Violations  int            `json:"violations"`
}

type runResult struct {
	Prop       string
	Tier       string
	Obs        []Obligation
	Rules      []*ruleStat
	Fns        map[string]bool
	Packages   int
	Platforms  []string
	Mutants    []mutantResult
	CHAChecked bool
	Extra      map[string]any
}

func (r *runResult) merge(c *Ctx) {
	r.Obs = append(r.Obs, c.Obs...)
	for _, rs := range c.Rules {
		var ex *ruleStat
		for _, e := range r.Rules {
			if e.Rule == rs.Rule {
				ex = e
			}
		}
		if ex == nil {
			cp := *rs
			r.Rules = append(r.Rules, &cp)
		} else {
			ex.Instances += rs.Instances
			ex.Violated += rs.Violated
		}
	}
	for f := range c.fnsSeen {
		r.Fns[f] = true
	}
}

func writeEvidence(dir string, res *runResult, explanation string, assumptions []string, wall time.Duration, seed int, violations int) error {
	if err := os.MkdirAll(dir, 0o755); err != nil {
		return err
	}
	total, discharged, nontriv := 0, 0, map[string]bool{}
	for _, o := range res.Obs {
		total++
		if o.OK {
			discharged++
		}
		if o.Nontrivial {
			nontriv[o.Key] = true
		}
	}
	// samples: up to 12 obligations, spread over the rules
	var samples []any
	perRule := map[string]int{}
	for _, o := range res.Obs {
		if perRule[o.Rule] >= 2 || len(samples) >= 14 {
			continue
		}
		perRule[o.Rule]++
		samples = append(samples, map[string]any{"rule": o.Rule, "key": o.Key, "fn": o.Fn, "site": o.Site, "fact": o.Fact, "ok": o.OK})
	}
	fns := make([]string, 0, len(res.Fns))
	for f := range res.Fns {
		fns = append(fns, f)
	}
	sort.Strings(fns)
	sites := 0
	for _, o := range res.Obs {
		if o.Site != "" {
			sites++
		}
	}
	cov := map[string]any{
		"explanation":         explanation,
		"obligations":         total,
		"discharged":          discharged,
		"evaluations":         total,
		"distinct_nontrivial": len(nontriv),
		"rule":                "obligations are enumerated from the loaded program: one per (rule, resolved construct) — call site, store, return, branch, struct field or constant found through types/SSA/call graph; non-trivial = deciding it needed a path, dominance, call-graph, provenance or table query rather than a bare constant comparison; distinct = distinct obligation key (rule:function:role[@platform])",
		"rules":               res.Rules,
		"functions_analysed":  fns,
		"call_sites":          sites,
		"packages":            res.Packages,
		"samples":             samples,
		"exhaustive":          false,
	}
	if len(res.Platforms) > 0 {
		cov["platforms"] = res.Platforms
	}
	if res.CHAChecked {
		cov["cha_recheck"] = true
	}
	if len(res.Mutants) > 0 {
		applied, detected, benign, silent := 0, 0, 0, 0
		var list []any
		for _, m := range res.Mutants {
			if m.Benign {
				if m.Applied {
					benign++
					if len(m.Fired) == 0 {
						silent++
					}
				}
			} else {
				if m.Applied {
					applied++
				}
				if m.Detected {
					detected++
				}
			}
			list = append(list, m)
		}
		cov["mutants_applied"] = applied
		cov["mutants_detected"] = detected
		cov["benign_edits_applied"] = benign
		cov["benign_edits_silent"] = silent
		cov["mutants"] = list
	}
	for k, v := range res.Extra {
		cov[k] = v
	}
	ev := evidence{PropertyID: res.Prop, Tier: res.Tier, Seed: seed, Level: "other", Coverage: cov,
		Assumptions: assumptions, WallS: wall.Seconds(), Violations: violations}
	b, err := json.MarshalIndent(ev, "", " ")
	if err != nil {
		return err
	}
	return os.WriteFile(filepath.Join(dir, res.Prop+".json"), b, 0o644)
}

type replayFile struct {
	Property string     `json:"property"`
	Rule     string     `json:"rule"`
	Key      string     `json:"key"`
	Site     string     `json:"site"`
	Fn       string     `json:"fn"`
	Fact     string     `json:"fact"`
	Detail   string     `json:"detail"`
	Platform string     `json:"platform,omitempty"`
	Replay   string     `json:"replay_cmd"`
	Ob       Obligation `json:"obligation"`
}
