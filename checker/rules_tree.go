package main

import (
	"fmt"

	"golang.org/x/tools/go/ssa"
)

// Structural rules about the in-memory B+tree (node.go) that are necessary conditions of
// "a write transaction reads and commits its own uncommitted writes" (C04) and of
// "every page is accounted for exactly once" (C07).

// ruleMovedInodesCarryChildren: in (*node).rebalance, whenever the inodes of one node are transferred to another
// node (root collapse: n.inodes = child.inodes; merge: left.inodes = append(left.inodes, right.inodes...)), every
// MATERIALISED child below the moved inodes must be re-parented to the receiving node: a loop that looks the moved
// inodes' page ids up in Bucket.nodes and stores the receiving node into the hit's `parent`. Otherwise the dirty
// child keeps pointing at the node that is freed right afterwards; at spill it updates that dead node, the live
// parent keeps the child's OLD (now freed) page id: the child's uncommitted writes are lost and a freed page stays
// reachable.
func ruleMovedInodesCarryChildren(c *Ctx, id string) {
	c.rule(id, "moved-inodes-carry-children", 2, func() {
		inodesF := c.P.lookupField(rootPkg, "node", "inodes")
		parentF := c.P.lookupField(rootPkg, "node", "parent")
		nodesF := c.P.lookupField(rootPkg, "Bucket", "nodes")
		if inodesF == nil || parentF == nil || nodesF == nil {
			panic(anchorErr{"node.inodes / node.parent / Bucket.nodes"})
		}
		fn := c.fn("bbolt.(*node).rebalance")
		// re-parent stores: <lookup in Bucket.nodes>.parent = V
		type reparent struct {
			st     fieldStore
			header *ssa.BasicBlock
		}
		var reps []reparent
		for _, st := range storesToField([]*ssa.Function{fn}, parentF) {
			ex, ok := st.Addr.X.(*ssa.Extract)
			if !ok || ex.Index != 0 {
				continue
			}
			lk, ok := ex.Tuple.(*ssa.Lookup)
			if !ok || !lk.CommaOk || pathOf(lk.X).Last() != nodesF {
				continue
			}
			// the key is the page id of an inode
			keyOK := false
			for _, l := range provenance(lk.Index, provOpts{ThroughCall: throughAll}) {
				if l.Kind == "field" && pathOf(l.V).Has(inodesF) {
					keyOK = true
				}
			}
			if !keyOK {
				continue
			}
			reps = append(reps, reparent{st, loopHeaderOf(st.Instr.Block())})
		}
		k := 0
		for _, st := range storesToField([]*ssa.Function{fn}, inodesF) {
			recv := st.Addr.X
			// sources: loads of X.inodes reachable backwards through slice / append / changetype
			var donors []ssa.Value
			var walk func(v ssa.Value, d int)
			seen := map[ssa.Value]bool{}
			walk = func(v ssa.Value, d int) {
				if v == nil || seen[v] || d > 8 {
					return
				}
				seen[v] = true
				switch x := v.(type) {
				case *ssa.Slice:
					walk(x.X, d+1)
				case *ssa.ChangeType:
					walk(x.X, d+1)
				case *ssa.Convert:
					walk(x.X, d+1)
				case *ssa.Phi:
					for _, e := range x.Edges {
						walk(e, d+1)
					}
				case *ssa.Call:
					if calleeOf(x).Builtin == "append" {
						for _, a := range x.Call.Args {
							walk(a, d+1)
						}
					}
				case *ssa.UnOp:
					if fa, ok := x.X.(*ssa.FieldAddr); ok && fieldOfAddr(fa) == inodesF {
						if !sameValue(fa.X, recv) {
							donors = append(donors, fa.X)
						}
					}
				}
			}
			walk(st.Val, 0)
			if len(donors) == 0 {
				continue // not a transfer between two nodes (e.g. a deletion inside one node)
			}
			k++
			ok := false
			detail := "no loop re-parents the materialised children of the moved inodes to the receiving node"
			for _, rp := range reps {
				if !sameValue(rp.st.Val, recv) {
					detail = "a child found in Bucket.nodes is re-parented, but not to the node that receives the inodes"
					continue
				}
				if rp.header == nil {
					detail = "the re-parenting store is not inside a loop over the moved inodes"
					continue
				}
				// the loop lies on every path through the transfer
				h := rp.header.Instrs[0]
				if dominates(h, st.Instr) || dominates(st.Instr, h) {
					ok = true
				} else {
					detail = "the re-parenting loop can be bypassed on a path that transfers the inodes"
				}
			}
			c.check(fmt.Sprintf("%s:bbolt.(*node).rebalance:transfer#%d", id, k), fn, st.Instr.Pos(),
				"when a node's inodes are moved into another node, every materialised child below them is re-parented to the receiving node (else its uncommitted changes are spilled into a freed node and the live tree keeps a freed page id)", ok, detail)
		}
	})
}

// loopHeaderOf returns the header of the innermost natural loop containing b (nil if none).
func loopHeaderOf(b *ssa.BasicBlock) *ssa.BasicBlock {
	for h := b; h != nil; h = h.Idom() {
		for _, p := range h.Preds {
			if !h.Dominates(p) {
				continue
			}
			// back edge p -> h; is b inside this loop (b reaches p without passing h)?
			seen := map[*ssa.BasicBlock]bool{h: true}
			var dfs func(x *ssa.BasicBlock) bool
			dfs = func(x *ssa.BasicBlock) bool {
				if x == p {
					return true
				}
				if seen[x] {
					return false
				}
				seen[x] = true
				for _, s := range x.Succs {
					if dfs(s) {
						return true
					}
				}
				return false
			}
			if b == h || b == p {
				return h
			}
			seen[h] = true
			if dfs(b) {
				return h
			}
		}
	}
	return nil
}
