package main

import (
	"go/ast"
	"fmt"
	"go/constant"
	"go/token"
	"go/types"
	"strings"

	"golang.org/x/tools/go/ssa"
)

var gTier = "quick"

const commonPath = modulePath + "/internal/common"

var gcArches = []string{"386", "amd64", "arm", "arm64", "loong64", "mips", "mipsle", "mips64", "mips64le", "ppc64", "ppc64le", "riscv64", "s390x"}

func init() {
	register(&propDef{
		ID: "C12",
		Explanation: "Decided: the DEFINITION of the version-2 on-disk format — sizes, offsets and kinds of every mapped struct field on every supported gc architecture, the format constants, the checksum algorithm and coverage, the writer/reader pairing of element fields " +
			"(ksize/vsize/flags/pgid/pos, key bytes before value bytes), the 0xFFFF freelist-count convention tabulated on writer, reader and size estimator, the initial four-page layout written by init, checksum-after-mutation and the meta slot. " +
			"NOT decided: that arbitrary histories produce files an independent reader decodes to the same content, golden-file compatibility (dynamic). Round 4: the page size of an existing file comes from the file (re-evaluated).",
		Run: func(c *Ctx) {
			ruleMetaSlot(c, "C12.R14") // "the current state is the valid meta page with the highest txid": slot = txid%2 and the db.meta() decision table (seed C12c)
			ruleBackupMetaBufferOnePage(c, "C12.R13") // a backup is a version-2 file at the database's page size
			c13R10(c, "C12.R12") // "open and read back identically under any option combination and page size": the page size of an existing file comes from the file
			c12R1(c, "C12.R1")
			c12R2(c, "C12.R2")
			c12R3(c, "C12.R3")
			c12R4(c, "C12.R4")
			ruleFreelistCountConvention(c, "C12.R5")
			c12R6(c, "C12.R6")
			ruleChecksumAfterMutation(c, "C12.R7", 5)
			c12R10(c, "C12.R10")
			rulePageCapacity(c, "C12.R11") // an independent reader finds every element inside its page run
			rulePageTypeExact(c, "C12.R9") // v2: a page carries exactly one type flag
			ruleInlineNoNested(c, "C12.R8") // v2 convention: an inline bucket has root page 0 and owns no pages
		},
	})
}

type fieldSpec struct {
	name   string
	offset int64
	size   int64
	kind   string // underlying type string
}

type structSpec struct {
	name   string
	size   int64
	fields []fieldSpec
}

var v2Layout = []structSpec{
	{"Page", 16, []fieldSpec{{"id", 0, 8, "uint64"}, {"flags", 8, 2, "uint16"}, {"count", 10, 2, "uint16"}, {"overflow", 12, 4, "uint32"}}},
	{"Meta", 64, []fieldSpec{{"magic", 0, 4, "uint32"}, {"version", 4, 4, "uint32"}, {"pageSize", 8, 4, "uint32"}, {"flags", 12, 4, "uint32"},
		{"root", 16, 16, "struct"}, {"freelist", 32, 8, "uint64"}, {"pgid", 40, 8, "uint64"}, {"txid", 48, 8, "uint64"}, {"checksum", 56, 8, "uint64"}}},
	{"InBucket", 16, []fieldSpec{{"root", 0, 8, "uint64"}, {"sequence", 8, 8, "uint64"}}},
	{"branchPageElement", 16, []fieldSpec{{"pos", 0, 4, "uint32"}, {"ksize", 4, 4, "uint32"}, {"pgid", 8, 8, "uint64"}}},
	{"leafPageElement", 16, []fieldSpec{{"flags", 0, 4, "uint32"}, {"pos", 4, 4, "uint32"}, {"ksize", 8, 4, "uint32"}, {"vsize", 12, 4, "uint32"}}},
}

func archesForTier() []string {
	if gTier == "thorough" {
		return gcArches
	}
	return []string{"amd64"}
}

func kindOf(t types.Type) string {
	switch u := t.Underlying().(type) {
	case *types.Basic:
		return u.Name()
	case *types.Struct:
		return "struct"
	}
	return t.Underlying().String()
}

func c12R1(c *Ctx, id string) {
	c.rule(id, "layout-table", 5, func() {
		pk := c.P.Pkg(commonPath)
		if pk == nil {
			panic(anchorErr{commonPath})
		}
		for _, arch := range archesForTier() {
			sizes := types.SizesFor("gc", arch)
			if sizes == nil {
				c.fact(id+":sizes@"+arch, 0, "gc sizes available for "+arch, false, "types.SizesFor returned nil")
				continue
			}
			for _, sp := range v2Layout {
				obj := pk.Types.Scope().Lookup(sp.name)
				key := fmt.Sprintf("%s:common.%s@%s", id, sp.name, arch)
				if obj == nil {
					c.fact(key, 0, "struct exists", false, "type common."+sp.name+" not found")
					continue
				}
				st, ok := obj.Type().Underlying().(*types.Struct)
				if !ok {
					c.fact(key, obj.Pos(), "is a struct", false, "not a struct")
					continue
				}
				var fields []*types.Var
				for i := 0; i < st.NumFields(); i++ {
					fields = append(fields, st.Field(i))
				}
				offs := sizes.Offsetsof(fields)
				got := map[string]fieldSpec{}
				for i, f := range fields {
					got[f.Name()] = fieldSpec{f.Name(), offs[i], sizes.Sizeof(f.Type()), kindOf(f.Type())}
				}
				bad := ""
				if sz := sizes.Sizeof(obj.Type()); sz != sp.size {
					bad = fmt.Sprintf("size %d, want %d", sz, sp.size)
				}
				if len(got) != len(sp.fields) {
					bad = fmt.Sprintf("%d fields, want %d", len(got), len(sp.fields))
				}
				for _, w := range sp.fields {
					g, ok := got[w.name]
					if !ok {
						bad = "field " + w.name + " missing"
					} else if g != w {
						bad = fmt.Sprintf("field %s is %s@%d size %d, want %s@%d size %d", w.name, g.kind, g.offset, g.size, w.kind, w.offset, w.size)
					}
				}
				c.fact(key, obj.Pos(), fmt.Sprintf("common.%s has the version-2 layout (size %d, %d fields at the published offsets) under gc/%s", sp.name, sp.size, len(sp.fields), arch), bad == "", bad)
			}
		}
		for _, tn := range []string{"Pgid", "Txid"} {
			obj := pk.Types.Scope().Lookup(tn)
			ok := obj != nil && kindOf(obj.Type()) == "uint64"
			c.fact(id+":common."+tn, 0, tn+" is uint64", ok, "")
		}
	})
}

func c12R2(c *Ctx, id string) {
	c.rule(id, "format-constants", 14, func() {
		want := []struct {
			name string
			val  string
		}{
			{"Magic", "3977042669"}, {"Version", "2"}, {"BranchPageFlag", "1"}, {"LeafPageFlag", "2"}, {"MetaPageFlag", "4"}, {"FreelistPageFlag", "16"},
			{"BucketLeafFlag", "1"}, {"PgidNoFreelist", "18446744073709551615"}, {"PageHeaderSize", "16"}, {"BranchPageElementSize", "16"}, {"LeafPageElementSize", "16"},
			{"BucketHeaderSize", "16"}, {"MinKeysPerPage", "2"}, {"pgidSize", "8"},
		}
		pk := c.P.Pkg(commonPath)
		for _, w := range want {
			k, ok := pk.Types.Scope().Lookup(w.name).(*types.Const)
			got := "<missing>"
			if ok {
				got = constant.ToInt(k.Val()).ExactString()
			}
			if !ok && !ast.IsExported(w.name) {
				// an unexported helper constant may be renamed or folded away; every USE of the width is covered by the
				// capacity tables (C07.R8 / C12.R11) and the 0xFFFF convention
				c.fact(id+":common."+w.name, 0, fmt.Sprintf("common.%s == %s (unexported: optional)", w.name, w.val), true, "")
				continue
			}
			c.fact(id+":common."+w.name, 0, fmt.Sprintf("common.%s == %s", w.name, w.val), ok && got == w.val, "value is "+got)
		}
		// Page.Meta() adds exactly Sizeof(Page)
		pm := c.fn("common.(*Page).Meta")
		ok := false
		detail := "no UnsafeAdd(p, 16)"
		for _, call := range plainCallsIn(pm, "common.UnsafeAdd") {
			if v, isC := constInt(call.Call.Args[1]); isC {
				ok = v == 16
				detail = fmt.Sprintf("offset %d", v)
			}
		}
		c.check(id+":common.(*Page).Meta:offset", pm, pm.Pos(), "Page.Meta() is the address of the page plus exactly 16 (the page header)", ok, detail)
		// LoadPageMeta uses the same offset
		lpm := c.fn("common.LoadPageMeta")
		ok = false
		eachInstr(lpm, func(in ssa.Instruction) {
			if ia, isIA := in.(*ssa.IndexAddr); isIA {
				if v, isC := constInt(ia.Index); isC && v == 16 {
					ok = true
				}
			}
		})
		c.check(id+":common.LoadPageMeta:offset", lpm, lpm.Pos(), "LoadPageMeta reads the meta at buffer offset 16", ok, "different offset")
	})
}

func c12R3(c *Ctx, id string) {
	c.rule(id, "checksum-algorithm", 2, func() {
		sum := c.fn("common.(*Meta).Sum64")
		news := plainCallsIn(sum, "fnv.New64a")
		c.check(id+":common.(*Meta).Sum64:fnv64a", sum, sum.Pos(), "Sum64 uses hash/fnv.New64a", len(news) == 1 && len(plainCallsIn(sum, "fnv.New64")) == 0, fmt.Sprintf("%d New64a calls", len(news)))
		// the bytes hashed: a slice of *[N]byte converted from the receiver, N == Offsetof(checksum)
		pk := c.P.Pkg(commonPath)
		st := pk.Types.Scope().Lookup("Meta").Type().Underlying().(*types.Struct)
		var fields []*types.Var
		ckIdx := -1
		for i := 0; i < st.NumFields(); i++ {
			fields = append(fields, st.Field(i))
			if st.Field(i).Name() == "checksum" {
				ckIdx = i
			}
		}
		okN := false
		detail := "no slice of a byte-array view of the receiver is written to the hash"
		if ckIdx >= 0 {
			want := types.SizesFor("gc", "amd64").Offsetsof(fields)[ckIdx]
			eachInstr(sum, func(in ssa.Instruction) {
				sl, ok := in.(*ssa.Slice)
				if !ok {
					return
				}
				pt, ok := sl.X.Type().Underlying().(*types.Pointer)
				if !ok {
					return
				}
				arr, ok := pt.Elem().Underlying().(*types.Array)
				if !ok {
					return
				}
				fromRecv := false
				for _, l := range provenance(sl.X, provOpts{}) {
					if l.Kind == "param" && l.V == sum.Params[0] {
						fromRecv = true
					}
				}
				full := sl.Low == nil && sl.High == nil
				// the slice must be what is written
				written := false
				for _, r := range *sl.Referrers() {
					if ci, ok := r.(ssa.CallInstruction); ok && strings.HasSuffix(calleeOf(ci).Name(), ".Write") {
						written = true
					}
				}
				if fromRecv && written {
					okN = arr.Len() == want && full
					detail = fmt.Sprintf("hashes %d bytes (full slice: %v), want Offsetof(checksum) = %d", arr.Len(), full, want)
				}
			})
			// checksum must be the last field
			if ckIdx != st.NumFields()-1 {
				okN = false
				detail = "checksum is not the last field of Meta"
			}
		}
		c.check(id+":common.(*Meta).Sum64:coverage", sum, sum.Pos(), "Sum64 hashes exactly the Offsetof(checksum)-byte prefix of the meta, and checksum is the last field", okN, detail)
	})
}

func argHasCall(v ssa.Value, callee string) bool {
	for _, l := range provenance(v, provOpts{ThroughCall: throughAll}) {
		if l.Kind == "call" && l.Name == callee {
			return true
		}
	}
	return false
}

func c12R4(c *Ctx, id string) {
	c.rule(id, "writer-reader-field-pairing", 9, func() {
		w := c.fn("common.WriteInodeToPage")
		type pair struct{ setter, viaLen, getter string }
		pairs := []pair{
			{"common.(*leafPageElement).SetKsize", "len", "common.(*Inode).Key"},
			{"common.(*leafPageElement).SetVsize", "len", "common.(*Inode).Value"},
			{"common.(*leafPageElement).SetFlags", "", "common.(*Inode).Flags"},
			{"common.(*branchPageElement).SetKsize", "len", "common.(*Inode).Key"},
			{"common.(*branchPageElement).SetPgid", "", "common.(*Inode).Pgid"},
		}
		for _, p := range pairs {
			calls := plainCallsIn(w, p.setter)
			ok := len(calls) == 1
			detail := fmt.Sprintf("%d calls", len(calls))
			if ok {
				ls := provenance(calls[0].Call.Args[1], provOpts{ThroughCall: throughAll})
				ok = hasLeaf(ls, "call", p.getter)
				if p.viaLen != "" {
					ok = ok && hasLeaf(ls, "call", "builtin:len")
				}
				// and no other Inode getter feeds it
				for _, l := range ls {
					if l.Kind == "call" && strings.HasPrefix(l.Name, "common.(*Inode).") && l.Name != p.getter {
						ok = false
					}
				}
				detail = "argument derives from " + strings.Join(leafNames(ls), ",")
			}
			short := p.setter[strings.LastIndex(p.setter, ".")+1:]
			c.check(id+":common.WriteInodeToPage:"+p.setter, w, w.Pos(), fmt.Sprintf("%s receives %s(%s)", short, p.viaLen, p.getter), ok, detail)
		}
		// pos = &b[0] - elem
		for _, setter := range []string{"common.(*leafPageElement).SetPos", "common.(*branchPageElement).SetPos"} {
			calls := plainCallsIn(w, setter)
			ok := len(calls) == 1
			if ok {
				ok = false
				v := stripConv(calls[0].Call.Args[1])
				if bo, isBin := v.(*ssa.BinOp); isBin && bo.Op == token.SUB {
					ls := provenance(bo.Y, provOpts{})
					elemOK := false
					for _, l := range ls {
						if l.V == calls[0].Call.Args[0] {
							elemOK = true
						}
					}
					lx := provenance(bo.X, provOpts{ThroughCall: throughAll})
					ok = elemOK && hasLeaf(lx, "call", "common.UnsafeByteSlice")
				}
			}
			c.check(id+":common.WriteInodeToPage:"+setter, w, w.Pos(), "pos is the address of the element's data minus the address of the element itself", ok, "pos computed differently")
		}
		// key bytes are copied before value bytes
		var copies []*ssa.Call
		eachInstr(w, func(in ssa.Instruction) {
			if call, ok := in.(*ssa.Call); ok && calleeOf(call).Builtin == "copy" {
				copies = append(copies, call)
			}
		})
		ok := len(copies) == 2
		if ok {
			k, v := copies[0], copies[1]
			if !dominates(k, v) {
				k, v = v, k
			}
			ok = dominates(k, v) && argHasCall(k.Call.Args[1], "common.(*Inode).Key") && argHasCall(v.Call.Args[1], "common.(*Inode).Value")
			// the value copy starts where the key copy ended
			if sl, isSl := v.Call.Args[0].(*ssa.Slice); !isSl || sl.Low != ssa.Value(k) {
				ok = false
			}
		}
		c.check(id+":common.WriteInodeToPage:key-then-value", w, w.Pos(), "the key bytes are copied first and the value bytes directly after them", ok, "copy order / offsets differ")

		// reader side
		r := c.fn("common.ReadInodeFromPage")
		for _, p := range []pair{
			{"common.(*Inode).SetFlags", "", "common.(*leafPageElement).Flags"},
			{"common.(*Inode).SetValue", "", "common.(*leafPageElement).Value"},
			{"common.(*Inode).SetPgid", "", "common.(*branchPageElement).Pgid"},
		} {
			calls := plainCallsIn(r, p.setter)
			ok := len(calls) == 1 && argHasCall(calls[0].Call.Args[1], p.getter)
			c.check(id+":common.ReadInodeFromPage:"+p.setter, r, r.Pos(), p.setter+" receives "+p.getter+"()", ok, "")
		}
		keys := plainCallsIn(r, "common.(*Inode).SetKey")
		okK := len(keys) == 2
		for _, k := range keys {
			if !(argHasCall(k.Call.Args[1], "common.(*leafPageElement).Key") || argHasCall(k.Call.Args[1], "common.(*branchPageElement).Key")) {
				okK = false
			}
		}
		c.check(id+":common.ReadInodeFromPage:SetKey", r, r.Pos(), "both arms set the key from the element's Key()", okK, "")

		// accessors: Key = [pos, pos+ksize), Value = [pos+ksize, pos+ksize+vsize)
		for _, acc := range []struct {
			fn       string
			lo, hi   int64
		}{
			{"common.(*leafPageElement).Key", 100, 107},
			{"common.(*leafPageElement).Value", 107, 116},
			{"common.(*branchPageElement).Key", 100, 107},
		} {
			f := c.fn(acc.fn)
			var got []V
			ev := &Evaluator{
				Load: func(u *ssa.UnOp) (V, bool) {
					switch pathOf(u).Names() {
					case "pos":
						return uV(100), true
					case "ksize":
						return uV(7), true
					case "vsize":
						return uV(9), true
					}
					return unkV, false
				},
				OnCall: func(ci ssa.CallInstruction, args []V) {
					if calleeOf(ci).Name() == "common.UnsafeByteSlice" {
						got = args
					}
				},
			}
			o := ev.Exec(f, nil)
			ok := o.Kind == "return" && len(got) == 4
			detail := o.String()
			if ok {
				off, _ := got[1].Int()
				lo, _ := got[2].Int()
				hi, _ := got[3].Int()
				ok = off == 0 && lo == acc.lo && hi == acc.hi
				detail = fmt.Sprintf("slice [%d:%d] at offset %d for pos=100 ksize=7 vsize=9, want [%d:%d] at 0", lo, hi, off, acc.lo, acc.hi)
			}
			c.check(id+":"+acc.fn+":range", f, f.Pos(), "the accessor returns the byte range fixed by the format (relative to the element)", ok, detail)
		}
	})
}

// ruleFreelistCountConvention tabulates writer, reader and estimator of the 0xFFFF count convention (C09.R3 / C12.R5).
func ruleFreelistCountConvention(c *Ctx, id string) {
	c.rule(id, "freelist-count-0xFFFF", 4, func() {
		samples := []int64{0, 1, 2, 0xFFFE, 0xFFFF, 0x10000, 0x20001}
		// writer
		wr := c.fn("freelist.(*shared).Write")
		badW := ""
		for _, n := range samples {
			var setCount *V
			var lead *V
			var copyLow string = "-"
			var sliceLen *V
			ev := &Evaluator{
				Call: func(call *ssa.Call, args []V) (V, bool) {
					if strings.HasSuffix(calleeOf(call).Name(), ".Count") {
						return iV(n), true
					}
					return unkV, false
				},
				OnCall: func(ci ssa.CallInstruction, args []V) {
					cn := calleeOf(ci).Name()
					switch {
					case cn == "common.(*Page).SetCount":
						v := args[1]
						setCount = &v
					case strings.HasSuffix(cn, ".Copyall"):
						a := ci.Common().Args[len(ci.Common().Args)-1]
						if sl, ok := a.(*ssa.Slice); ok && sl.Low != nil {
							if v, isC := constInt(sl.Low); isC {
								copyLow = fmt.Sprint(v)
							}
						} else {
							copyLow = "0"
						}
					case cn == "builtin:Slice" || strings.HasSuffix(cn, "unsafe.Slice"):
						if len(args) == 2 {
							v := args[1]
							sliceLen = &v
						}
					}
				},
				OnStore: func(s *ssa.Store, val V) {
					if ia, ok := s.Addr.(*ssa.IndexAddr); ok {
						if v, isC := constInt(ia.Index); isC && v == 0 {
							x := val
							lead = &x
						}
					}
				},
			}
			o := ev.Exec(wr, nil)
			if o.Kind != "return" {
				badW = fmt.Sprintf("n=%d: %s", n, o)
				break
			}
			wantCount := n
			if n >= 0xFFFF {
				wantCount = 0xFFFF
			}
			if setCount == nil {
				badW = fmt.Sprintf("n=%d: SetCount not called", n)
				break
			}
			if got, ok := setCount.Int(); !ok || got != wantCount {
				badW = fmt.Sprintf("n=%d: SetCount(%s), want %d", n, *setCount, wantCount)
				break
			}
			if n >= 0xFFFF {
				if lead == nil {
					badW = fmt.Sprintf("n=%d: the real count is not stored in the first element", n)
					break
				}
				if got, ok := lead.Int(); !ok || got != n {
					badW = fmt.Sprintf("n=%d: first element = %s", n, *lead)
					break
				}
				if copyLow != "1" {
					badW = fmt.Sprintf("n=%d: ids are copied from element %s, want 1", n, copyLow)
					break
				}
				if sliceLen != nil {
					if got, ok := sliceLen.Int(); ok && got != n+1 {
						badW = fmt.Sprintf("n=%d: id area has %d slots, want %d", n, got, n+1)
						break
					}
				}
			} else if n > 0 {
				if lead != nil {
					badW = fmt.Sprintf("n=%d: a leading count element is written below the threshold", n)
					break
				}
				if copyLow != "0" {
					badW = fmt.Sprintf("n=%d: ids are copied from element %s, want 0", n, copyLow)
					break
				}
			}
		}
		c.check(id+":freelist.(*shared).Write:table", wr, wr.Pos(), fmt.Sprintf("writer: count < 0xFFFF is stored inline; otherwise count = 0xFFFF, element 0 = real count, ids from element 1 (%d rows)", len(samples)), badW == "", badW)

		// reader
		rd := c.fn("common.(*Page).FreelistPageCount")
		badR := ""
		for _, k := range []int64{0, 1, 0xFFFE, 0xFFFF} {
			ev := &Evaluator{
				Load: func(u *ssa.UnOp) (V, bool) {
					switch pathOf(u).Names() {
					case "count":
						return uV(uint64(k)), true
					case "flags":
						return uV(0x10), true
					}
					if _, isFA := u.X.(*ssa.FieldAddr); !isFA {
						if _, isAlloc := u.X.(*ssa.Alloc); !isAlloc {
							return uV(70000), true // the leading element
						}
					}
					return unkV, false
				},
				Inline: func(f *ssa.Function) bool { return shortFn(f) == "common.(*Page).IsFreelistPage" },
			}
			o := ev.Exec(rd, nil)
			wantIdx, wantCount := int64(0), k
			if k == 0xFFFF {
				wantIdx, wantCount = 1, 70000
			}
			if o.Kind != "return" || len(o.Rets) != 2 {
				badR = fmt.Sprintf("count=%#x: %s", k, o)
				break
			}
			gi, ok1 := o.Rets[0].Int()
			gc, ok2 := o.Rets[1].Int()
			if !ok1 || !ok2 || gi != wantIdx || gc != wantCount {
				badR = fmt.Sprintf("count=%#x: returns (%s,%s), want (%d,%d)", k, o.Rets[0], o.Rets[1], wantIdx, wantCount)
				break
			}
		}
		c.check(id+":common.(*Page).FreelistPageCount:table", rd, rd.Pos(), "reader: count == 0xFFFF means element 0 holds the count and ids start at element 1; any other count is inline", badR == "", badR)

		// reader slice start
		ids := c.fn("common.(*Page).FreelistPageIds")
		badI := ""
		for _, idx := range []int64{0, 1} {
			var got []V
			ev := &Evaluator{
				Load: func(u *ssa.UnOp) (V, bool) {
					if pathOf(u).Names() == "flags" {
						return uV(0x10), true
					}
					return unkV, false
				},
				CallN: func(call *ssa.Call, args []V) ([]V, bool) {
					if calleeOf(call).Name() == "common.(*Page).FreelistPageCount" {
						return []V{iV(idx), iV(5)}, true
					}
					return nil, false
				},
				OnCall: func(ci ssa.CallInstruction, args []V) {
					if calleeOf(ci).Name() == "common.UnsafeIndex" {
						got = args
					}
				},
				Inline: func(f *ssa.Function) bool { return shortFn(f) == "common.(*Page).IsFreelistPage" },
			}
			o := ev.Exec(ids, nil)
			if o.Kind != "return" || len(got) != 4 {
				badI = fmt.Sprintf("idx=%d: %s", idx, o)
				break
			}
			off, _ := got[1].Int()
			esz, _ := got[2].Int()
			n, _ := got[3].Int()
			if off != 16 || esz != 8 || n != idx {
				badI = fmt.Sprintf("idx=%d: UnsafeIndex(base,%d,%d,%d), want (base,16,8,%d)", idx, off, esz, n, idx)
			}
		}
		c.check(id+":common.(*Page).FreelistPageIds:start", ids, ids.Pos(), "reader: the id array starts at header + 8*idx", badI == "", badI)

		// estimator
		est := c.fn("freelist.(*shared).EstimatedWritePageSize")
		badE := ""
		for _, n := range samples {
			ev := &Evaluator{
				Call: func(call *ssa.Call, args []V) (V, bool) {
					if strings.HasSuffix(calleeOf(call).Name(), ".Count") {
						return iV(n), true
					}
					return unkV, false
				},
			}
			o := ev.Exec(est, nil)
			want := 16 + 8*n
			if n >= 0xFFFF {
				want += 8
			}
			if o.Kind != "return" || len(o.Rets) != 1 {
				badE = fmt.Sprintf("n=%d: %s", n, o)
				break
			}
			if got, ok := o.Rets[0].Int(); !ok || got != want {
				badE = fmt.Sprintf("n=%d: estimate %s, want %d", n, o.Rets[0], want)
				break
			}
		}
		c.check(id+":freelist.(*shared).EstimatedWritePageSize:table", est, est.Pos(), "estimator: header + 8 bytes per id, one extra slot from 0xFFFF ids on (never underestimates)", badE == "", badE)
	})
}

func c12R6(c *Ctx, id string) {
	c.rule(id, "initial-layout", 8, func() {
		ini := c.fn("bbolt.(*DB).init")
		type ev struct {
			name string
			args []V
		}
		var trace []ev
		var bufLen *V
		e := &Evaluator{
			Load: func(u *ssa.UnOp) (V, bool) {
				if strings.HasSuffix(pathOf(u).Names(), "pageSize") {
					return iV(4096), true
				}
				return unkV, false
			},
			OnCall: func(ci ssa.CallInstruction, args []V) {
				trace = append(trace, ev{calleeOf(ci).Name(), args})
			},
			Call: func(call *ssa.Call, args []V) (V, bool) {
				switch calleeOf(call).Name() {
				case "bbolt.fdatasync":
					return nilV, true
				case "bbolt.(*DB).pageInBuffer":
					if len(args) == 3 {
						if i, ok := args[2].Int(); ok {
							return symV(fmt.Sprintf("page%d", i)), true
						}
					}
				case "common.(*Page).Meta":
					if len(args) == 1 && args[0].K == vSym {
						return symV("meta-of-" + args[0].S), true
					}
				}
				return unkV, false
			},
			CallN: func(call *ssa.Call, args []V) ([]V, bool) {
				if calleeOf(call).Field != nil {
					return []V{unkV, nilV}, true
				}
				return nil, false
			},
		}
		// buffer length
		eachInstr(ini, func(in ssa.Instruction) {
			if ms, ok := in.(*ssa.MakeSlice); ok && bufLen == nil {
				v := (&Evaluator{Load: e.Load}).ValueAtEntry(ms.Len)
				bufLen = &v
			}
		})
		o := e.Exec(ini, nil)
		okRun := o.Kind == "return" && len(o.Rets) == 1 && o.Rets[0].K == vNil
		c.check(id+":(*DB).init:runs", ini, ini.Pos(), "init evaluates to completion on the success path", okRun, o.String())
		has := func(name string, recv string, vals ...int64) bool {
			for _, t := range trace {
				if t.name != name || len(t.args) != len(vals)+1 {
					continue
				}
				if recv != "" && !(t.args[0].K == vSym && t.args[0].S == recv) {
					continue
				}
				ok := true
				for i, v := range vals {
					if got, isI := t.args[i+1].Int(); !isI || got != v {
						ok = false
					}
				}
				if ok {
					return true
				}
			}
			return false
		}
		four := bufLen != nil
		if four {
			n, ok := bufLen.Int()
			four = ok && n == 4*4096
		}
		c.check(id+":(*DB).init:buffer=4-pages", ini, ini.Pos(), "the initial buffer is exactly 4 pages", four, fmt.Sprintf("buffer length %v for page size 4096", bufLen))
		for i := int64(0); i < 2; i++ {
			pg := fmt.Sprintf("page%d", i)
			m := "meta-of-" + pg
			ok := has("common.(*Page).SetId", pg, i) && has("common.(*Page).SetFlags", pg, 4) &&
				has("common.(*Meta).SetMagic", m, 0xED0CDAED) && has("common.(*Meta).SetVersion", m, 2) && has("common.(*Meta).SetPageSize", m, 4096) &&
				has("common.(*Meta).SetFreelist", m, 2) && has("common.(*Meta).SetPgid", m, 4) && has("common.(*Meta).SetTxid", m, i)
			c.check(fmt.Sprintf("%s:(*DB).init:meta%d", id, i), ini, ini.Pos(), fmt.Sprintf("meta %d: page id %d, meta flag, magic, version 2, page size, freelist=2, pgid=4, txid=%d", i, i, i), ok, "a setter is missing or has a different constant")
		}
		c.check(id+":(*DB).init:root=3", ini, ini.Pos(), "the root bucket is InBucket{root: 3, sequence: 0}", func() bool {
			for _, t := range trace {
				if t.name == "common.NewInBucket" && len(t.args) == 2 {
					a, ok1 := t.args[0].Int()
					b, ok2 := t.args[1].Int()
					if ok1 && ok2 && a == 3 && b == 0 {
						return true
					}
				}
			}
			return false
		}(), "NewInBucket(3, 0) not found")
		c.check(id+":(*DB).init:freelist-page", ini, ini.Pos(), "page 2 is an empty freelist page", has("common.(*Page).SetId", "page2", 2) && has("common.(*Page).SetFlags", "page2", 0x10) && has("common.(*Page).SetCount", "page2", 0), "")
		c.check(id+":(*DB).init:leaf-page", ini, ini.Pos(), "page 3 is an empty leaf page", has("common.(*Page).SetId", "page3", 3) && has("common.(*Page).SetFlags", "page3", 2) && has("common.(*Page).SetCount", "page3", 0), "")
		// written at offset 0
		okOff := false
		for _, t := range trace {
			if t.name == "field:writeAt" && len(t.args) == 2 {
				if v, ok := t.args[1].Int(); ok && v == 0 {
					okOff = true
				}
			}
		}
		c.check(id+":(*DB).init:offset-0", ini, ini.Pos(), "the buffer is written at file offset 0", okOff, "")
	})
}

// c12R10: the field accessors of the mapped structs are the atoms every other table in this checker (and
// every reader/writer in bbolt) is built on: a getter returns exactly its own field, a setter stores
// exactly its parameter into exactly its own field. Methods are matched to fields by name
// (case-insensitive, `Set` prefix), plus the aliases below.
func c12R10(c *Ctx, id string) {
	c.rule(id, "accessor-integrity", 40, func() {
		alias := map[string]string{"RootPage": "root", "SetRootPage": "root", "InSequence": "sequence", "SetInSequence": "sequence"}
		for _, fn := range c.P.FnsIn(commonPath) {
			if fn.Signature.Recv() == nil || len(fn.Blocks) == 0 || len(fn.Params) == 0 {
				continue
			}
			rt := fn.Signature.Recv().Type()
			if p, ok := rt.(*types.Pointer); ok {
				rt = p.Elem()
			}
			named, ok := rt.(*types.Named)
			if !ok {
				continue
			}
			st, ok := named.Underlying().(*types.Struct)
			if !ok {
				continue
			}
			name := fn.Name()
			isSet := strings.HasPrefix(name, "Set") && fn.Signature.Params().Len() == 1 && fn.Signature.Results().Len() == 0
			isGet := fn.Signature.Params().Len() == 0 && fn.Signature.Results().Len() == 1
			if !isSet && !isGet {
				continue
			}
			want := alias[name]
			if want == "" {
				want = strings.TrimPrefix(name, "Set")
				if isGet {
					want = name
				}
			}
			var field *types.Var
			for i := 0; i < st.NumFields(); i++ {
				if strings.EqualFold(st.Field(i).Name(), want) {
					field = st.Field(i)
				}
			}
			if field == nil {
				continue // not a plain field accessor (Key()/Value() of elements, Sum64, ...)
			}
			recv := fn.Params[0]
			key := fmt.Sprintf("%s:%s", id, shortFn(fn))
			if isGet {
				if !types.Identical(fn.Signature.Results().At(0).Type(), field.Type()) {
					continue // e.g. RootBucket() *InBucket: an address, not the field value
				}
				bad := ""
				for _, r := range returnsOf(fn) {
					ld, ok := stripConv(returnedValue(r, 0)).(*ssa.UnOp)
					var fa *ssa.FieldAddr
					if ok && ld.Op == token.MUL {
						fa, _ = ld.X.(*ssa.FieldAddr)
					}
					if fa == nil || fieldOfAddr(fa) != field || fa.X != ssa.Value(recv) {
						// value receivers: field read of the loaded struct
						if f, isF := stripConv(returnedValue(r, 0)).(*ssa.Field); isF && fieldOfField(f) == field {
							continue
						}
						bad = fmt.Sprintf("%s() does not return the field %s of its receiver", name, field.Name())
					}
				}
				c.check(key, fn, fn.Pos(), fmt.Sprintf("getter returns exactly the field `%s`", field.Name()), bad == "", bad)
			} else {
				var stores []*ssa.Store
				eachInstr(fn, func(in ssa.Instruction) {
					if s, ok := in.(*ssa.Store); ok {
						stores = append(stores, s)
					}
				})
				bad := ""
				if len(stores) != 1 {
					bad = fmt.Sprintf("%d stores, want exactly one", len(stores))
				} else {
					fa, _ := stores[0].Addr.(*ssa.FieldAddr)
					if fa == nil || fieldOfAddr(fa) != field || fa.X != ssa.Value(recv) {
						bad = fmt.Sprintf("%s() does not store into the field %s of its receiver", name, field.Name())
					} else if stripConv(stores[0].Val) != ssa.Value(fn.Params[1]) {
						bad = fmt.Sprintf("%s() stores something other than its parameter", name)
					}
				}
				c.check(key, fn, fn.Pos(), fmt.Sprintf("setter stores exactly its parameter into the field `%s`", field.Name()), bad == "", bad)
			}
		}
	})
}
