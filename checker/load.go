package main

import (
	"fmt"
	"go/token"
	"go/types"
	"os"
	"sort"
	"strings"

	"golang.org/x/tools/go/callgraph"
	"golang.org/x/tools/go/callgraph/cha"
	"golang.org/x/tools/go/callgraph/vta"
	"golang.org/x/tools/go/packages"
	"golang.org/x/tools/go/ssa"
	"golang.org/x/tools/go/ssa/ssautil"
)

const modulePath = "go.etcd.io/bbolt"

// Prog is one loaded, type-checked, SSA-built view of the repository for one
// GOOS/GOARCH configuration.
type Prog struct {
	Repo   string
	GOOS   string
	GOARCH string
	Pkgs   []*packages.Package // module packages only (subjects)
	All    []*packages.Package
	SSA    *ssa.Program
	Fset   *token.FileSet

	byName   map[string][]*ssa.Function // short name -> functions
	Subjects []*ssa.Function            // every function (incl. anonymous) of module packages
	allFns   map[*ssa.Function]bool

	InlineLog []string // what the pre-inlining pass did (preinline.go)
	Overlaid  int      // number of files analysed from the pre-inlined overlay

	cgVTA *callgraph.Graph
	cgCHA *callgraph.Graph
}

// LoadProg loads patterns (relative to repo) under the given platform. An
// empty goos/goarch means the host configuration.
func LoadProg(repo, goos, goarch string, patterns ...string) (*Prog, error) {
	env := append([]string{}, os.Environ()...)
	env = append(env, "GOFLAGS=-mod=mod", "GOPROXY=off", "GOSUMDB=off", "GOTOOLCHAIN=local", "GOWORK=off")
	if goos != "" {
		env = append(env, "GOOS="+goos, "GOARCH="+goarch, "CGO_ENABLED=0")
	}
	cfg := &packages.Config{
		Mode:  packages.LoadAllSyntax,
		Dir:   repo,
		Env:   env,
		Tests: false,
	}
	// new helper functions (not on the confirmed tree) are substituted into their callers first: see preinline.go
	overlay, inlLog := preInline(repo, env)
	if overlay != nil {
		cfg.Overlay = overlay
	}
	if len(patterns) == 0 {
		patterns = []string{"./..."}
	}
	pkgs, err := packages.Load(cfg, patterns...)
	if err != nil {
		return nil, fmt.Errorf("packages.Load: %w", err)
	}
	if len(pkgs) == 0 {
		return nil, fmt.Errorf("packages.Load: zero packages for %v", patterns)
	}
	var errs []string
	packages.Visit(pkgs, nil, func(p *packages.Package) {
		for _, e := range p.Errors {
			errs = append(errs, p.PkgPath+": "+e.Error())
		}
	})
	if len(errs) > 0 {
		sort.Strings(errs)
		if len(errs) > 8 {
			errs = errs[:8]
		}
		return nil, fmt.Errorf("type/load errors: %s", strings.Join(errs, " | "))
	}
	sprog, _ := ssautil.AllPackages(pkgs, ssa.InstantiateGenerics)
	sprog.Build()

	p := &Prog{Repo: repo, GOOS: goos, GOARCH: goarch, SSA: sprog, byName: map[string][]*ssa.Function{}, InlineLog: inlLog, Overlaid: len(overlay)}
	if len(pkgs) > 0 {
		p.Fset = pkgs[0].Fset
	}
	packages.Visit(pkgs, nil, func(pk *packages.Package) {
		p.All = append(p.All, pk)
		if pk.PkgPath == modulePath || strings.HasPrefix(pk.PkgPath, modulePath+"/") {
			p.Pkgs = append(p.Pkgs, pk)
		}
	})
	sort.Slice(p.Pkgs, func(i, j int) bool { return p.Pkgs[i].PkgPath < p.Pkgs[j].PkgPath })
	if len(p.Pkgs) == 0 {
		return nil, fmt.Errorf("no module packages loaded")
	}
	p.allFns = ssautil.AllFunctions(sprog)
	for fn := range p.allFns {
		if fn == nil {
			continue
		}
		if inModule(fn) {
			p.Subjects = append(p.Subjects, fn)
		}
		p.byName[shortFn(fn)] = append(p.byName[shortFn(fn)], fn)
	}
	sort.Slice(p.Subjects, func(i, j int) bool { return p.posLess(p.Subjects[i], p.Subjects[j]) })
	return p, nil
}

func (p *Prog) posLess(a, b *ssa.Function) bool {
	pa, pb := p.Fset.Position(a.Pos()), p.Fset.Position(b.Pos())
	if pa.Filename != pb.Filename {
		return pa.Filename < pb.Filename
	}
	if pa.Line != pb.Line {
		return pa.Line < pb.Line
	}
	return a.String() < b.String()
}

// fnPkg returns the types.Package a function belongs to (following the
// parent chain for anonymous functions, and the declared object for
// synthetic wrappers).
func fnPkg(fn *ssa.Function) *types.Package {
	for f := fn; f != nil; f = f.Parent() {
		if f.Pkg != nil {
			return f.Pkg.Pkg
		}
		if o := f.Object(); o != nil && o.Pkg() != nil {
			return o.Pkg()
		}
	}
	if o := fn.Origin(); o != nil && o != fn {
		return fnPkg(o)
	}
	return nil
}

func inModule(fn *ssa.Function) bool {
	pk := fnPkg(fn)
	if pk == nil {
		return false
	}
	if fn.Synthetic != "" && fn.Parent() == nil && !strings.HasPrefix(fn.Synthetic, "package init") {
		// wrappers / bound methods / thunks are not source functions
		if fn.Syntax() == nil {
			return false
		}
	}
	return pk.Path() == modulePath || strings.HasPrefix(pk.Path(), modulePath+"/")
}

// typeFuncName renders a *types.Func as "pkgname.(*T).m", "pkgname.T.m" or "pkgname.f".
func typeFuncName(f *types.Func) string {
	if f == nil {
		return "<nil>"
	}
	fname := f.Name()
	if len(renamedFuncs) > 0 && f.Pkg() != nil && (f.Pkg().Path() == modulePath || strings.HasPrefix(f.Pkg().Path(), modulePath+"/")) {
		dir := strings.TrimPrefix(strings.TrimPrefix(f.Pkg().Path(), modulePath), "/")
		if dir == "" {
			dir = "."
		}
		recv := ""
		if sig, _ := f.Type().(*types.Signature); sig != nil && sig.Recv() != nil {
			t := sig.Recv().Type()
			if pt, ok := t.(*types.Pointer); ok {
				t = pt.Elem()
			}
			if n, ok := t.(*types.Named); ok {
				recv = n.Obj().Name()
			}
		}
		if old, ok := renamedFuncs[dir+":"+recv+"."+fname]; ok {
			pk := ""
			if f.Pkg() != nil {
				pk = f.Pkg().Name() + "."
			}
			switch {
			case old.recv == "":
				return pk + old.name
			case old.ptr:
				return pk + "(*" + old.recv + ")." + old.name
			default:
				return pk + old.recv + "." + old.name
			}
		}
	}
	pk := ""
	if f.Pkg() != nil {
		pk = f.Pkg().Name() + "."
	}
	sig, _ := f.Type().(*types.Signature)
	if sig != nil && sig.Recv() != nil {
		t := sig.Recv().Type()
		ptr := false
		if pt, ok := t.(*types.Pointer); ok {
			ptr = true
			t = pt.Elem()
		}
		name := "?"
		switch tt := t.(type) {
		case *types.Named:
			name = tt.Obj().Name()
			if tt.Obj().Pkg() != nil {
				pk = tt.Obj().Pkg().Name() + "."
			}
		case *types.Alias:
			name = tt.Obj().Name()
		default:
			name = types.TypeString(t, func(*types.Package) string { return "" })
		}
		if ptr {
			return pk + "(*" + name + ")." + fname
		}
		return pk + name + "." + fname
	}
	return pk + fname
}

// shortFn renders an SSA function as "pkgname.(*T).m", "pkgname.f", "pkgname.f$1".
func shortFn(fn *ssa.Function) string {
	if fn == nil {
		return "<nil>"
	}
	if fn.Parent() != nil {
		// anonymous: parent's name + suffix after the last '$'
		n := fn.Name()
		if i := strings.LastIndex(n, "$"); i >= 0 {
			return shortFn(fn.Parent()) + n[i:]
		}
		return shortFn(fn.Parent()) + "$" + n
	}
	if o, ok := fn.Object().(*types.Func); ok && o != nil {
		s := typeFuncName(o)
		if fn.Synthetic != "" && fn.Syntax() == nil {
			if strings.HasPrefix(fn.Synthetic, "bound method") {
				return s + "$bound"
			}
			if strings.HasPrefix(fn.Synthetic, "thunk") {
				return s + "$thunk"
			}
		}
		return s
	}
	pk := fnPkg(fn)
	if pk != nil {
		return pk.Name() + "." + fn.Name()
	}
	return fn.Name()
}

// Fn finds the unique module function with the given short name and package
// path suffix ("" = root package). Returns nil if absent.
func (p *Prog) Fn(name string) *ssa.Function {
	var found *ssa.Function
	for _, fn := range p.byName[name] {
		if !inModule(fn) && !strings.HasPrefix(name, "os.") {
			continue
		}
		if fn.Synthetic != "" && fn.Syntax() == nil {
			continue
		}
		if found != nil {
			// ambiguity (e.g. two packages named "main"): prefer first by position
			if p.posLess(found, fn) {
				continue
			}
		}
		found = fn
	}
	return found
}

// FnsIn returns all subject functions (incl. anonymous) whose package path is path.
func (p *Prog) FnsIn(path string) []*ssa.Function {
	var out []*ssa.Function
	for _, fn := range p.Subjects {
		if pk := fnPkg(fn); pk != nil && pk.Path() == path {
			out = append(out, fn)
		}
	}
	return out
}

func (p *Prog) Pkg(path string) *packages.Package {
	for _, pk := range p.All {
		if pk.PkgPath == path {
			return pk
		}
	}
	return nil
}

func (p *Prog) VTA() *callgraph.Graph {
	if p.cgVTA == nil {
		p.cgVTA = vta.CallGraph(p.allFns, p.CHA())
	}
	return p.cgVTA
}

func (p *Prog) CHA() *callgraph.Graph {
	if p.cgCHA == nil {
		p.cgCHA = cha.CallGraph(p.SSA)
	}
	return p.cgCHA
}

// Position renders a token.Pos relative to the repository root.
func (p *Prog) Position(pos token.Pos) string {
	if !pos.IsValid() {
		return "-"
	}
	ps := p.Fset.Position(pos)
	f := ps.Filename
	if strings.HasPrefix(f, p.Repo+"/") {
		f = f[len(p.Repo)+1:]
	}
	return fmt.Sprintf("%s:%d", f, ps.Line)
}

// lookupField resolves a dotted field path on a named struct type of a
// package, e.g. ("go.etcd.io/bbolt","DB","ops.writeAt").
func (p *Prog) lookupField(pkgPath, typeName, path string) *types.Var {
	pk := p.Pkg(pkgPath)
	if pk == nil || pk.Types == nil {
		return nil
	}
	obj := pk.Types.Scope().Lookup(typeName)
	if obj == nil {
		return nil
	}
	t := obj.Type().Underlying()
	var v *types.Var
	for _, part := range strings.Split(path, ".") {
		st, ok := t.(*types.Struct)
		if !ok {
			if pt, ok2 := t.(*types.Pointer); ok2 {
				st, ok = pt.Elem().Underlying().(*types.Struct)
			}
			if !ok {
				return nil
			}
		}
		v = nil
		for i := 0; i < st.NumFields(); i++ {
			if st.Field(i).Name() == part {
				v = st.Field(i)
				break
			}
		}
		if v == nil {
			return nil
		}
		t = v.Type().Underlying()
	}
	return v
}
