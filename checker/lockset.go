package main

import (
	"fmt"
	"go/token"
	"go/types"
	"os"
	"sort"
	"strings"

	"golang.org/x/tools/go/ssa"
)

// T4: forward must/may lockset dataflow on SSA with bottom-up summaries over
// the static calls of package bbolt. Locks are identified by the field object
// of DB (rwlock, metalock, mmaplock, statlock, batchMu) plus the mode (W / R).

type lset map[string]bool // "rwlock:W", "mmaplock:R", ...

func (s lset) clone() lset {
	o := lset{}
	for k := range s {
		o[k] = true
	}
	return o
}

func (s lset) list() []string {
	o := make([]string, 0, len(s))
	for k := range s {
		o = append(o, k)
	}
	sort.Strings(o)
	return o
}

func (s lset) String() string { return "{" + strings.Join(s.list(), ",") + "}" }

func (s lset) hasLock(name string) bool { return s[name+":W"] || s[name+":R"] }

func interLS(a, b lset) lset {
	o := lset{}
	for k := range a {
		if b[k] {
			o[k] = true
		}
	}
	return o
}

func unionLS(a, b lset) lset {
	o := a.clone()
	for k := range b {
		o[k] = true
	}
	return o
}

// lstate is relative to function entry: must/may are locks acquired inside
// and still held; relMust/relMay are locks released that were not acquired
// inside (i.e. released on behalf of the caller / the transaction).
type lstate struct {
	must, may, relMust, relMay lset
	bottom                     bool
}

func newLState() *lstate { return &lstate{must: lset{}, may: lset{}, relMust: lset{}, relMay: lset{}} }

func (s *lstate) clone() *lstate {
	return &lstate{s.must.clone(), s.may.clone(), s.relMust.clone(), s.relMay.clone(), s.bottom}
}

func (s *lstate) equal(o *lstate) bool {
	if s.bottom != o.bottom {
		return false
	}
	eq := func(a, b lset) bool {
		if len(a) != len(b) {
			return false
		}
		for k := range a {
			if !b[k] {
				return false
			}
		}
		return true
	}
	return eq(s.must, o.must) && eq(s.may, o.may) && eq(s.relMust, o.relMust) && eq(s.relMay, o.relMay)
}

func joinLS(a, b *lstate) *lstate {
	if a == nil || a.bottom {
		return b.clone()
	}
	if b == nil || b.bottom {
		return a.clone()
	}
	return &lstate{interLS(a.must, b.must), unionLS(a.may, b.may), interLS(a.relMust, b.relMust), unionLS(a.relMay, b.relMay), false}
}

func (s *lstate) acquire(l string, must bool) {
	s.may[l] = true
	if must {
		s.must[l] = true
	}
}

func (s *lstate) release(l string, must bool) {
	if s.may[l] {
		if must {
			if !s.must[l] {
				// held on some paths only: on the others this releases the caller's
				s.relMay[l] = true
			}
			delete(s.may, l)
		}
		delete(s.must, l)
		return
	}
	s.relMay[l] = true
	if must {
		s.relMust[l] = true
	}
}

// apply composes a callee summary onto the state.
func (s *lstate) apply(sum *lstate) {
	if sum == nil {
		return
	}
	for l := range sum.relMay {
		s.release(l, sum.relMust[l])
	}
	for l := range sum.may {
		s.acquire(l, sum.must[l])
	}
}

type lsummary struct {
	success, failure, all *lstate
}

type lockAnalysis struct {
	c       *Ctx
	env     map[*types.Var]bool
	locks   map[*types.Var]string
	sums    map[*ssa.Function]*lsummary
	busy    map[*ssa.Function]bool
	at      map[*ssa.Function]map[ssa.Instruction]*lstate // state BEFORE each instruction
	wrF     *types.Var                                    // Tx.writable
	kids    map[bool]*lockAnalysis                        // analyses specialised to one kind of transaction
	root    *lockAnalysis
	psums   map[string]*lsummary // summaries specialised to constant bool arguments
}

// forTx returns the analysis specialised to writable / read-only transactions.
func (la *lockAnalysis) forTx(writable bool) *lockAnalysis {
	r := la
	if la.root != nil {
		r = la.root
	}
	if v, ok := la.env[la.wrF]; ok && v == writable && la.root != nil {
		return la
	}
	if r.kids == nil {
		r.kids = map[bool]*lockAnalysis{}
	}
	if k, ok := r.kids[writable]; ok {
		return k
	}
	env := map[*types.Var]bool{}
	for k, v := range r.env {
		env[k] = v
	}
	env[la.wrF] = writable
	// a transaction reached through its creation site is treated as open (Tx.db non-nil)
	if dbF := la.c.P.lookupField(rootPkg, "Tx", "db"); dbF != nil {
		env[dbF] = true
	}
	k := newLockAnalysis(la.c, env)
	k.root = r
	r.kids[writable] = k
	return k
}

// txKind decides whether a *Tx value is known to be a write or a read
// transaction from where it was created (beginRWTx / beginTx / Begin(const)),
// looking through closure bindings.
func txKind(v ssa.Value, depth int) (writable bool, known bool) {
	if depth > 4 || v == nil {
		return false, false
	}
	sawT, sawF, other := false, false, false
	for _, l := range provenance(v, provOpts{}) {
		switch l.Kind {
		case "call":
			switch l.Name {
			case "bbolt.(*DB).beginRWTx":
				sawT = true
			case "bbolt.(*DB).beginTx":
				sawF = true
			case "bbolt.(*DB).Begin":
				if b, ok := constBool(l.V.(*ssa.Call).Call.Args[1]); ok {
					if b {
						sawT = true
					} else {
						sawF = true
					}
				} else {
					other = true
				}
			default:
				other = true
			}
		case "freevar":
			fv, ok := l.V.(*ssa.FreeVar)
			if !ok {
				if u, isU := l.V.(*ssa.UnOp); isU {
					fv, ok = u.X.(*ssa.FreeVar)
				}
			}
			resolved := false
			if ok && fv.Parent() != nil && fv.Parent().Parent() != nil {
				idx := -1
				for i, f := range fv.Parent().FreeVars {
					if f == fv {
						idx = i
					}
				}
				eachInstr(fv.Parent().Parent(), func(in ssa.Instruction) {
					if mc, isMC := in.(*ssa.MakeClosure); isMC && mc.Fn == fv.Parent() && idx >= 0 && idx < len(mc.Bindings) {
						if w, k := txKind(mc.Bindings[idx], depth+1); k {
							resolved = true
							if w {
								sawT = true
							} else {
								sawF = true
							}
						}
					}
				})
			}
			if !resolved {
				other = true
			}
		case "param", "global":
			other = true
		}
	}
	if other || sawT == sawF {
		return false, false
	}
	return sawT, true
}

var lockFieldNames = []string{"rwlock", "metalock", "mmaplock", "statlock", "batchMu"}

func newLockAnalysis(c *Ctx, env map[*types.Var]bool) *lockAnalysis {
	la := &lockAnalysis{c: c, env: env, locks: map[*types.Var]string{}, sums: map[*ssa.Function]*lsummary{}, busy: map[*ssa.Function]bool{}, at: map[*ssa.Function]map[ssa.Instruction]*lstate{}}
	la.wrF = c.P.lookupField(rootPkg, "Tx", "writable")
	la.psums = map[string]*lsummary{}
	for _, n := range lockFieldNames {
		if f := c.P.lookupField(rootPkg, "DB", n); f != nil {
			la.locks[f] = n
		} else {
			panic(anchorErr{"DB." + n})
		}
	}
	return la
}

// lockOp recognises (*sync.Mutex).Lock(&db.L) etc.; returns lock key and +1/-1.
func (la *lockAnalysis) lockOp(ci ssa.CallInstruction) (string, int) {
	callee := calleeOf(ci)
	if callee.Static == nil {
		return "", 0
	}
	n := callee.Name()
	var mode string
	var dir int
	switch n {
	case "sync.(*Mutex).Lock", "sync.(*RWMutex).Lock":
		mode, dir = "W", 1
	case "sync.(*Mutex).Unlock", "sync.(*RWMutex).Unlock":
		mode, dir = "W", -1
	case "sync.(*RWMutex).RLock":
		mode, dir = "R", 1
	case "sync.(*RWMutex).RUnlock":
		mode, dir = "R", -1
	default:
		return "", 0
	}
	args := ci.Common().Args
	if len(args) == 0 {
		return "", 0
	}
	f := pathOf(args[0]).Last()
	name, ok := la.locks[f]
	if !ok {
		return "", 0
	}
	return name + ":" + mode, dir
}

func (la *lockAnalysis) summary(fn *ssa.Function) *lsummary {
	if s, ok := la.sums[fn]; ok {
		return s
	}
	if la.busy[fn] || len(fn.Blocks) == 0 {
		return nil
	}
	la.busy[fn] = true
	defer delete(la.busy, fn)
	s := la.analyze(fn)
	la.sums[fn] = s
	return s
}

// calleeSummary returns the summary to apply for a call, or nil.
func (la *lockAnalysis) calleeSummary(ci ssa.CallInstruction) *lsummary {
	f := calleeOf(ci).Static
	if f == nil {
		return nil
	}
	if pk := fnPkg(f); pk == nil || pk.Path() != rootPkg {
		return nil
	}
	if f.Synthetic != "" && f.Syntax() == nil {
		return nil
	}
	use := la
	args := ci.Common().Args
	if f.Signature.Recv() != nil && len(args) > 0 && strings.HasSuffix(f.Signature.Recv().Type().String(), "bbolt.Tx") {
		if w, known := txKind(args[0], 0); known {
			use = la.forTx(w)
		}
	}
	// constant boolean arguments select the callee's branches (db.Begin(true))
	penv := map[*ssa.Parameter]bool{}
	key := ""
	for i, p := range f.Params {
		if i < len(args) {
			if b, ok := constBool(args[i]); ok {
				penv[p] = b
				key += fmt.Sprintf("%d=%v;", i, b)
			}
		}
	}
	if key == "" {
		return use.summary(f)
	}
	key = shortFn(f) + "|" + key
	if sm, ok := use.psums[key]; ok {
		return sm
	}
	if use.busy[f] {
		return nil
	}
	use.busy[f] = true
	sm := use.analyzeP(f, penv, false)
	delete(use.busy, f)
	use.psums[key] = sm
	return sm
}

// transferInstr applies one instruction. class selects which summary of
// classCall to use ("" = all).
func (la *lockAnalysis) transferInstr(st *lstate, in ssa.Instruction, fn *ssa.Function, classCall *ssa.Call, class string, defers []*ssa.Defer) {
	switch x := in.(type) {
	case *ssa.Call:
		if l, dir := la.lockOp(x); dir != 0 {
			if dir > 0 {
				st.acquire(l, true)
			} else {
				st.release(l, true)
			}
			return
		}
		if sum := la.calleeSummary(x); sum != nil {
			use := sum.all
			if x == classCall {
				if class == "success" {
					use = sum.success
				} else if class == "failure" {
					use = sum.failure
				}
			}
			if use != nil && !use.bottom {
				st.apply(use)
			} else if use != nil && use.bottom {
				// this class of return does not exist in the callee: the edge is infeasible
				st.bottom = true
			}
		}
	case *ssa.RunDefers:
		// deferred calls run in reverse order; apply those that can have been registered
		for i := len(defers) - 1; i >= 0; i-- {
			d := defers[i]
			if !reach([]ssa.Instruction{d}, nil, nil, cutByEnv(la.env))[in] {
				continue
			}
			must := dominates(d, in)
			if l, dir := la.lockOp(d); dir != 0 {
				if dir > 0 {
					st.acquire(l, must)
				} else {
					st.release(l, must)
				}
				continue
			}
			var sum *lsummary
			if f := closureOf(d.Call.Value); f != nil {
				sum = la.summary(f)
			} else {
				sum = la.calleeSummary(d)
			}
			if sum != nil && sum.all != nil && !sum.all.bottom {
				if must {
					st.apply(sum.all)
				} else {
					weak := sum.all.clone()
					weak.must = lset{}
					weak.relMust = lset{}
					st.apply(weak)
				}
			}
		}
	}
}

func (la *lockAnalysis) analyze(fn *ssa.Function) *lsummary {
	return la.analyzeP(fn, nil, true)
}

func (la *lockAnalysis) analyzeP(fn *ssa.Function, penv map[*ssa.Parameter]bool, record bool) *lsummary {
	envCut := cutByEnv(la.env)
	cut := func(e edge) bool {
		if envCut(e) {
			return true
		}
		if len(penv) == 0 || len(e.from.Instrs) == 0 {
			return false
		}
		iff, ok := e.from.Instrs[len(e.from.Instrs)-1].(*ssa.If)
		if !ok {
			return false
		}
		cond := iff.Cond
		neg := false
		if u, isU := cond.(*ssa.UnOp); isU && u.Op == token.NOT {
			cond, neg = u.X, true
		}
		// a parameter captured by a closure lives in a cell with a single store
		if ld, isLd := cond.(*ssa.UnOp); isLd && ld.Op == token.MUL {
			if cell, isAlloc := ld.X.(*ssa.Alloc); isAlloc && cell.Referrers() != nil {
				var only ssa.Value
				n := 0
				for _, r := range *cell.Referrers() {
					if st, isSt := r.(*ssa.Store); isSt && st.Addr == cell {
						n++
						only = st.Val
					}
				}
				if n == 1 {
					cond = only
				}
			}
		}
		if p, isP := cond.(*ssa.Parameter); isP {
			if b, has := penv[p]; has {
				if neg {
					b = !b
				}
				return (e.succ == 0) != b
			}
		}
		return false
	}
	defers := deferredCalls(fn)
	in := map[*ssa.BasicBlock]*lstate{}
	in[fn.Blocks[0]] = newLState()
	// which call does the terminating If of a block test?
	type testInfo struct {
		call     *ssa.Call
		nilSucc  *ssa.BasicBlock
		nonNil   *ssa.BasicBlock
	}
	tests := map[*ssa.BasicBlock]testInfo{}
	for _, b := range fn.Blocks {
		for _, ins := range b.Instrs {
			call, ok := ins.(*ssa.Call)
			if !ok || errResultIndex(call.Call.Signature()) < 0 {
				continue
			}
			for _, t := range errTests(call) {
				if t.If.Block() == b { // call and test in the same block
					tests[b] = testInfo{call, t.Nil, t.NonNil}
				}
			}
			// `x, err := f(); if x != nil {...}`: a non-nil first result of a (*T, error) function means success
			if call.Call.Signature().Results().Len() == 2 && call.Referrers() != nil {
				for _, r := range *call.Referrers() {
					ex, isEx := r.(*ssa.Extract)
					if !isEx || ex.Index != 0 {
						continue
					}
					if _, isPtr := ex.Type().Underlying().(*types.Pointer); !isPtr {
						continue
					}
					for _, t := range nilTestsOf(ex) {
						if t.If.Block() == b {
							if _, has := tests[b]; !has {
								tests[b] = testInfo{call, t.NonNil, t.Nil} // success = non-nil value
							}
						}
					}
				}
			}
		}
	}
	outFor := func(b *ssa.BasicBlock, st *lstate, classCall *ssa.Call, class string) *lstate {
		s := st.clone()
		for _, ins := range b.Instrs {
			la.transferInstr(s, ins, fn, classCall, class, defers)
		}
		return s
	}
	work := []*ssa.BasicBlock{fn.Blocks[0]}
	for iter := 0; len(work) > 0 && iter < 20000; iter++ {
		b := work[0]
		work = work[1:]
		st := in[b]
		if st == nil {
			continue
		}
		for si, succ := range b.Succs {
			if cut(edge{b, si}) {
				continue
			}
			var out *lstate
			if ti, ok := tests[b]; ok && ti.nilSucc != ti.nonNil {
				switch succ {
				case ti.nilSucc:
					out = outFor(b, st, ti.call, "success")
				case ti.nonNil:
					out = outFor(b, st, ti.call, "failure")
				}
			}
			if out == nil {
				out = outFor(b, st, nil, "")
			}
			if out.bottom {
				continue
			}
			old := in[succ]
			nw := joinLS(old, out)
			if old == nil || !old.equal(nw) {
				in[succ] = nw
				work = append(work, succ)
			}
		}
	}
	// record the state before every instruction, and collect the returns
	at := map[ssa.Instruction]*lstate{}
	sum := &lsummary{}
	bottom := func() *lstate { s := newLState(); s.bottom = true; return s }
	sum.success, sum.failure, sum.all = bottom(), bottom(), bottom()
	for _, b := range fn.Blocks {
		st := in[b]
		if st == nil {
			continue
		}
		s := st.clone()
		for _, ins := range b.Instrs {
			at[ins] = s.clone()
			if r, ok := ins.(*ssa.Return); ok {
				cl := classifyReturn(r)
				// tail call `return f()`: class follows the callee's
				var tail *ssa.Call
				if idx := errResultIndex(fn.Signature); idx >= 0 && cl == retPass {
					v := returnedValue(r, idx)
					if ex, isEx := v.(*ssa.Extract); isEx {
						v = ex.Tuple
					}
					if call, isCall := v.(*ssa.Call); isCall && call.Block() == b {
						tail = call
					}
				}
				switch {
				case tail != nil:
					if o := outFor(b, st, tail, "success"); !o.bottom {
						sum.success = joinLS(sum.success, o)
					}
					if o := outFor(b, st, tail, "failure"); !o.bottom {
						sum.failure = joinLS(sum.failure, o)
					}
				case cl == retSuccess:
					sum.success = joinLS(sum.success, s)
				case cl == retError:
					sum.failure = joinLS(sum.failure, s)
				default:
					sum.success = joinLS(sum.success, s)
					sum.failure = joinLS(sum.failure, s)
				}
				sum.all = joinLS(sum.all, s)
			}
			la.transferInstr(s, ins, fn, nil, "", defers)
		}
	}
	if record {
		la.at[fn] = at
	}
	return sum
}

// before returns the lock state just before instruction in (relative to the entry of its function).
func (la *lockAnalysis) before(in ssa.Instruction) *lstate {
	fn := in.Parent()
	la.summary(fn)
	if m := la.at[fn]; m != nil {
		return m[in]
	}
	return nil
}

// ---------------------------------------------------------------- calling context

type lockCtx struct {
	must map[*ssa.Function]lset // locks definitely held by every caller at every call site
	may  map[*ssa.Function]lset // locks possibly held by some caller
}

// context computes, for the functions of package bbolt, the locks held by
// callers at entry (static call sites only). ambient is assumed held at the
// entry of every function that has no caller in the package (API entry points
// on Tx/Bucket/Cursor carry the transaction's lock).
func (la *lockAnalysis) context(ambient func(fn *ssa.Function) lset) *lockCtx {
	return la.contextM(ambient, nil)
}

// contextM: as context, with locks that are DEFINITELY held at the entry of the
// functions that have no caller in the package (ambientMust).
func (la *lockAnalysis) contextM(ambient func(fn *ssa.Function) lset, ambientMust func(fn *ssa.Function) lset) *lockCtx {
	fns := la.c.P.FnsIn(rootPkg)
	type site struct {
		caller *ssa.Function
		in     ssa.Instruction
	}
	sites := map[*ssa.Function][]site{}
	dispatched := map[*ssa.Function]bool{}
	for _, f := range fns {
		la.summary(f)
		eachInstr(f, func(in ssa.Instruction) {
			ci, ok := in.(ssa.CallInstruction)
			if !ok {
				return
			}
			if _, isGo := in.(*ssa.Go); isGo {
				return
			}
			callee := calleeOf(ci).Static
			if callee == nil {
				if cl := closureOf(ci.Common().Value); cl != nil {
					callee = cl
				}
			}
			// a call on a transaction of the OTHER kind than the one this analysis is specialised to
			// (View's read transaction in the write-transaction analysis) contributes no context
			if callee != nil && callee.Signature.Recv() != nil && strings.HasSuffix(callee.Signature.Recv().Type().String(), "bbolt.Tx") && len(ci.Common().Args) > 0 {
				if want, has := la.env[la.wrF]; has {
					if w, known := txKind(ci.Common().Args[0], 0); known && w != want {
						return
					}
				}
			}
			if callee != nil {
				if pk := fnPkg(callee); pk != nil && pk.Path() == rootPkg {
					// a dispatcher called with constant bool arguments (db.Begin(true)) is looked
					// through: only the callees reachable under those constants get this context
					if inner := la.dispatchTargets(callee, ci); inner != nil {
						for _, t := range inner {
							sites[t] = append(sites[t], site{f, in})
						}
						dispatched[callee] = true
					} else {
						sites[callee] = append(sites[callee], site{f, in})
					}
				}
			}
			// closures passed as arguments run inside the callee: approximate with the call site's state —
			// except for time.AfterFunc, which runs its argument later on another goroutine (like `go`)
			if calleeOf(ci).Name() == "time.AfterFunc" {
				return
			}
			for _, a := range ci.Common().Args {
				if cl := closureOf(a); cl != nil {
					sites[cl] = append(sites[cl], site{f, in})
				}
			}
		})
	}
	ctx := &lockCtx{must: map[*ssa.Function]lset{}, may: map[*ssa.Function]lset{}}
	all := lset{}
	for _, n := range lockFieldNames {
		all[n+":W"] = true
		all[n+":R"] = true
	}
	for _, f := range fns {
		if len(sites[f]) == 0 {
			ctx.must[f] = lset{}
			if ambientMust != nil {
				ctx.must[f] = ambientMust(f)
			}
			ctx.may[f] = ambient(f)
			if dispatched[f] {
				ctx.may[f] = lset{}
			}
		} else {
			ctx.must[f] = all.clone() // top, narrowed below
			ctx.may[f] = lset{}
		}
	}
	for changed, iter := true, 0; changed && iter < 50; iter++ {
		changed = false
		for _, f := range fns {
			ss := sites[f]
			if len(ss) == 0 {
				continue
			}
			must := all.clone()
			may := lset{}
			for _, s := range ss {
				st := la.before(s.in)
				if st == nil {
					continue // unreachable site
				}
				cm := ctx.must[s.caller]
				cy := ctx.may[s.caller]
				// effective = (ctx \ released) ∪ local
				effMust := lset{}
				for l := range cm {
					if !st.relMay[l] {
						effMust[l] = true
					}
				}
				for l := range st.must {
					effMust[l] = true
				}
				effMay := lset{}
				for l := range cy {
					if !st.relMust[l] {
						effMay[l] = true
					}
				}
				for l := range st.may {
					effMay[l] = true
				}
				if os.Getenv("VERIF_DEBUG_CTX") != "" && len(effMay) > 0 {
					fmt.Fprintf(os.Stderr, "ctx: %s <- %s at %s may=%v\n", shortFn(f), shortFn(s.caller), la.c.P.Position(s.in.Pos()), effMay)
				}
				must = interLS(must, effMust)
				may = unionLS(may, effMay)
			}
			if len(must) != len(ctx.must[f]) || len(may) != len(ctx.may[f]) {
				changed = true
			}
			ctx.must[f] = must
			ctx.may[f] = may
		}
	}
	return ctx
}

// heldMust / heldMay: locks held just before instruction in, including the calling context.
func (la *lockAnalysis) heldMust(ctx *lockCtx, in ssa.Instruction) lset {
	st := la.before(in)
	out := lset{}
	if st == nil {
		return out
	}
	if ctx != nil {
		for l := range ctx.must[in.Parent()] {
			if !st.relMay[l] {
				out[l] = true
			}
		}
	}
	for l := range st.must {
		out[l] = true
	}
	return out
}

func (la *lockAnalysis) heldMay(ctx *lockCtx, in ssa.Instruction) lset {
	st := la.before(in)
	out := lset{}
	if st == nil {
		return out
	}
	if ctx != nil {
		for l := range ctx.may[in.Parent()] {
			if !st.relMust[l] {
				out[l] = true
			}
		}
	}
	for l := range st.may {
		out[l] = true
	}
	return out
}

// dispatchTargets: if callee has no lock operation of its own and the call
// passes constant bool arguments, return the module callees reachable in it
// under those constants (nil = not a dispatcher call).
func (la *lockAnalysis) dispatchTargets(callee *ssa.Function, ci ssa.CallInstruction) []*ssa.Function {
	args := ci.Common().Args
	penv := map[*ssa.Parameter]bool{}
	for i, p := range callee.Params {
		if i < len(args) {
			if b, ok := constBool(args[i]); ok {
				penv[p] = b
			}
		}
	}
	if len(penv) == 0 || len(callee.Blocks) == 0 {
		return nil
	}
	own := false
	eachInstr(callee, func(in ssa.Instruction) {
		if c2, ok := in.(ssa.CallInstruction); ok {
			if _, dir := la.lockOp(c2); dir != 0 {
				own = true
			}
		}
	})
	if own {
		return nil
	}
	cut := func(e edge) bool {
		iff, ok := e.from.Instrs[len(e.from.Instrs)-1].(*ssa.If)
		if !ok {
			return false
		}
		cond := iff.Cond
		if ld, isLd := cond.(*ssa.UnOp); isLd && ld.Op == token.MUL {
			if cell, isAlloc := ld.X.(*ssa.Alloc); isAlloc && cell.Referrers() != nil {
				var only ssa.Value
				n := 0
				for _, r := range *cell.Referrers() {
					if st, isSt := r.(*ssa.Store); isSt && st.Addr == cell {
						n++
						only = st.Val
					}
				}
				if n == 1 {
					cond = only
				}
			}
		}
		if p, isP := cond.(*ssa.Parameter); isP {
			if b, has := penv[p]; has {
				return (e.succ == 0) != b
			}
		}
		return false
	}
	var out []*ssa.Function
	for in := range reach(nil, []*ssa.BasicBlock{callee.Blocks[0]}, nil, cut) {
		if c2, ok := in.(*ssa.Call); ok {
			if t := calleeOf(c2).Static; t != nil {
				if pk := fnPkg(t); pk != nil && pk.Path() == rootPkg && !(t.Synthetic != "" && t.Syntax() == nil) {
					out = append(out, t)
				}
			}
		}
	}
	sort.Slice(out, func(i, j int) bool { return shortFn(out[i]) < shortFn(out[j]) })
	return out
}
