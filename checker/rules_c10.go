package main

import (
	"fmt"
	"go/types"
	"strings"

	"golang.org/x/tools/go/ssa"
)

func init() {
	register(&propDef{
		ID: "C10",
		Explanation: "Decided: the LIVENESS SKELETON of reclamation — the release step runs at every writer begin (after the meta copy, under metalock); every way a read transaction can end reaches the de-registration of its id (Rollback -> nonPhysicalRollback -> close -> removeTx -> RemoveReadonlyTXID, View's three exits, freepages' deferred Rollback); " +
			"registration and de-registration use the same key; with no reader registered ReleasePendingPages releases everything (tabulated: release(MaxUint64-1) and the trailing releaseRange are unconditional); order-dependent lookups in the reader list are preceded by a sort; the writer publishes the free/pending counts before releasing the writer lock. " +
			"NOT decided: the bound 'at most the pages of that very commit are withheld' (needs the value semantics of release/releaseRange), behaviour across reopen. Round 4: RemoveReadonlyTXID removes exactly one registration per call.",
		Run: func(c *Ctx) {
			ruleOneRegistrationRemoved(c, "C10.R10")
			c10R1(c, "C10.R1")
			c10R2(c, "C10.R2")
			c.rule("C10.R3", "reader-key-agreement", 2, func() { ruleReaderKeys(c, "C10.R3") })
			c10R4(c, "C10.R4")
			c10R5(c, "C10.R5")
			c10R6(c, "C10.R6")
			// safety half of the statement ("no page an open reader references is reusable"): pending pages become
			// free only through the release path, and the free set is replaced only by the pending-aware reload
			ruleFreeSetEntry(c, "C10.R7")
			ruleAllocatePrefersFreeList(c, "C10.R8")
			c09R9(c, "C10.R9") // released pages are only reusable if the backend actually records them
		},
		CHA: func(c *Ctx) { ruleFreeSetEntry(c, "C10.R7") },
	})
}

func c10R1(c *Ctx, id string) {
	c.rule(id, "release-at-writer-begin", 1, func() {
		brw := c.fn("bbolt.(*DB).beginRWTx")
		rel := callsIn(brw, "freelist.Interface.ReleasePendingPages")
		ini := plainCallsIn(brw, "bbolt.(*Tx).init")
		ok := len(rel) == 1 && len(ini) == 1
		detail := fmt.Sprintf("%d ReleasePendingPages, %d init calls", len(rel), len(ini))
		if ok {
			r := reach(nil, []*ssa.BasicBlock{brw.Blocks[0]}, func(in ssa.Instruction) bool { return in == rel[0].(ssa.Instruction) }, nil)
			for _, ret := range successReturns(brw) {
				if r[ret] {
					ok = false
					detail = "a success return is reachable without ReleasePendingPages"
				}
			}
			if !dominates(ini[0], rel[0].(ssa.Instruction)) {
				ok = false
				detail = "release must follow the meta copy (tx.init)"
			}
			la := newLockAnalysis(c, map[*types.Var]bool{})
			st := la.before(rel[0].(ssa.Instruction))
			if st == nil || !st.must["metalock:W"] {
				ok = false
				detail = fmt.Sprintf("release without metalock: %v", st)
			}
		}
		c.check(id+":(*DB).beginRWTx:release-on-every-begin", brw, brw.Pos(), "every successful writer begin passes ReleasePendingPages, after tx.init and under metalock", ok, detail)
	})
}

// mustCall: every path from entry to a return (other than closed-tx guards) passes a call to callee, under env.
func mustCall(fn *ssa.Function, callee string, env map[*types.Var]bool) (bool, string) {
	calls := callsIn(fn, callee)
	if len(calls) == 0 {
		return false, "no call to " + callee
	}
	stop := func(in ssa.Instruction) bool { return isCallTo(in, callee) }
	r := reach(nil, []*ssa.BasicBlock{fn.Blocks[0]}, stop, cutByEnv(env))
	for _, ret := range returnsOf(fn) {
		if r[ret] && !dominatedByNilFieldTest(ret, "db") {
			return false, "a return is reachable without calling " + callee
		}
	}
	return true, ""
}

func c10R2(c *Ctx, id string) {
	c.rule(id, "reader-exit-deregisters", 6, func() {
		wr := txField(c, "writable")
		flF := c.dbField("freelist")
		dbF := txField(c, "db")
		ro := map[*types.Var]bool{wr: false, dbF: true}
		chain := []struct{ fn, callee string }{
			{"bbolt.(*Tx).Rollback", "bbolt.(*Tx).nonPhysicalRollback"},
			{"bbolt.(*Tx).nonPhysicalRollback", "bbolt.(*Tx).close"},
			{"bbolt.(*Tx).rollback", "bbolt.(*Tx).close"},
			{"bbolt.(*Tx).close", "bbolt.(*DB).removeTx"},
		}
		for _, l := range chain {
			fn := c.fn(l.fn)
			ok, why := mustCall(fn, l.callee, ro)
			c.check(id+":"+l.fn+"->"+l.callee, fn, fn.Pos(), "for an open read transaction every path through "+l.fn+" calls "+l.callee, ok, why)
		}
		rt := c.fn("bbolt.(*DB).removeTx")
		ok, why := mustCall(rt, "freelist.Interface.RemoveReadonlyTXID", map[*types.Var]bool{flF: true})
		c.check(id+":bbolt.(*DB).removeTx->RemoveReadonlyTXID", rt, rt.Pos(), "removeTx de-registers the reader whenever a freelist is loaded", ok, why)
		// View: every exit after a successful Begin rolls back
		vw := c.fn("bbolt.(*DB).View")
		beg := c.theCall(id, vw, "bbolt.(*DB).Begin")
		if beg != nil {
			var okSucc []*ssa.BasicBlock
			for _, t := range errTests(beg) {
				okSucc = append(okSucc, t.Nil)
			}
			r := reach(nil, okSucc, func(in ssa.Instruction) bool { return isCallTo(in, "bbolt.(*Tx).Rollback") }, nil)
			bad := ""
			for in := range r {
				if _, isR := in.(*ssa.Return); isR {
					bad = c.P.Position(in.Pos())
				}
			}
			c.check(id+":(*DB).View:exits-roll-back", vw, beg.Pos(), "every non-panicking exit of View after a successful Begin passes t.Rollback() (fn error and success); the panic path is covered by the deferred rollback (C03.R2)", bad == "" && len(okSucc) > 0, "return at "+bad+" leaves the read transaction open")
			if b, isC := constBool(beg.Call.Args[1]); !isC || b {
				c.check(id+":(*DB).View:read-only", vw, beg.Pos(), "View begins a read-only transaction", false, "Begin argument is not the constant false")
			}
		}
		// Commit on a read-only tx returns before any effect
		commit := c.fn("bbolt.(*Tx).Commit")
		r := reach(nil, []*ssa.BasicBlock{commit.Blocks[0]}, nil, cutByEnv(map[*types.Var]bool{wr: false, dbF: true}))
		bad := ""
		for in := range r {
			if isCallTo(in, "bbolt.(*Tx).close", "bbolt.(*Bucket).rebalance", "bbolt.(*Bucket).spill") {
				bad = c.P.Position(in.Pos())
			}
		}
		c.check(id+":(*Tx).Commit:read-only-returns-early", commit, commit.Pos(), "Commit on a read transaction returns ErrTxNotWritable before any effect (the transaction stays open; the caller must still roll back — documented)", bad == "", "effect reachable at "+bad)
		// freepages: deferred Rollback of its private read transaction
		fp := c.fn("bbolt.(*DB).freepages")
		okD := false
		for _, d := range deferredCalls(fp) {
			if cl := closureOf(d.Call.Value); cl != nil && len(callsIn(cl, "bbolt.(*Tx).Rollback")) > 0 {
				// registered right after beginTx, before the error test can return
				okD = true
				for _, bt := range plainCallsIn(fp, "bbolt.(*DB).beginTx") {
					if !dominates(bt, d) {
						okD = false
					}
				}
			}
		}
		c.check(id+":(*DB).freepages:deferred-rollback", fp, fp.Pos(), "the internal read transaction of freepages() is rolled back by a deferred call on every exit (including panics)", okD, "no deferred tx.Rollback()")
	})
}

const maxU64 = ^uint64(0)

func c10R4(c *Ctx, id string) {
	c.rule(id, "release-all-when-no-reader", 3, func() {
		rp := c.fn("freelist.(*shared).ReleasePendingPages")
		type rec struct {
			name string
			args []V
		}
		run := func(readers []uint64) (Outcome, []rec) {
			var trace []rec
			idx := 0
			ev := &Evaluator{
				MaxSteps: 5000,
				Call: func(call *ssa.Call, args []V) (V, bool) {
					if calleeOf(call).Builtin == "len" {
						return iV(int64(len(readers))), true
					}
					return unkV, false
				},
				Load: func(u *ssa.UnOp) (V, bool) {
					if ia, ok := u.X.(*ssa.IndexAddr); ok {
						// element of the (sorted) reader list
						if k, isC := constInt(ia.Index); isC && int(k) < len(readers) {
							return uV(readers[k]), true
						}
						if idx < len(readers) {
							v := readers[idx]
							idx++
							return uV(v), true
						}
					}
					return unkV, false
				},
				OnCall: func(ci ssa.CallInstruction, args []V) {
					n := calleeOf(ci).Name()
					if strings.HasSuffix(n, ".release") || strings.HasSuffix(n, ".releaseRange") {
						trace = append(trace, rec{n[strings.LastIndex(n, ".")+1:], args})
					}
				},
			}
			o := ev.Exec(rp, nil)
			return o, trace
		}
		u := func(v V) uint64 {
			if v.K == vConst {
				if x, ok := constantUint(v); ok {
					return x
				}
			}
			return 12345
		}
		// no readers
		o, tr := run(nil)
		ok := o.Kind == "return" && len(tr) == 2 && tr[0].name == "release" && tr[1].name == "releaseRange"
		detail := fmt.Sprintf("%s trace=%v", o, tr)
		if ok {
			a := tr[0].args
			b := tr[1].args
			ok = u(a[len(a)-1]) == maxU64-1 && u(b[len(b)-2]) == maxU64 && u(b[len(b)-1]) == maxU64
		}
		c.check(id+":freelist.(*shared).ReleasePendingPages:no-readers", rp, rp.Pos(), "with no reader registered: release(MaxUint64-1) — every pending transaction — and the trailing releaseRange(MaxUint64, MaxUint64) are called unconditionally", ok, detail)
		// one reader at txid 5
		o, tr = run([]uint64{5})
		ok = o.Kind == "return" && len(tr) == 3
		detail = fmt.Sprintf("%s trace=%v", o, tr)
		if ok {
			ok = tr[0].name == "release" && u(tr[0].args[len(tr[0].args)-1]) == 4 &&
				tr[1].name == "releaseRange" && u(tr[1].args[len(tr[1].args)-2]) == 5 && u(tr[1].args[len(tr[1].args)-1]) == 4 &&
				tr[2].name == "releaseRange" && u(tr[2].args[len(tr[2].args)-2]) == 6 && u(tr[2].args[len(tr[2].args)-1]) == maxU64
		}
		c.check(id+":freelist.(*shared).ReleasePendingPages:one-reader", rp, rp.Pos(), "with one reader at txid 5: release(4), releaseRange(5,4) (empty), releaseRange(6, MaxUint64)", ok, detail)
		// two readers 5 and 9
		o, tr = run([]uint64{5, 9})
		ok = o.Kind == "return" && len(tr) == 4
		detail = fmt.Sprintf("%s trace=%v", o, tr)
		if ok {
			g := func(i, j int) uint64 { a := tr[i].args; return u(a[len(a)-2+j]) }
			ok = u(tr[0].args[len(tr[0].args)-1]) == 4 && g(1, 0) == 5 && g(1, 1) == 4 && g(2, 0) == 6 && g(2, 1) == 8 && g(3, 0) == 10 && g(3, 1) == maxU64
		}
		c.check(id+":freelist.(*shared).ReleasePendingPages:two-readers", rp, rp.Pos(), "with readers at 5 and 9: release(4), releaseRange(5,4), releaseRange(6,8) (the gap), releaseRange(10, MaxUint64)", ok, detail)
	})
}

func c10R5(c *Ctx, id string) {
	c.rule(id, "writer-close-publishes-counts", 2, func() {
		wr := txField(c, "writable")
		cl := c.fn("bbolt.(*Tx).close")
		la := newLockAnalysis(c, map[*types.Var]bool{wr: true})
		var unlock ssa.Instruction
		for _, ci := range callsIn(cl, "sync.(*Mutex).Unlock") {
			if l, _ := la.lockOp(ci); l == "rwlock:W" {
				unlock = ci.(ssa.Instruction)
			}
		}
		bad := ""
		n := 0
		for _, ci := range callsIn(cl, "freelist.Interface.FreeCount", "freelist.Interface.PendingCount") {
			n++
			if unlock == nil || !dominates(ci.(ssa.Instruction), unlock) {
				bad = calleeOf(ci).Name()
			}
		}
		c.check(id+":(*Tx).close:counts-before-unlock", cl, cl.Pos(), "the free and pending counts are read while the writer lock is still held", bad == "" && n == 2, "read after rwlock.Unlock: "+bad)
		statsF := c.dbField("stats")
		okS := 0
		badS := ""
		eachInstr(cl, func(in ssa.Instruction) {
			st, ok := in.(*ssa.Store)
			if !ok {
				return
			}
			fp := pathOf(st.Addr)
			if fp.Has(statsF) && (fp.Last().Name() == "FreePageN" || fp.Last().Name() == "PendingPageN") {
				s := la.before(in)
				if s != nil && s.must["statlock:W"] {
					okS++
				} else {
					badS = fp.Last().Name()
				}
			}
		})
		c.check(id+":(*Tx).close:counts-published", cl, cl.Pos(), "FreePageN and PendingPageN are stored into DB.stats under statlock", okS == 2 && badS == "", fmt.Sprintf("%d stores under statlock; offender %s", okS, badS))
	})
}

// c10R6: the reader list is unordered between writer begins (append + swap-delete):
// order-dependent lookups need a preceding sort in the same function.
func c10R6(c *Ctx, id string) {
	c.rule(id, "reader-list-order-discipline", 2, func() {
		roF := c.P.lookupField(freelistPath, "shared", "readonlyTXIDs")
		if roF == nil {
			panic(anchorErr{"freelist.shared.readonlyTXIDs"})
		}
		touches := func(fn *ssa.Function) bool {
			t := false
			for _, f := range withAnons(fn) {
				eachInstr(f, func(in ssa.Instruction) {
					if fa, ok := in.(*ssa.FieldAddr); ok && fieldOfAddr(fa) == roF {
						t = true
					}
				})
			}
			return t
		}
		n := 0
		for _, fn := range c.P.FnsIn(freelistPath) {
			if fn.Parent() != nil || !touches(fn) {
				continue
			}
			n++
			name := shortFn(fn)
			var sorts, ordered []ssa.Instruction
			eachInstr(fn, func(in ssa.Instruction) {
				ci, ok := in.(ssa.CallInstruction)
				if ok {
					cn := calleeOf(ci).Name()
					argsTouch := false
					for _, a := range ci.Common().Args {
						for _, l := range provenance(a, provOpts{ThroughCall: throughAll}) {
							if l.Kind == "field" && pathOf(l.V).Has(roF) {
								argsTouch = true
							}
							if l.Kind == "func" {
								if cl := closureOf(l.V); cl != nil && touches(cl) {
									argsTouch = true
								}
								// a closure over a local alias of the list
								if mc, isMC := l.V.(*ssa.MakeClosure); isMC {
									for _, b := range mc.Bindings {
										for _, bl := range provenance(b, provOpts{ThroughCall: throughAll}) {
											if bl.Kind == "field" && pathOf(bl.V).Has(roF) {
												argsTouch = true
											}
										}
									}
								}
							}
						}
					}
					switch {
					case (cn == "sort.Sort" || cn == "sort.Slice" || cn == "slices.Sort" || cn == "sort.Stable") && argsTouch:
						sorts = append(sorts, in)
					case (strings.HasPrefix(cn, "sort.Search") || cn == "sort.Find" || strings.HasPrefix(cn, "slices.BinarySearch")) && argsTouch:
						ordered = append(ordered, in)
					}
				}
				// reading element 0 as "the minimum"
				if ia, isIA := in.(*ssa.IndexAddr); isIA && pathOf(ia.X).Has(roF) {
					if k, isC := constInt(ia.Index); isC && k == 0 {
						ordered = append(ordered, in)
					}
				}
			})
			bad := ""
			for _, o := range ordered {
				okO := false
				for _, s := range sorts {
					if dominates(s, o) {
						okO = true
					}
				}
				if !okO {
					bad = c.P.Position(o.Pos())
				}
			}
			c.check(id+":"+name+":ordered-reads-after-sort", fn, fn.Pos(), fmt.Sprintf("every order-dependent read of readonlyTXIDs (binary search, element 0 as minimum: %d found) is dominated by a sort of the list in the same function", len(ordered)), bad == "", "order-dependent read at "+bad+" without a preceding sort: the list is unordered after a swap-delete")
		}
		_ = n
	})
}
