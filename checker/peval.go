package main

import (
	"go/token"

	"golang.org/x/tools/go/ssa"
)

// Guarded reachability under a partial assignment (T6 for conditions scattered over a function).
//
// atoms gives the value of the SSA values the scenario fixes (a call result, a parameter, a comparison of two
// pointers, len(x) ...). Every branch whose condition is decided by the atoms (through constants, arithmetic,
// comparisons, negation and short-circuit phis) is followed only along the decided edge; every other branch is
// followed both ways. reachUnder therefore answers "can this instruction execute in a run where the atoms have
// these values" with an over-approximation that is exact as far as the conditions depend on the atoms only.

type atomFn func(v ssa.Value) (V, bool)

type pevaluator struct {
	ev *Evaluator
}

func newPeval(atoms atomFn) *pevaluator {
	pe := &pevaluator{}
	pe.ev = &Evaluator{Value: func(v ssa.Value) (V, bool) {
		if r, ok := atoms(v); ok {
			return r, true
		}
		// a short-circuit phi is decided by the branches between its dominator and itself
		if ph, ok := v.(*ssa.Phi); ok {
			// a loop-carried phi has no single value: unknown (never its entry value)
			for _, p := range ph.Block().Preds {
				if ph.Block().Dominates(p) {
					return unkV, true
				}
			}
			if r, ok := pe.phi(ph); ok {
				return r, true
			}
		}
		return unkV, false
	}}
	return pe
}

func (pe *pevaluator) cond(v ssa.Value) (bool, bool) {
	return pe.ev.ValueAtEntry(v).Bool()
}

func (pe *pevaluator) phi(x *ssa.Phi) (V, bool) {
	cur := x.Block().Idom()
	var prev *ssa.BasicBlock
	for steps := 0; cur != nil && steps < 32; steps++ {
		if cur == x.Block() && prev != nil {
			for i, p := range cur.Preds {
				if p == prev {
					r := pe.ev.ValueAtEntry(x.Edges[i])
					return r, r.K != vUnknown
				}
			}
			return unkV, false
		}
		var next *ssa.BasicBlock
		switch t := cur.Instrs[len(cur.Instrs)-1].(type) {
		case *ssa.If:
			b, known := pe.cond(t.Cond)
			if !known {
				return unkV, false
			}
			if b {
				next = cur.Succs[0]
			} else {
				next = cur.Succs[1]
			}
		case *ssa.Jump:
			next = cur.Succs[0]
		default:
			return unkV, false
		}
		prev, cur = cur, next
	}
	return unkV, false
}

// reachUnder: instructions reachable from the head of the start blocks when decided branches are followed only
// along their decided edge.
func reachUnder(starts []*ssa.BasicBlock, atoms atomFn) map[ssa.Instruction]bool {
	pe := newPeval(atoms)
	memo := map[*ssa.If][2]bool{}
	cut := func(e edge) bool {
		iff, ok := e.from.Instrs[len(e.from.Instrs)-1].(*ssa.If)
		if !ok {
			return false
		}
		m, seen := memo[iff]
		if !seen {
			b, known := pe.cond(iff.Cond)
			m = [2]bool{known, b}
			memo[iff] = m
		}
		if !m[0] {
			return false
		}
		return (e.succ == 0) != m[1]
	}
	return reach(nil, starts, nil, cut)
}

// lenAtom: v is len(x) of a parameter with the given name.
func isLenOfParam(v ssa.Value, param string) bool {
	call, ok := stripConv(v).(*ssa.Call)
	if !ok || calleeOf(call).Builtin != "len" || len(call.Call.Args) != 1 {
		return false
	}
	p, ok := resolveCell(call.Call.Args[0]).(*ssa.Parameter)
	return ok && p.Name() == param
}

var _ = token.ADD
