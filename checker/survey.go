package main

import (
	"bytes"
	"encoding/json"
	"fmt"
	"go/ast"
	"go/parser"
	"go/printer"
	"go/token"
	"os"
	"os/exec"
	"path/filepath"
	"sort"
	"strings"
	"sync"
)

// Mutation survey: generic, mechanical source mutations (negated conditions,
// deleted call statements, swallowed errors, off-by-one comparisons) applied one
// at a time to a scratch copy of the current tree; every property's quick
// analysis is run on each mutant in ONE child process. The result says, per
// mutation point, which rules fire — a map of how much of the code the rule set
// constrains. It is a measurement, not a check: it has no verdict and is not
// registered in MANIFEST.json.

var surveyFiles = []string{
	"tx.go", "db.go", "bucket.go", "cursor.go", "node.go", "tx_check.go", "compact.go", "bolt_unix.go", "bolt_linux.go",
	"internal/freelist/shared.go", "internal/freelist/array.go", "internal/freelist/hashmap.go",
	"internal/common/meta.go", "internal/common/page.go", "internal/common/inode.go", "internal/common/utils.go",
	"internal/surgeon/surgeon.go", "internal/guts_cli/guts_cli.go",
}

type surveyPoint struct {
	File string `json:"file"`
	Line int    `json:"line"`
	Func string `json:"func"`
	Op   string `json:"op"`
	Text string `json:"text"`
}

type surveyResult struct {
	surveyPoint
	Loads     bool     `json:"compiles"`
	Fired     []string `json:"fired"`
	Keys      []string `json:"keys,omitempty"`
	FastTests string   `json:"fast_tests,omitempty"` // for unflagged mutants: does a ~15 s subset of the repository's tests notice? (triage aid only)
}

const surveyTestRegex = `Test(Bucket_(Put|Delete|Get|Nested|DeleteBucket|ForEach|NextSequence|Sequence)|Cursor_|Tx_(Commit|Rollback|CreateBucket|DeleteBucket|OnCommit|Check|CopyFile|Cursor|ForEach)|DB_(Update|View|Batch|Begin|Close|Open_ReadOnly|Stats|Consistency)|Open|Node_|Freelist|FreeList|Pgids|Page)`

func nodeText(fset *token.FileSet, n ast.Node) string {
	var b bytes.Buffer
	_ = printer.Fprint(&b, fset, n)
	s := strings.Join(strings.Fields(b.String()), " ")
	if len(s) > 90 {
		s = s[:90] + "…"
	}
	return s
}

// enumerate returns, for one file, a list of mutators; each mutator edits the
// freshly parsed AST it is given and reports the point it changed.
func surveyEnumerate(path string) (int, func(k int) ([]byte, surveyPoint, bool)) {
	count := 0
	apply := func(k int) ([]byte, surveyPoint, bool) {
		fset := token.NewFileSet()
		f, err := parser.ParseFile(fset, path, nil, parser.ParseComments)
		if err != nil {
			return nil, surveyPoint{}, false
		}
		idx := 0
		var pt surveyPoint
		done := false
		hit := func() bool { idx++; return idx-1 == k }
		for _, d := range f.Decls {
			fd, ok := d.(*ast.FuncDecl)
			if !ok || fd.Body == nil {
				continue
			}
			fname := fd.Name.Name
			if fd.Recv != nil && len(fd.Recv.List) > 0 {
				fname = nodeText(fset, fd.Recv.List[0].Type) + "." + fname
			}
			returnsErr := false
			if fd.Type.Results != nil {
				l := fd.Type.Results.List
				if len(l) > 0 {
					if id, ok := l[len(l)-1].Type.(*ast.Ident); ok && id.Name == "error" {
						returnsErr = true
					}
				}
			}
			ast.Inspect(fd.Body, func(n ast.Node) bool {
				if done {
					return false
				}
				switch x := n.(type) {
				case *ast.IfStmt:
					if hit() {
						pt = surveyPoint{Line: fset.Position(x.Pos()).Line, Func: fname, Op: "negate-if", Text: nodeText(fset, x.Cond)}
						x.Cond = &ast.UnaryExpr{Op: token.NOT, X: &ast.ParenExpr{X: x.Cond}}
						done = true
					}
				case *ast.BlockStmt:
					for i, st := range x.List {
						if as, isAs := st.(*ast.AssignStmt); isAs && as.Tok == token.ASSIGN {
							if hit() {
								pt = surveyPoint{Line: fset.Position(as.Pos()).Line, Func: fname, Op: "delete-assign", Text: nodeText(fset, as)}
								x.List = append(append([]ast.Stmt{}, x.List[:i]...), x.List[i+1:]...)
								done = true
								return false
							}
							continue
						}
						es, ok := st.(*ast.ExprStmt)
						if !ok {
							continue
						}
						if _, isCall := es.X.(*ast.CallExpr); !isCall {
							continue
						}
						if hit() {
							pt = surveyPoint{Line: fset.Position(es.Pos()).Line, Func: fname, Op: "delete-call", Text: nodeText(fset, es.X)}
							x.List = append(append([]ast.Stmt{}, x.List[:i]...), x.List[i+1:]...)
							done = true
							return false
						}
					}
				case *ast.ReturnStmt:
					if returnsErr && len(x.Results) > 0 {
						if id, ok := x.Results[len(x.Results)-1].(*ast.Ident); ok && (id.Name == "err" || strings.HasSuffix(id.Name, "Err")) {
							if hit() {
								pt = surveyPoint{Line: fset.Position(x.Pos()).Line, Func: fname, Op: "return-nil-error", Text: nodeText(fset, x)}
								x.Results[len(x.Results)-1] = ast.NewIdent("nil")
								done = true
							}
						}
					}
				case *ast.BinaryExpr:
					var to token.Token
					switch x.Op {
					case token.LSS:
						to = token.LEQ
					case token.LEQ:
						to = token.LSS
					case token.GTR:
						to = token.GEQ
					case token.GEQ:
						to = token.GTR
					}
					if to != token.ILLEGAL {
						if hit() {
							pt = surveyPoint{Line: fset.Position(x.Pos()).Line, Func: fname, Op: "boundary " + x.Op.String() + "->" + to.String(), Text: nodeText(fset, x)}
							x.Op = to
							done = true
						}
					}
				}
				return !done
			})
			if done {
				break
			}
		}
		if k < 0 {
			count = idx
			return nil, surveyPoint{}, false
		}
		if !done {
			return nil, surveyPoint{}, false
		}
		var b bytes.Buffer
		if err := printer.Fprint(&b, fset, f); err != nil {
			return nil, surveyPoint{}, false
		}
		return b.Bytes(), pt, true
	}
	apply(-1)
	return count, apply
}

func runSurvey(repo, out string, par int, limit int) {
	self, _ := os.Executable()
	// base failures (known findings)
	base := map[string]bool{}
	{
		c := exec.Command(self, "-child", "-prop", "ALL", "-repo", repo)
		c.Env = os.Environ()
		o, _ := c.Output()
		for _, line := range strings.Split(string(o), "\n") {
			if strings.HasPrefix(line, "CHILD-RESULT ") {
				var co childOut
				if json.Unmarshal([]byte(strings.TrimPrefix(line, "CHILD-RESULT ")), &co) == nil {
					for _, ob := range co.Failed {
						base[ob.Key] = true
					}
				}
			}
		}
	}
	type job struct {
		file string
		k    int
		ap   func(k int) ([]byte, surveyPoint, bool)
	}
	var jobs []job
	for _, f := range surveyFiles {
		n, ap := surveyEnumerate(filepath.Join(repo, f))
		for k := 0; k < n; k++ {
			jobs = append(jobs, job{f, k, ap})
		}
	}
	if ops := os.Getenv("VERIF_SURVEY_OPS"); ops != "" {
		// pre-filter by operator: apply each mutator once to learn its operator (cheap: parse + print only)
		var sel []job
		for _, j := range jobs {
			if _, pt, ok := j.ap(j.k); ok {
				for _, o := range strings.Split(ops, ",") {
					if strings.HasPrefix(pt.Op, o) {
						sel = append(sel, j)
					}
				}
			}
		}
		jobs = sel
	}
	if limit > 0 && len(jobs) > limit {
		// spread evenly
		step := float64(len(jobs)) / float64(limit)
		var sel []job
		for i := 0; i < limit; i++ {
			sel = append(sel, jobs[int(float64(i)*step)])
		}
		jobs = sel
	}
	fmt.Fprintf(os.Stderr, "survey: %d mutation points, base failing keys %d\n", len(jobs), len(base))
	results := make([]surveyResult, len(jobs))
	sem := make(chan struct{}, par)
	var wg sync.WaitGroup
	var mu sync.Mutex
	doneN := 0
	for i, j := range jobs {
		wg.Add(1)
		go func(i int, j job) {
			defer wg.Done()
			sem <- struct{}{}
			defer func() { <-sem }()
			src, pt, ok := j.ap(j.k)
			pt.File = j.file
			res := surveyResult{surveyPoint: pt}
			if ok {
				dir, err := os.MkdirTemp("", "verif-survey-")
				if err == nil {
					if o, err := exec.Command("rsync", "-a", "--exclude", ".git", repo+"/", dir+"/").CombinedOutput(); err == nil {
						_ = os.WriteFile(filepath.Join(dir, j.file), src, 0o644)
						c := exec.Command(self, "-child", "-prop", "ALL", "-repo", dir)
						c.Env = os.Environ()
						o2, _ := c.Output()
						for _, line := range strings.Split(string(o2), "\n") {
							if !strings.HasPrefix(line, "CHILD-RESULT ") {
								continue
							}
							var co childOut
							if json.Unmarshal([]byte(strings.TrimPrefix(line, "CHILD-RESULT ")), &co) != nil {
								continue
							}
							res.Loads = true
							seen := map[string]bool{}
							for _, ob := range co.Failed {
								if base[ob.Key] {
									continue
								}
								if strings.Contains(ob.Rule, ".R0") {
									res.Loads = false
								}
								if !seen[ob.Rule] {
									seen[ob.Rule] = true
									res.Fired = append(res.Fired, ob.Rule)
								}
								if len(res.Keys) < 4 {
									res.Keys = append(res.Keys, ob.Key)
								}
							}
							sort.Strings(res.Fired)
						}
						if res.Loads && len(res.Fired) == 0 && os.Getenv("VERIF_SURVEY_TESTS") != "" {
							t := exec.Command("timeout", "240", "go", "test", "-count=1", "-short", "-run", surveyTestRegex, ".", "./internal/...")
							t.Dir = dir
							t.Env = os.Environ()
							if err := t.Run(); err != nil {
								res.FastTests = "fail"
							} else {
								res.FastTests = "pass"
							}
						}
					} else {
						_ = o
					}
					os.RemoveAll(dir)
				}
			}
			results[i] = res
			mu.Lock()
			doneN++
			if doneN%25 == 0 {
				fmt.Fprintf(os.Stderr, "survey: %d/%d\n", doneN, len(jobs))
			}
			mu.Unlock()
		}(i, j)
	}
	wg.Wait()
	det, comp := 0, 0
	residue := 0
	for _, r := range results {
		if r.Loads && len(r.Fired) == 0 && r.FastTests == "pass" {
			residue++
		}
	}
	byOp := map[string][2]int{}
	byFile := map[string][2]int{}
	for _, r := range results {
		if !r.Loads {
			continue
		}
		comp++
		a := byOp[strings.Fields(r.Op)[0]]
		b := byFile[r.File]
		a[1]++
		b[1]++
		if len(r.Fired) > 0 {
			det++
			a[0]++
			b[0]++
		}
		byOp[strings.Fields(r.Op)[0]] = a
		byFile[r.File] = b
	}
	summary := map[string]any{"points": len(results), "compiling": comp, "flagged_by_some_rule": det, "unflagged_and_fast_tests_pass": residue, "by_operator": byOp, "by_file": byFile,
		"note": "flagged = at least one rule of some property fails on the mutant and not on the unmutated tree. Unflagged mutants are NOT all property violations: many are behaviour-preserving (logging, statistics, assertions) or change value-level behaviour that no static rule here decides."}
	b, _ := json.MarshalIndent(map[string]any{"summary": summary, "results": results}, "", " ")
	_ = os.WriteFile(out, b, 0o644)
	sb, _ := json.MarshalIndent(summary, "", " ")
	fmt.Println(string(sb))
}
