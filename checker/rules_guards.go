package main

import (
	"fmt"
	"os"
	"go/token"
	"go/types"
	"sort"
	"strings"

	"golang.org/x/tools/go/ssa"
)

// ---------------------------------------------------------------------------------------------
// C04.R14 argument-guards-exact
//
// "Argument or type errors return the documented error and leave the state unchanged" has a second half the
// presence rule (C04.R3) cannot see: a guard that fires on MORE inputs than documented refuses operations the map
// semantics require to succeed (seed C04c: MoveBucket treating two distinct inline buckets, both with root page 0,
// as "the same bucket"). The argument guards of the mutators are tabulated: for every combination of the facts a
// guard may depend on, the documented error is reachable exactly when the documented condition holds, and for
// valid arguments no argument error is reachable at all.

func returnsOfGlobal(fn *ssa.Function, name string) []*ssa.Return {
	var out []*ssa.Return
	for _, f := range withAnons(fn) {
		if f != fn {
			continue
		}
		for _, r := range returnsOf(f) {
			if g, ok := returnedGlobal(r); ok && g == name {
				out = append(out, r)
			}
		}
	}
	return out
}

func anyReached(r map[ssa.Instruction]bool, rets []*ssa.Return) bool {
	for _, x := range rets {
		if r[x] {
			return true
		}
	}
	return false
}

func ruleArgumentGuardsExact(c *Ctx, id string) {
	c.rule(id, "argument-guards-exact", 4, func() {
		maxKey, ok1 := c.constOf(rootPkg, "MaxKeySize")
		maxVal, ok2 := c.constOf(rootPkg, "MaxValueSize")
		if !ok1 || !ok2 {
			panic(anchorErr{"MaxKeySize / MaxValueSize"})
		}
		// ---- Put: key / value size guards
		{
			fn := c.fn("bbolt.(*Bucket).Put")
			bad := ""
			rows := 0
			eff := effectSites(c, fn)
			for _, lk := range []int64{0, 1, maxKey, maxKey + 1} {
				for _, lv := range []int64{0, maxVal, maxVal + 1} {
					rows++
					r := reachUnder([]*ssa.BasicBlock{fn.Blocks[0]}, func(v ssa.Value) (V, bool) {
						if isLenOfParam(v, fn.Params[1].Name()) {
							return iV(lk), true
						}
						if isLenOfParam(v, fn.Params[2].Name()) {
							return iV(lv), true
						}
						return unkV, false
					})
					req := anyReached(r, returnsOfGlobal(fn, "ErrKeyRequired"))
					big := anyReached(r, returnsOfGlobal(fn, "ErrKeyTooLarge"))
					vbig := anyReached(r, returnsOfGlobal(fn, "ErrValueTooLarge"))
					effect := false
					for _, e := range eff {
						if r[e] {
							effect = true
						}
					}
					valid := lk >= 1 && lk <= maxKey && lv <= maxVal
					switch {
					case valid && (req || big || vbig):
						bad = fmt.Sprintf("len(key)=%d len(value)=%d is valid but an argument error is returned (KeyRequired=%v KeyTooLarge=%v ValueTooLarge=%v)", lk, lv, req, big, vbig)
					case valid && !effect:
						bad = fmt.Sprintf("len(key)=%d len(value)=%d is valid but the insertion is unreachable", lk, lv)
					case !valid && effect:
						bad = fmt.Sprintf("len(key)=%d len(value)=%d is invalid but the insertion is reachable", lk, lv)
					case lk == 0 && !req:
						bad = "an empty key does not yield ErrKeyRequired"
					case lk > maxKey && !big:
						bad = fmt.Sprintf("len(key)=%d does not yield ErrKeyTooLarge", lk)
					case lk >= 1 && lk <= maxKey && lv > maxVal && !vbig:
						bad = fmt.Sprintf("len(value)=%d does not yield ErrValueTooLarge", lv)
					case lk >= 1 && req, lk <= maxKey && big, lv <= maxVal && vbig:
						bad = fmt.Sprintf("len(key)=%d len(value)=%d: an error whose condition does not hold is reachable (KeyRequired=%v KeyTooLarge=%v ValueTooLarge=%v)", lk, lv, req, big, vbig)
					}
				}
			}
			c.check(id+":bbolt.(*Bucket).Put:size-guards", fn, fn.Pos(), fmt.Sprintf("ErrKeyRequired iff len(key)==0, ErrKeyTooLarge iff len(key)>MaxKeySize, ErrValueTooLarge iff len(value)>MaxValueSize; valid sizes reach the insertion, invalid ones do not (%d rows)", rows), bad == "", bad)
		}
		// ---- CreateBucket / CreateBucketIfNotExists: empty name
		for _, name := range []string{"bbolt.(*Bucket).CreateBucket", "bbolt.(*Bucket).CreateBucketIfNotExists"} {
			fn := c.fn(name)
			bad := ""
			eff := effectSites(c, fn)
			for _, lk := range []int64{0, 1, 300, maxKey + 10} {
				r := reachUnder([]*ssa.BasicBlock{fn.Blocks[0]}, func(v ssa.Value) (V, bool) {
					if isLenOfParam(v, fn.Params[1].Name()) {
						return iV(lk), true
					}
					return unkV, false
				})
				req := anyReached(r, returnsOfGlobal(fn, "ErrBucketNameRequired"))
				effect := false
				for _, e := range eff {
					if r[e] {
						effect = true
					}
				}
				switch {
				case lk == 0 && !req:
					bad = "an empty name does not yield ErrBucketNameRequired"
				case lk == 0 && effect:
					bad = "an empty name reaches the insertion"
				case lk > 0 && req:
					bad = fmt.Sprintf("a name of %d bytes yields ErrBucketNameRequired", lk)
				case lk > 0 && !effect:
					bad = fmt.Sprintf("a name of %d bytes cannot reach the insertion", lk)
				}
			}
			c.check(id+":"+name+":name-guard", fn, fn.Pos(), "ErrBucketNameRequired iff the name is empty; every non-empty name reaches the insertion (4 rows)", bad == "", bad)
		}
		// ---- MoveBucket: "the same bucket"
		{
			fn := c.fn("bbolt.(*Bucket).MoveBucket")
			same := returnsOfGlobal(fn, "ErrSameBuckets")
			bktParam := func(v ssa.Value) int {
				// which *Bucket parameter does v come from: 0 = receiver, 2 = destination, -1 = neither
				for _, l := range provenance(v, provOpts{}) {
					if l.Kind == "param" {
						for i, p := range fn.Params {
							if p.Name() == l.Name && strings.HasSuffix(p.Type().String(), "bbolt.Bucket") {
								return i
							}
						}
					}
				}
				return -1
			}
			bad := ""
			rows := 0
			eff := effectSites(c, fn)
			for _, ptrEq := range []bool{true, false} {
				for _, rb := range []uint64{0, 5} {
					for _, rd := range []uint64{0, 5, 7} {
						if ptrEq && rb != rd {
							continue
						}
						rows++
						r := reachUnder([]*ssa.BasicBlock{fn.Blocks[0]}, func(v ssa.Value) (V, bool) {
							switch x := v.(type) {
							case *ssa.BinOp:
								if x.Op == token.EQL || x.Op == token.NEQ {
									px, okx := resolveCell(x.X).(*ssa.Parameter)
									py, oky := resolveCell(x.Y).(*ssa.Parameter)
									if okx && oky && px != py && strings.HasSuffix(px.Type().String(), "bbolt.Bucket") && strings.HasSuffix(py.Type().String(), "bbolt.Bucket") {
										return bV(ptrEq == (x.Op == token.EQL)), true
									}
								}
							case *ssa.Call:
								if calleeOf(x).Name() == "common.(*InBucket).RootPage" && len(x.Call.Args) == 1 {
									switch bktParam(x.Call.Args[0]) {
									case 0:
										return uV(rb), true
									case 2:
										return uV(rd), true
									}
								}
							}
							return unkV, false
						})
						got := anyReached(r, same)
						want := ptrEq || (rb == rd && rb != 0)
						effect := false
						for _, e := range eff {
							if r[e] {
								effect = true
							}
						}
						switch {
						case got != want:
							bad = fmt.Sprintf("same handle=%v, source root page=%d, destination root page=%d: ErrSameBuckets reachable=%v, want %v (root page 0 means inline or not yet spilled: it identifies nothing)", ptrEq, rb, rd, got, want)
						case !want && !effect:
							bad = fmt.Sprintf("same handle=%v, roots %d/%d: two different buckets cannot reach the move", ptrEq, rb, rd)
						case want && effect:
							bad = fmt.Sprintf("same handle=%v, roots %d/%d: the same bucket reaches the move", ptrEq, rb, rd)
						}
					}
				}
			}
			c.check(id+":bbolt.(*Bucket).MoveBucket:same-bucket-guard", fn, fn.Pos(), fmt.Sprintf("ErrSameBuckets iff source and destination are the same handle or share a NON-ZERO root page; distinct buckets reach the move (%d rows)", rows), bad == "" && len(same) > 0, bad)
		}
	})
}

// ---------------------------------------------------------------------------------------------
// C09.R10 / C06.R10 / C02.R12  pending-slices-aligned
//
// txPending.ids and txPending.alloctx are parallel slices: alloctx[i] is the transaction that allocated ids[i], and
// releaseRange releases ids[i] iff alloctx[i] lies in a reader-free extent. Every write to one of them must have a
// twin write of the same shape to the other, in the same function; otherwise a page that stays pending is paired
// with a stale allocating txid and is released while a reader can still see it (seed C09c).

func rulePendingSlicesAligned(c *Ctx, id string) {
	c.rule(id, "pending-slices-aligned", 2, func() {
		idsF := c.P.lookupField(freelistPath, "txPending", "ids")
		atxF := c.P.lookupField(freelistPath, "txPending", "alloctx")
		if idsF == nil || atxF == nil {
			panic(anchorErr{"txPending.ids / txPending.alloctx"})
		}
		isS := func(f *types.Var) bool { return f == idsF || f == atxF }
		var canon func(v ssa.Value, depth int) string
		canon = func(v ssa.Value, depth int) string {
			if depth > 6 {
				return "…"
			}
			switch x := v.(type) {
			case *ssa.Const:
				if x.Value == nil {
					return "nil"
				}
				return x.Value.ExactString()
			case *ssa.Parameter:
				return "param"
			case *ssa.UnOp:
				if x.Op == token.MUL {
					switch a := x.X.(type) {
					case *ssa.FieldAddr:
						if isS(fieldOfAddr(a)) {
							return "S"
						}
						return "load(." + fieldOfAddr(a).Name() + ")"
					case *ssa.IndexAddr:
						return canon(a.X, depth+1) + "[" + canon(a.Index, depth+1) + "]"
					case *ssa.Alloc:
						if r := resolveCell(x); r != ssa.Value(x) {
							return canon(r, depth+1)
						}
						return "cell"
					}
					return "load"
				}
				return x.Op.String() + canon(x.X, depth+1)
			case *ssa.BinOp:
				return "(" + canon(x.X, depth+1) + x.Op.String() + canon(x.Y, depth+1) + ")"
			case *ssa.Convert:
				return canon(x.X, depth+1)
			case *ssa.ChangeType:
				return canon(x.X, depth+1)
			case *ssa.Call:
				if b := calleeOf(x).Builtin; b != "" {
					var as []string
					for _, a := range x.Call.Args {
						as = append(as, canon(a, depth+1))
					}
					if b == "append" && len(as) == 2 {
						as[1] = "·" // what is appended differs by construction (a page id / a txid)
					}
					return b + "(" + strings.Join(as, ",") + ")"
				}
				return "call"
			case *ssa.Slice:
				lo, hi := "", ""
				if x.Low != nil {
					lo = canon(x.Low, depth+1)
				}
				if x.High != nil {
					hi = canon(x.High, depth+1)
				}
				return canon(x.X, depth+1) + "[" + lo + ":" + hi + "]"
			case *ssa.Phi:
				return "phi@" + fmt.Sprint(x.Block().Index) + "." + x.Comment
			case *ssa.Extract:
				return "extract"
			}
			return "v"
		}
		n := 0
		for _, fn := range c.P.FnsIn(freelistPath) {
			writes := map[*types.Var][]string{}
			eachInstr(fn, func(in ssa.Instruction) {
				st, ok := in.(*ssa.Store)
				if !ok {
					return
				}
				switch a := st.Addr.(type) {
				case *ssa.FieldAddr:
					if f := fieldOfAddr(a); isS(f) {
						writes[f] = append(writes[f], "S="+canon(st.Val, 0))
					}
				case *ssa.IndexAddr:
					if ld, isLd := a.X.(*ssa.UnOp); isLd && ld.Op == token.MUL {
						if fa, isFA := ld.X.(*ssa.FieldAddr); isFA && isS(fieldOfAddr(fa)) {
							writes[fieldOfAddr(fa)] = append(writes[fieldOfAddr(fa)], "S["+canon(a.Index, 0)+"]="+canon(st.Val, 0))
						}
					}
				}
			})
			if len(writes[idsF]) == 0 && len(writes[atxF]) == 0 {
				return2 := false
				_ = return2
				continue
			}
			n++
			a, b := append([]string{}, writes[idsF]...), append([]string{}, writes[atxF]...)
			sort.Strings(a)
			sort.Strings(b)
			ok := len(a) == len(b)
			if ok {
				for i := range a {
					if a[i] != b[i] {
						ok = false
					}
				}
			}
			c.check(id+":"+shortFn(fn)+":twin-writes", fn, fn.Pos(), "every write to txPending.ids has a twin of the same shape on txPending.alloctx (alloctx[i] stays the allocating transaction of ids[i])", ok,
				fmt.Sprintf("writes to ids: %v; writes to alloctx: %v", a, b))
		}
		_ = n
	})
}

// ---------------------------------------------------------------------------------------------
// C09.R11 / C06.R11  span-covers-request
//
// hashMap.Allocate hands out the first page of a free span found in freemaps (span size -> set of starts). The id
// it returns must start a span of at least n pages: the exact-match path looks up freemaps[n], and the "larger span"
// path may return only when the span size taken from the map key is >= n. Otherwise the n-1 pages behind a short
// span — live pages — are handed to the writer (seed C06c).

func ruleSpanCoversRequest(c *Ctx, id string) {
	c.rule(id, "span-covers-request", 2, func() {
		al := c.fn("freelist.(*hashMap).Allocate")
		fmF := c.P.lookupField(freelistPath, "hashMap", "freemaps")
		if fmF == nil {
			panic(anchorErr{"hashMap.freemaps"})
		}
		var nParam *ssa.Parameter
		for _, p := range al.Params {
			if b, ok := p.Type().Underlying().(*types.Basic); ok && b.Kind() == types.Int {
				nParam = p
			}
		}
		if nParam == nil {
			panic(anchorErr{"hashMap.Allocate(n int)"})
		}
		// the allocation call tree (helpers Allocate delegates to)
		tree := []*ssa.Function{al}
		inTree := map[*ssa.Function]bool{al: true}
		for i := 0; i < len(tree); i++ {
			eachInstr(tree[i], func(in ssa.Instruction) {
				if call, ok := in.(*ssa.Call); ok {
					f := calleeOf(call).Static
					if f == nil || inTree[f] || fnPkg(f) == nil || fnPkg(f).Path() != freelistPath || f.Signature.Results().Len() == 0 || !strings.HasSuffix(f.Signature.Results().At(0).Type().String(), "common.Pgid") {
						return
					}
					inTree[f] = true
					tree = append(tree, f)
				}
			})
		}
		exact, larger := 0, 0
		badExact, badLarger := "", ""
		for _, fn := range tree {
			// the request size in this function: its int parameter
			var n *ssa.Parameter
			for _, p := range fn.Params {
				if b, ok := p.Type().Underlying().(*types.Basic); ok && b.Kind() == types.Int {
					n = p
				}
			}
			if n == nil {
				continue
			}
			eachInstr(fn, func(in ssa.Instruction) {
				switch x := in.(type) {
				case *ssa.Lookup:
					// exact match: freemaps[uint64(n)]
					if pathOf(x.X).Last() != fmF {
						return
					}
					if p, ok := stripConv(x.Index).(*ssa.Parameter); ok && p == n && x.CommaOk {
						exact++
					}
				case *ssa.Next:
					// iteration over freemaps: key = span size
					rg, ok := x.Iter.(*ssa.Range)
					if !ok || pathOf(rg.X).Last() != fmF {
						return
					}
					var size ssa.Value
					for _, r := range *x.Referrers() {
						if ex, ok := r.(*ssa.Extract); ok && ex.Index == 1 {
							size = ex
						}
					}
					if size == nil {
						return
					}
					larger++
					for _, sz := range []uint64{1, 2, 3, 4, 9} {
						const req = 3
						r := reachUnder([]*ssa.BasicBlock{x.Block()}, func(v ssa.Value) (V, bool) {
							if v == size {
								return uV(sz), true
							}
							if v == ssa.Value(n) {
								return iV(req), true
							}
							return unkV, false
						})
						handOut := false
						if os.Getenv("VERIF_DEBUG_SPAN") != "" {
							for _, b := range fn.Blocks {
								fmt.Fprintf(os.Stderr, "sz=%d block %d reached=%v\n", sz, b.Index, r[b.Instrs[len(b.Instrs)-1]])
							}
						}
						for _, vr := range virtualReturns(fn, 0) {
							if !r[vr.at] {
								continue
							}
							if k, isC := constInt(vr.val); isC && k == 0 {
								continue
							}
							// a return of an id found during the iteration (the fall-through `return 0` is a constant)
							if x.Block().Dominates(vr.at.Block()) && vr.at.Block() != x.Block() {
								handOut = true
							}
						}
						if sz < req && handOut {
							badLarger = fmt.Sprintf("a span of %d pages can be handed out for a request of %d pages (%s)", sz, req, shortFn(fn))
						}
						if sz >= req && !handOut {
							badLarger = fmt.Sprintf("a span of %d pages cannot serve a request of %d pages (%s)", sz, req, shortFn(fn))
						}
					}
				}
			})
		}
		if exact == 0 {
			badExact = "no lookup of freemaps under the requested page count"
		}
		c.check(id+":freelist.(*hashMap).Allocate:exact-match-keyed-by-n", al, al.Pos(), "the exact-size path looks the span up under the requested page count", exact >= 1, badExact)
		c.check(id+":freelist.(*hashMap).Allocate:larger-span-covers-n", al, al.Pos(), "while iterating over the span sizes, an id is handed out exactly for sizes >= n (tabulated for n=3 over sizes 1,2,3,4,9)", larger >= 1 && badLarger == "", badLarger)
	})
}

// ---------------------------------------------------------------------------------------------
// C11.R10 / C13.R11  second-meta-probing-complete
//
// When meta page 0 is damaged the page size is found by probing for meta page 1 at every power-of-two offset from
// 1 KiB to 16 MiB that lies inside the file. The ONLY reason to skip a candidate is that it lies beyond the end of
// the file: a file need not be a whole number of pages (AllocSize and MaxSize are arbitrary byte counts), so any
// further filter makes Open reject a database whose second meta page is intact (seed C11c).
func ruleSecondMetaProbing(c *Ctx, id string) {
	c.rule(id, "second-meta-probing-complete", 1, func() {
		fn := c.fn("bbolt.(*DB).getPageSizeFromSecondMeta")
		reads := callsIn(fn, "os.(*File).ReadAt")
		if len(reads) == 0 {
			c.check(id+":(*DB).getPageSizeFromSecondMeta:shape", fn, fn.Pos(), "the second meta page is probed with file.ReadAt", false, "no ReadAt found")
			return
		}
		// the function is executed for several file sizes with every probe readable but invalid, so that the loop
		// walks through all its candidates; the offsets handed to ReadAt are recorded
		bad := ""
		rows := 0
		for _, fileSize := range []int64{40000, 3 * 1000 * 1000, 1 << 24, (1 << 24) + 4096 + 7} {
			rows++
			var probed []int64
			ev := &Evaluator{
				MaxSteps: 20000,
				CallN: func(call *ssa.Call, args []V) ([]V, bool) {
					n := calleeOf(call).Name()
					switch {
					case strings.HasSuffix(n, "(*File).ReadAt"):
						if off, ok := args[len(args)-1].Int(); ok {
							probed = append(probed, off)
						} else {
							probed = append(probed, -1)
						}
						return []V{iV(0x1000), nilV}, true
					case strings.HasSuffix(n, "(*File).Stat"):
						return []V{symV("info"), nilV}, true
					}
					return nil, false
				},
				Call: func(call *ssa.Call, args []V) (V, bool) {
					if call.Call.IsInvoke() && call.Call.Method.Name() == "Size" {
						return iV(fileSize), true
					}
					if calleeOf(call).Builtin == "len" {
						return iV(0x1000), true
					}
					if strings.HasSuffix(calleeOf(call).Name(), "(*Meta).Validate") {
						return symV("invalid"), true
					}
					if call.Call.Signature().Results().Len() == 1 {
						return symV("call:" + calleeOf(call).Name()), true
					}
					return unkV, false
				},
				Load:  func(u *ssa.UnOp) (V, bool) { return unkV, false },
				Param: func(p *ssa.Parameter) (V, bool) { return symV("param:" + p.Name()), true },
			}
			o := ev.Exec(fn, nil)
			var want []int64
			for i := uint(0); i <= 14; i++ {
				if pos := int64(1024) << i; pos < fileSize-1024 {
					want = append(want, pos)
				}
			}
			if o.Kind != "return" {
				bad = fmt.Sprintf("file of %d bytes: %s", fileSize, o)
				continue
			}
			if fmt.Sprint(probed) != fmt.Sprint(want) {
				bad = fmt.Sprintf("file of %d bytes: offsets probed %v, want %v", fileSize, probed, want)
			}
		}
		c.check(id+":(*DB).getPageSizeFromSecondMeta:every-candidate-probed", fn, reads[0].Pos(), fmt.Sprintf("every power-of-two offset 1KiB..16MiB that lies inside the file is read, whatever the file size is a multiple of (executed for %d file sizes)", rows), bad == "", bad)
	})
}

// ---------------------------------------------------------------------------------------------
// C14.R8 / C17.R7 / C03.R12  data-file-closed-only-by-close
//
// The descriptor in DB.file carries the database: the file lock, the writer (ops.writeAt is its bound WriteAt), every
// hot backup's section reader. Only (*DB).close may close it. Any other Close whose receiver can be DB.file —
// decided flow-sensitively through local variables and through variables captured by deferred closures — shuts the
// database down under the feet of running transactions: commits and backups in flight fail (seed C14c: WriteTo's
// deferred close of the reopened handle registered BEFORE the fallback `f = tx.db.file`).
func ruleDataFileClosedOnlyByClose(c *Ctx, id string) {
	c.rule(id, "data-file-closed-only-by-close", 2, func() {
		fileF := c.dbField("file")
		storesTo := func(cell ssa.Value) []*ssa.Store {
			var out []*ssa.Store
			if cell.Referrers() == nil {
				return nil
			}
			for _, r := range *cell.Referrers() {
				if st, ok := r.(*ssa.Store); ok && st.Addr == cell {
					out = append(out, st)
				}
			}
			return out
		}
		otherStore := func(cell ssa.Value, self ssa.Instruction) func(ssa.Instruction) bool {
			return func(in ssa.Instruction) bool {
				st, ok := in.(*ssa.Store)
				return ok && st.Addr == cell && in != self
			}
		}
		var may func(v ssa.Value, at ssa.Instruction, depth int) string
		// cellMay: can the cell hold DB.file when the instruction `at` (in the cell's function) executes?
		cellMay := func(cell ssa.Value, at ssa.Instruction, depth int) string {
			for _, st := range storesTo(cell) {
				why := may(st.Val, st, depth+1)
				if why == "" {
					continue
				}
				if reach([]ssa.Instruction{st}, nil, otherStore(cell, st), nil)[at] {
					return why + " (assigned at " + c.P.Position(st.Pos()) + ")"
				}
			}
			return ""
		}
		may = func(v ssa.Value, at ssa.Instruction, depth int) string {
			if depth > 6 || v == nil {
				return ""
			}
			switch x := v.(type) {
			case *ssa.Phi:
				for _, e := range x.Edges {
					if w := may(e, at, depth+1); w != "" {
						return w
					}
				}
			case *ssa.ChangeType:
				return may(x.X, at, depth+1)
			case *ssa.UnOp:
				if x.Op != token.MUL {
					return ""
				}
				switch a := x.X.(type) {
				case *ssa.FieldAddr:
					if fieldOfAddr(a) == fileF {
						return "the receiver is DB.file"
					}
				case *ssa.Alloc:
					return cellMay(a, x, depth)
				case *ssa.FreeVar:
					// a variable of the enclosing function: where does the closure run?
					g := a.Parent()
					parent := g.Parent()
					if parent == nil {
						return ""
					}
					idx := -1
					for i, fv := range g.FreeVars {
						if fv == a {
							idx = i
						}
					}
					verdict := ""
					eachInstr(parent, func(in ssa.Instruction) {
						mc, ok := in.(*ssa.MakeClosure)
						if !ok || mc.Fn != ssa.Value(g) || idx < 0 || idx >= len(mc.Bindings) || verdict != "" {
							return
						}
						cell := mc.Bindings[idx]
						if _, isAlloc := cell.(*ssa.Alloc); !isAlloc {
							// bound by value or from a further closure level: fall back to the value itself
							verdict = may(cell, mc, depth+1)
							return
						}
						for _, r := range *mc.Referrers() {
							switch u := r.(type) {
							case *ssa.Defer:
								// runs at the exits: the stores that are the last one before an exit, on a path through the defer
								for _, st := range storesTo(cell) {
									why := may(st.Val, st, depth+1)
									if why == "" {
										continue
									}
									after := reach([]ssa.Instruction{st}, nil, otherStore(cell, st), nil)
									reachesExit := false
									for in2 := range after {
										switch in2.(type) {
										case *ssa.Return, *ssa.RunDefers:
											reachesExit = true
										}
									}
									if !reachesExit {
										continue
									}
									if after[u] || reach([]ssa.Instruction{u}, nil, nil, nil)[st] {
										verdict = why + " when the deferred closure runs (assigned at " + c.P.Position(st.Pos()) + ", defer registered at " + c.P.Position(u.Pos()) + ")"
									}
								}
							case *ssa.Call:
								if u.Call.Value == ssa.Value(mc) {
									if w := cellMay(cell, u, depth); w != "" {
										verdict = w
									}
								} else if w := cellMay(cell, u, depth); w != "" {
									verdict = w
								}
							default:
								// escapes: any store counts
								for _, st := range storesTo(cell) {
									if w := may(st.Val, st, depth+1); w != "" {
										verdict = w + " (the closure escapes)"
									}
								}
							}
						}
					})
					return verdict
				}
			}
			return ""
		}
		n := 0
		for _, fn := range c.P.FnsIn(rootPkg) {
			if shortFn(topLevel(fn)) == "bbolt.(*DB).close" {
				continue
			}
			for _, ci := range callsIn(fn, "os.(*File).Close") {
				n++
				in := ci.(ssa.Instruction)
				why := may(ci.Common().Args[0], in, 0)
				c.check(fmt.Sprintf("%s:%s:Close#%d", id, shortFn(fn), n), fn, in.Pos(), "a file closed outside (*DB).close is never the database's own handle DB.file (flow-sensitive through locals and deferred closures)", why == "", "this Close can shut the database's data file: "+why)
			}
		}
		cl := c.fn("bbolt.(*DB).close")
		c.check(id+":(*DB).close:closes-DB.file", cl, cl.Pos(), "(*DB).close is the one place that closes DB.file", len(callsIn(cl, "os.(*File).Close")) >= 1, "close no longer closes the file")
	})
}

// ---------------------------------------------------------------------------------------------
// C13.R11 / C01.R12  options-wired-by-name
//
// "Options change performance, never content" presupposes that each option reaches the switch it is documented to
// control. In Open every DB field that is assigned a value derived from a field of *Options must be the field of
// the same name (DB.NoSync <- options.NoSync, DB.pageSize <- options.PageSize, ...): two options of the same type
// swapped (`db.NoGrowSync = options.NoSync`) compile, pass every test that does not crash the machine, and silently
// change the durability contract the caller selected. The eight directly copied options must still be copied.
func ruleOptionsWiredByName(c *Ctx, id string) {
	c.rule(id, "options-wired-by-name", 8, func() {
		open := c.fn("bbolt.Open")
		isOptionsField := func(l leaf) (string, bool) {
			if l.Kind != "field" {
				return "", false
			}
			fp := pathOf(l.V)
			if len(fp.Fields) == 0 {
				return "", false
			}
			f := fp.Fields[len(fp.Fields)-1]
			// the field belongs to struct Options
			opt := c.P.Pkg(rootPkg).Types.Scope().Lookup("Options")
			if opt == nil {
				return "", false
			}
			st, ok := opt.Type().Underlying().(*types.Struct)
			if !ok {
				return "", false
			}
			for i := 0; i < st.NumFields(); i++ {
				if st.Field(i) == f {
					return f.Name(), true
				}
			}
			return "", false
		}
		dbT := c.P.Pkg(rootPkg).Types.Scope().Lookup("DB")
		if dbT == nil {
			panic(anchorErr{"DB"})
		}
		dbS := dbT.Type().Underlying().(*types.Struct)
		isDBField := func(f *types.Var) bool {
			for i := 0; i < dbS.NumFields(); i++ {
				if dbS.Field(i) == f {
					return true
				}
			}
			return false
		}
		copied := map[string]bool{}
		for _, fn := range withAnons(open) {
			eachInstr(fn, func(in ssa.Instruction) {
				st, ok := in.(*ssa.Store)
				if !ok {
					return
				}
				fa, ok := st.Addr.(*ssa.FieldAddr)
				if !ok || !isDBField(fieldOfAddr(fa)) {
					return
				}
				dst := fieldOfAddr(fa).Name()
				for _, l := range provenance(st.Val, provOpts{}) {
					src, ok := isOptionsField(l)
					if !ok {
						continue
					}
					// direct copies only: a value that merely depends on an option through a condition is not a leaf here
					good := strings.EqualFold(src, dst)
					if good {
						copied[src] = true
					}
					c.check(id+":bbolt.Open:DB."+dst+"<-Options."+src, open, st.Pos(), "a DB field that receives an option receives the option of the same name", good,
						"DB."+dst+" is set from options."+src+": the caller's "+src+" setting silently controls "+dst)
				}
			})
		}
		var missing []string
		for _, n := range []string{"NoSync", "NoGrowSync", "NoFreelistSync", "FreelistType", "MmapFlags", "Mlock", "MaxSize", "PreLoadFreelist"} {
			if !copied[n] {
				missing = append(missing, n)
			}
		}
		c.check(id+":bbolt.Open:options-copied", open, open.Pos(), "NoSync, NoGrowSync, NoFreelistSync, FreelistType, MmapFlags, Mlock, MaxSize and PreLoadFreelist are copied from the options into the DB", len(missing) == 0, "not copied any more: "+strings.Join(missing, ", "))
	})
}

// ---------------------------------------------------------------------------------------------
// C05.R7  absolute-positioning-restarts-from-the-root
//
// First, Last and Seek position the cursor "from scratch": they clear the stack and descend from the bucket's
// CURRENT root (page or materialised node). A shortcut that re-uses the stack of an earlier positioning — "the key
// lies inside the leaf we are already on" — reads a page reference that a Put/Delete/CreateBucket of the same
// transaction may have replaced by an in-memory node: Seek then skips inserted keys and returns deleted ones (seed
// C05d). Every return of these functions must therefore be preceded, on every path, by the restart.
func ruleAbsolutePositioningRestarts(c *Ctx, id string) {
	c.rule(id, "absolute-positioning-restarts-from-the-root", 5, func() {
		stackF := c.P.lookupField(rootPkg, "Cursor", "stack")
		if stackF == nil {
			panic(anchorErr{"Cursor.stack"})
		}
		mustPass := func(fn *ssa.Function, isEvent func(ssa.Instruction) bool) string {
			r := reach(nil, []*ssa.BasicBlock{fn.Blocks[0]}, isEvent, nil)
			for _, ret := range returnsOf(fn) {
				if r[ret] {
					return "the return at " + c.P.Position(ret.Pos()) + " is reachable without it"
				}
			}
			return ""
		}
		// wrappers: the exported function reaches its results only through the internal one
		for _, w := range []struct{ outer, inner string }{{"bbolt.(*Cursor).First", "bbolt.(*Cursor).first"}, {"bbolt.(*Cursor).Seek", "bbolt.(*Cursor).seek"}} {
			fn := c.fn(w.outer)
			bad := mustPass(fn, func(in ssa.Instruction) bool { return isCallTo(in, w.inner) })
			c.check(id+":"+w.outer+":via-"+w.inner, fn, fn.Pos(), "every return is preceded by "+w.inner+"() (no shortcut that keeps the previous position's stack)", bad == "", bad)
		}
		// restarts: the stack is cleared and the descent starts at RootPage()
		for _, name := range []string{"bbolt.(*Cursor).first", "bbolt.(*Cursor).Last", "bbolt.(*Cursor).seek"} {
			fn := c.fn(name)
			var resets []ssa.Instruction
			for _, st := range storesToField([]*ssa.Function{fn}, stackF) {
				if sl, ok := st.Val.(*ssa.Slice); ok && sl.High != nil {
					if k, isC := constInt(sl.High); isC && k == 0 {
						resets = append(resets, st.Instr)
					}
				}
			}
			isRestart := func(in ssa.Instruction) bool {
				call, ok := in.(*ssa.Call)
				if !ok {
					return false
				}
				n := calleeOf(call).Name()
				if n != "bbolt.(*Bucket).pageNode" && n != "bbolt.(*Cursor).search" {
					return false
				}
				fromRoot := false
				for _, a := range call.Call.Args {
					for _, l := range provenance(a, provOpts{ThroughCall: throughAll}) {
						if l.Kind == "call" && l.Name == "common.(*InBucket).RootPage" {
							fromRoot = true
						}
					}
				}
				if !fromRoot {
					return false
				}
				for _, rs := range resets {
					if dominates(rs, in) {
						return true
					}
				}
				return false
			}
			bad := mustPass(fn, isRestart)
			if len(resets) == 0 {
				bad = "the stack is never cleared"
			}
			c.check(id+":"+name+":restart", fn, fn.Pos(), "every return is preceded by clearing the stack and descending from the bucket's current RootPage()", bad == "", bad)
		}
	})
}

// ---------------------------------------------------------------------------------------------
// C09.R12 / C10.R10 / C02.R14  one-registration-removed
//
// readonlyTXIDs is a MULTISET: every read transaction registers meta.Txid(), and any number of readers opened
// between two commits share one id. RemoveReadonlyTXID must remove exactly one registration. A routine that filters
// every equal element (slices.DeleteFunc, a loop without break) un-registers all readers of that version at once; the
// next writer then recycles pages an open reader still uses (seed C09d).
func ruleOneRegistrationRemoved(c *Ctx, id string) {
	c.rule(id, "one-registration-removed", 1, func() {
		fn := c.fn("freelist.(*shared).RemoveReadonlyTXID")
		listF := c.P.lookupField(freelistPath, "shared", "readonlyTXIDs")
		if listF == nil {
			panic(anchorErr{"shared.readonlyTXIDs"})
		}
		var stores []fieldStore
		for _, f := range withAnons(fn) {
			stores = append(stores, storesToField([]*ssa.Function{f}, listF)...)
		}
		bad := ""
		if len(stores) == 0 {
			bad = "the reader list is never shortened"
		}
		for _, st := range stores {
			switch v := st.Val.(type) {
			case *ssa.Slice:
			case *ssa.Call:
				b := calleeOf(v).Builtin
				n := calleeOf(v).Name()
				okDel := false
				if calleeOf(v).Static != nil && fnPkg(calleeOf(v).Static) != nil && fnPkg(calleeOf(v).Static).Path() == "slices" && strings.HasPrefix(calleeOf(v).Static.Name(), "Delete[") && len(v.Call.Args) == 3 {
					// slices.Delete(s, i, i+1)
					if bo, ok := v.Call.Args[2].(*ssa.BinOp); ok && bo.Op == token.ADD && bo.X == v.Call.Args[1] {
						if k, isC := constInt(bo.Y); isC && k == 1 {
							okDel = true
						}
					}
				}
				if b != "append" && !okDel {
					bad = "the list is replaced by the result of " + n + ", which may drop more than one registration"
				}
			default:
				bad = fmt.Sprintf("the list is replaced by a %T", st.Val)
			}
			// at most one removal per call: no store to the list is reachable from this one
			r := reach([]ssa.Instruction{st.Instr}, nil, nil, nil)
			for _, st2 := range stores {
				if r[st2.Instr] {
					bad = "after removing one registration the function can remove another (no break after the first match)"
				}
			}
		}
		c.check(id+":freelist.(*shared).RemoveReadonlyTXID:exactly-one", fn, fn.Pos(), "the reader list is shortened by exactly one element per call (re-slice / append / slices.Delete(i,i+1), never continued after the first removal)", bad == "", bad)
	})
}

// ---------------------------------------------------------------------------------------------
// C19.R7  freelist-page-read-verbatim
//
// "Freed twice" is detected by Tx.check on the in-memory list (Copyall). The detector is only as good as the list:
// Read must hand the page's ids to Init as they are (copied and sorted) — a Read that de-duplicates or filters them
// hides exactly the corruption the check is documented to find (seed C19d).
func ruleFreelistReadVerbatim(c *Ctx, id string) {
	c.rule(id, "freelist-page-read-verbatim", 1, func() {
		rd := c.fn("freelist.(*shared).Read")
		bad := ""
		n := 0
		for _, ci := range callsIn(rd, "freelist.Interface.Init") {
			arg := ci.Common().Args[0]
			n++
			// allowed producers of the list: the page's ids, a make+copy / Clone of them, an empty literal; sorting is in place
			seen := map[ssa.Value]bool{}
			var walk func(v ssa.Value, d int)
			walk = func(v ssa.Value, d int) {
				if v == nil || seen[v] || d > 6 || bad != "" {
					return
				}
				seen[v] = true
				switch x := v.(type) {
				case *ssa.Phi:
					for _, e := range x.Edges {
						walk(e, d+1)
					}
				case *ssa.ChangeType:
					walk(x.X, d+1)
				case *ssa.Convert:
					walk(x.X, d+1)
				case *ssa.MakeSlice, *ssa.Const, *ssa.Slice, *ssa.Alloc:
				case *ssa.UnOp:
					walk(resolveCell(x), d+1)
				case *ssa.Call:
					name := calleeOf(x).Name()
					st := calleeOf(x).Static
					isSlicesClone := st != nil && fnPkg(st) != nil && fnPkg(st).Path() == "slices" && strings.HasPrefix(st.Name(), "Clone[")
					switch {
					case name == "common.(*Page).FreelistPageIds", isSlicesClone, name == "slices.Clone":
					case calleeOf(x).Builtin == "append" && len(x.Call.Args) == 2 && isNilConst(stripConv(x.Call.Args[0])):
					default:
						bad = "the ids handed to Init pass through " + name + ": the list is no longer the page's list (duplicates / entries may be dropped before the integrity check sees them)"
					}
				}
			}
			walk(arg, 0)
		}
		// no compaction of the list in Read at all
		eachInstr(rd, func(in ssa.Instruction) {
			if call, ok := in.(*ssa.Call); ok {
				if st := calleeOf(call).Static; st != nil && fnPkg(st) != nil && fnPkg(st).Path() == "slices" && (strings.HasPrefix(st.Name(), "Compact") || strings.HasPrefix(st.Name(), "DeleteFunc")) {
					bad = "Read filters the id list with slices." + st.Name()
				}
			}
		})
		c.check(id+":freelist.(*shared).Read:verbatim", rd, rd.Pos(), "Read hands the freelist page's ids to Init unfiltered (copied and sorted only): a page listed twice stays listed twice for Tx.Check to report", bad == "" && n >= 1, bad)
	})
}

// ---------------------------------------------------------------------------------------------
// C09.R13  span-removals-precede-insertions
//
// The hash-map backend indexes every free span three times (freemaps by size, forwardMap by first page, backwardMap
// by LAST page). Wherever a span is replaced by a span that shares an end page with it — the remainder of a split in
// Allocate, the union of a merge in mergeWithExistingSpan — the old span must be removed BEFORE the new one is
// inserted: delSpan after addSpan deletes the backwardMap (or forwardMap) entry the insertion just wrote, the span
// can no longer be found by its end page, later releases are not merged with it and a run that exists is reported
// as unavailable although the array backend finds it (seed C09d).
func ruleSpanRemovalsPrecedeInsertions(c *Ctx, id string) {
	c.rule(id, "span-removals-precede-insertions", 1, func() {
		n := 0
		for _, fn := range c.P.FnsIn(freelistPath) {
			adds := callsIn(fn, "freelist.(*hashMap).addSpan")
			dels := callsIn(fn, "freelist.(*hashMap).delSpan")
			if len(adds) == 0 || len(dels) == 0 {
				continue
			}
			n++
			bad := ""
			for _, a := range adds {
				r := reach([]ssa.Instruction{a.(ssa.Instruction)}, nil, nil, nil)
				for _, d := range dels {
					if r[d.(ssa.Instruction)] {
						bad = "delSpan at " + c.P.Position(d.Pos()) + " can run after addSpan at " + c.P.Position(a.Pos())
					}
				}
			}
			c.check(id+":"+shortFn(fn)+":del-before-add", fn, fn.Pos(), "where a span is replaced, every delSpan precedes every addSpan (the two spans share an end page in backwardMap / a first page in forwardMap)", bad == "", bad)
		}
	})
}

// ---------------------------------------------------------------------------------------------
// C17.R8 / C02.R15  mapping-forgotten-only-with-unmap
//
// DB.dataref / data / datasz describe the live mapping. They may be cleared only together with the platform munmap:
// a path that forgets the mapping without unmapping it (e.g. an error rollback that merely "invalidates") leaks the
// mapping for the life of the process — and on Linux a mapping keeps the file's flock alive after the descriptor is
// closed, so a failed read-only Open keeps its shared lock and every read-write Open times out (seed C17d).
func ruleMappingForgottenOnlyWithUnmap(c *Ctx, id string) {
	c.rule(id, "mapping-forgotten-only-with-unmap", 2, func() {
		datarefF := c.dbField("dataref")
		um := c.fn("bbolt.(*DB).munmap")
		okUnmap := len(callsIn(um, "bbolt.munmap")) >= 1
		for _, f := range withAnons(um) {
			if len(callsIn(f, "bbolt.munmap")) >= 1 {
				okUnmap = true
			}
		}
		c.check(id+":(*DB).munmap:calls-platform-munmap", um, um.Pos(), "db.munmap calls the platform munmap", okUnmap, "db.munmap no longer unmaps")
		// every function that clears DB.dataref is the platform munmap itself, or is only reached from db.munmap
		for _, st := range storesToField(c.P.FnsIn(rootPkg), datarefF) {
			if !isNilConst(st.Val) {
				continue
			}
			top := topLevel(st.Fn)
			name := shortFn(top)
			ok := name == "bbolt.munmap" || name == "bbolt.(*DB).munmap"
			detail := ""
			if !ok {
				callers := c.callerNames(top)
				ok = len(callers) > 0
				for _, cn := range callers {
					base := cn
					if i := strings.Index(cn, "$"); i >= 0 {
						base = cn[:i]
					}
					if base != "bbolt.(*DB).munmap" && base != "bbolt.munmap" {
						ok = false
						detail = name + " clears the mapping description and is called from " + cn + ", which does not unmap"
					}
				}
				if len(callers) == 0 {
					detail = name + " clears the mapping description outside the unmap path"
				}
			}
			c.check(id+":"+name+":clears-dataref", st.Fn, st.Instr.Pos(), "the mapping description is cleared only by the unmap path (platform munmap, db.munmap and what only db.munmap calls)", ok, detail)
		}
	})
}

// ---------------------------------------------------------------------------------------------
// C04.R16 / C15.R7 / C07.R14  every-cached-child-bucket-is-spilled
//
// Bucket.spill walks the per-transaction cache b.buckets. Every cached child must be either written inline or
// spilled recursively — unconditionally: whether the child ITSELF has materialised nodes says nothing about its own
// cached descendants (a bucket opened only on the way down to a nested bucket that was modified). A shortcut that
// skips "clean" children drops the writes made to their descendants at commit (seed C15d: Compact with nested
// buckets three levels deep loses the innermost level).
func ruleEveryCachedChildSpilled(c *Ctx, id string) {
	c.rule(id, "every-cached-child-bucket-is-spilled", 1, func() {
		fn := c.fn("bbolt.(*Bucket).spill")
		bucketsF := c.P.lookupField(rootPkg, "Bucket", "buckets")
		var next *ssa.Next
		eachInstr(fn, func(in ssa.Instruction) {
			if nx, ok := in.(*ssa.Next); ok {
				if rg, ok := nx.Iter.(*ssa.Range); ok && pathOf(rg.X).Last() == bucketsF {
					next = nx
				}
			}
		})
		if next == nil {
			c.check(id+":(*Bucket).spill:loop", fn, fn.Pos(), "spill iterates over the cached child buckets", false, "no range over b.buckets")
			return
		}
		// the body: the successor taken when the iterator yields an element
		var body *ssa.BasicBlock
		for _, r := range *next.Referrers() {
			if ex, ok := r.(*ssa.Extract); ok && ex.Index == 0 {
				for _, rr := range *ex.Referrers() {
					if iff, ok := rr.(*ssa.If); ok {
						body = iff.Block().Succs[0]
					}
				}
			}
		}
		bad := ""
		if body == nil {
			bad = "loop body not found"
		} else {
			isEvent := func(in ssa.Instruction) bool {
				return isCallTo(in, "bbolt.(*Bucket).spill") || isCallTo(in, "bbolt.(*Bucket).write")
			}
			r := reach(nil, []*ssa.BasicBlock{body}, isEvent, nil)
			if r[next] {
				bad = "an iteration can end without the child having been spilled or written inline (a skipped child's cached descendants are never written)"
			}
			for _, ret := range returnsOf(fn) {
				if r[ret] && classifyReturn(ret) != retError {
					bad = "the function can return from inside the loop without the child having been spilled"
				}
			}
		}
		c.check(id+":(*Bucket).spill:every-child", fn, next.Pos(), "every cached child bucket is spilled recursively or written inline, on every path of the loop body", bad == "", bad)
	})
}


// ---------------------------------------------------------------------------------------------
// C09.R14 / C13.R14  span-indexes-updated-together
//
// The hash-map backend keeps three indexes of the same spans: freemaps (by size), forwardMap (by first page) and
// backwardMap (by last page). A function that edits one of them for a span must edit all three (addSpan and delSpan
// do); a "shrink in place" that re-keys forwardMap and freemaps but leaves backwardMap at the old size makes a later
// merge pull live pages back into a free span — only on this backend, so content depends on FreelistType (seed C13d).
func ruleSpanIndexesTogether(c *Ctx, id string) {
	c.rule(id, "span-indexes-updated-together", 2, func() {
		fields := map[string]*types.Var{}
		for _, n := range []string{"freemaps", "forwardMap", "backwardMap"} {
			fields[n] = c.P.lookupField(freelistPath, "hashMap", n)
			if fields[n] == nil {
				panic(anchorErr{"hashMap." + n})
			}
		}
		for _, fn := range c.P.FnsIn(freelistPath) {
			touched := map[string]bool{}
			eachInstr(fn, func(in ssa.Instruction) {
				var m ssa.Value
				switch x := in.(type) {
				case *ssa.MapUpdate:
					m = x.Map
				case *ssa.Call:
					if calleeOf(x).Builtin == "delete" {
						m = x.Call.Args[0]
					}
				}
				if m == nil {
					return
				}
				fp := pathOf(m)
				for n, f := range fields {
					if fp.Has(f) {
						touched[n] = true
					}
				}
				// freemaps[size][start] = ... : the inner map is a lookup in freemaps
				for _, l := range provenance(m, provOpts{}) {
					if lk, ok := l.V.(*ssa.Lookup); ok && pathOf(lk.X).Last() == fields["freemaps"] {
						touched["freemaps"] = true
					}
				}
			})
			if len(touched) == 0 {
				continue
			}
			var missing []string
			for n := range fields {
				if !touched[n] {
					missing = append(missing, n)
				}
			}
			sort.Strings(missing)
			c.check(id+":"+shortFn(fn)+":all-three", fn, fn.Pos(), "a function that edits one span index (freemaps / forwardMap / backwardMap) edits all three", len(missing) == 0, "not updated: "+strings.Join(missing, ", "))
		}
	})
}

// ---------------------------------------------------------------------------------------------
// C05.R8  descent-compares-at-every-level
//
// search() finds the leaf for a key by comparing at EVERY level: a branch key is only a lower bound for its subtree
// ("separator"), and inside a write transaction it can be stale (a smaller key inserted below it is reflected in the
// parent only at commit). A shortcut "the seek key equals this branch key, so it is the first key of the subtree"
// therefore returns the wrong element under uncommitted inserts (seed C05e). Every return of searchNode / searchPage
// must be preceded by the recursive search of the chosen child.
func ruleDescentComparesEveryLevel(c *Ctx, id string) {
	c.rule(id, "descent-compares-at-every-level", 2, func() {
		for _, name := range []string{"bbolt.(*Cursor).searchNode", "bbolt.(*Cursor).searchPage"} {
			fn := c.fn(name)
			r := reach(nil, []*ssa.BasicBlock{fn.Blocks[0]}, func(in ssa.Instruction) bool { return isCallTo(in, "bbolt.(*Cursor).search") }, nil)
			bad := ""
			for _, ret := range returnsOf(fn) {
				if r[ret] {
					bad = "the return at " + c.P.Position(ret.Pos()) + " is reachable without searching the chosen child"
				}
			}
			c.check(id+":"+name+":recurses", fn, fn.Pos(), "every return is preceded by c.search(key, <child>) — no level is skipped on the strength of a separator key", bad == "", bad)
		}
	})
}

// ---------------------------------------------------------------------------------------------
// C09.R15 / C08.R10  reload-goes-through-read
//
// Reload(p) re-creates the free list from the committed freelist page after a failed commit. It must do so through
// Read (which validates the page type, copies and SORTS the ids and resets the backend) and only then filter out the
// still-pending ids with NoSyncReload(freePageIds()). Feeding the page's ids to NoSyncReload directly skips the sort
// (the array backend and the span builder of the hash map assume sorted input) and the reset (seed C09e).
func ruleReloadGoesThroughRead(c *Ctx, id string) {
	c.rule(id, "reload-goes-through-read", 2, func() {
		fn := c.fn("freelist.(*shared).Reload")
		isRead := func(in ssa.Instruction) bool {
			return isCallTo(in, "freelist.(*shared).Read", "freelist.Interface.Read", "freelist.ReadWriter.Read")
		}
		r := reach(nil, []*ssa.BasicBlock{fn.Blocks[0]}, isRead, nil)
		bad := ""
		for _, ret := range returnsOf(fn) {
			if r[ret] {
				bad = "Reload can return without having called Read"
			}
		}
		c.check(id+":freelist.(*shared).Reload:via-Read", fn, fn.Pos(), "Reload re-reads the page with Read (type check, private sorted copy, backend reset) on every path", bad == "", bad)
		bad = ""
		n := 0
		for _, ci := range callsIn(fn, "freelist.(*shared).NoSyncReload", "freelist.Interface.NoSyncReload") {
			n++
			ok := false
			for _, l := range provenance(ci.Common().Args[len(ci.Common().Args)-1], provOpts{}) {
				if l.Kind == "call" && (strings.HasSuffix(l.Name, ".freePageIds")) {
					ok = true
				}
				if l.Kind == "call" && strings.HasSuffix(l.Name, "FreelistPageIds") {
					ok = false
					bad = "NoSyncReload is fed the page's own id slice (unsorted, not yet installed in the backend)"
				}
			}
			if !ok && bad == "" {
				bad = "NoSyncReload is not given the backend's free ids"
			}
			if r[ci.(ssa.Instruction)] {
				bad = "NoSyncReload can run before Read"
			}
		}
		c.check(id+":freelist.(*shared).Reload:filters-what-Read-installed", fn, fn.Pos(), "the pending ids are filtered out of the list Read installed (NoSyncReload(freePageIds()) after Read)", bad == "" && n >= 1, bad)
	})
}

// ---------------------------------------------------------------------------------------------
// C14.R9 / C12.R13  backup-meta-buffer-is-one-page
//
// WriteTo emits the two meta pages from one buffer and then the data from offset 2*pageSize. The buffer must be
// exactly db.pageSize bytes: a constant (the default page size) is right only on databases whose page size happens to
// equal it; on any other the copy's meta 1 does not start at page 1 and the data is shifted (seed C14e).
func ruleBackupMetaBufferOnePage(c *Ctx, id string) {
	c.rule(id, "backup-meta-buffer-is-one-page", 1, func() {
		fn := c.fn("bbolt.(*Tx).WriteTo")
		pageSizeF := c.dbField("pageSize")
		n := 0
		bad := ""
		eachInstr(fn, func(in ssa.Instruction) {
			mk, ok := in.(*ssa.MakeSlice)
			if !ok {
				return
			}
			if b, ok := mk.Type().Underlying().(*types.Slice); !ok || !isByte(b.Elem()) {
				return
			}
			n++
			fromField := false
			for _, l := range provenance(mk.Len, provOpts{}) {
				if l.Kind == "field" && pathOf(l.V).Last() == pageSizeF {
					fromField = true
				}
			}
			if _, isC := constInt(mk.Len); isC || !fromField {
				bad = "the meta buffer made at " + c.P.Position(mk.Pos()) + " is not sized by db.pageSize"
			}
		})
		c.check(id+":(*Tx).WriteTo:meta-buffer", fn, fn.Pos(), "the buffer the two meta pages are written from is db.pageSize bytes long", bad == "" && n >= 1, bad)
	})
}

func isByte(t types.Type) bool {
	b, ok := t.Underlying().(*types.Basic)
	return ok && (b.Kind() == types.Byte || b.Kind() == types.Uint8)
}

// ---------------------------------------------------------------------------------------------
// C19.R8  every-nested-bucket-is-checked
//
// recursivelyCheckBucket must descend into EVERY nested bucket, inline ones included: an inline bucket owns no
// pages, but its embedded page is checked like any other (type, key order). The decision to descend may depend on
// the entry being a bucket and on the bucket opening — never on the SIZE of the entry's value (seed C19e skips
// every entry longer than the bare header, i.e. all inline buckets).
func ruleEveryNestedBucketChecked(c *Ctx, id string) {
	c.rule(id, "every-nested-bucket-is-checked", 1, func() {
		fn := c.fn("bbolt.(*Tx).recursivelyCheckBucket")
		var recs []*ssa.Call
		for _, f := range withAnons(fn) {
			recs = append(recs, plainCallsIn(f, "bbolt.(*Tx).recursivelyCheckBucket")...)
		}
		bad := ""
		if len(recs) == 0 {
			bad = "nested buckets are not checked recursively"
		}
		for _, rc := range recs {
			conds := controllingConds(rc)
			for _, cv := range append([]ssa.Value{}, conds...) {
				conds = append(conds, shortCircuitConds(cv)...)
			}
			for _, cv := range conds {
				for _, l := range provenance(cv, provOpts{ThroughCall: throughAll}) {
					if l.Kind == "call" && l.Name == "builtin:len" {
						bad = "whether a nested bucket is checked depends on a length at " + c.P.Position(rc.Pos()) + ": inline buckets (whose value is longer than the bare header) are skipped"
					}
				}
			}
		}
		c.check(id+":(*Tx).recursivelyCheckBucket:descends-into-every-bucket", fn, fn.Pos(), "the recursive check of a nested bucket is not conditioned on the size of its entry", bad == "", bad)
	})
}
