package main

import (
	"encoding/json"
	"flag"
	"fmt"
	"os"
	"os/exec"
	"path/filepath"
	"sort"
	"strconv"
	"strings"
	"sync"
	"time"
)

type platform struct{ GOOS, GOARCH string }

// propDef describes how one property is decided.
type propDef struct {
	ID          string
	Explanation string // which clause is decided, and what is not
	Assumptions []string
	Run         func(c *Ctx)   // all rules, host configuration, whole module
	Platform    func(c *Ctx)   // sibling rules, evaluated on the root package per extra platform (thorough)
	Platforms   []platform     // extra platforms for Platform
	CHA         func(c *Ctx)   // allow-list rules re-evaluated under the CHA call graph (thorough)
	Thorough    func(r *runResult, repo string) // extra, program-independent work (e.g. layouts per arch)
}

var registry = map[string]*propDef{}

func register(p *propDef) { registry[p.ID] = p }

var commonAssumptions = []string{
	"go/types and go/ssa (x/tools v0.29.0) model the source faithfully; build constraints are those of the analysed GOOS/GOARCH",
	"VTA call graph over a CHA seed is sound for static calls, interface calls and func-typed fields in the module (no reflection, no cgo, no linkname in the subject packages)",
	"kernel semantics of fdatasync/fsync, flock/fcntl, mmap(PROT_READ), ftruncate are as documented",
	"lock identity abstraction: one DB per transaction (locks are identified by the sync.Mutex/RWMutex field object of DB)",
	"panics (common.Assert, StrictMode) are not exits for pairing rules",
}

type mutantResult struct {
	Name     string   `json:"name"`
	Expect   string   `json:"expect"`
	Benign   bool     `json:"benign,omitempty"` // a behaviour-preserving edit: the checks must stay silent
	Applied  bool     `json:"applied"`
	Detected bool     `json:"detected"`
	Fired    []string `json:"fired,omitempty"`
	Note     string   `json:"note,omitempty"`
}

type childOut struct {
	Failed []Obligation `json:"failed"`
	Error  string       `json:"error,omitempty"`
}

func main() {
	var (
		prop    = flag.String("prop", "", "property id (C01..C20)")
		tier    = flag.String("tier", "quick", "quick | thorough")
		repo    = flag.String("repo", "/repo", "repository working tree to analyse")
		verif   = flag.String("verif", "/verif", "verification directory (evidence, known findings, mutants)")
		only    = flag.String("only", "", "re-evaluate and print only the obligation with this key")
		child   = flag.Bool("child", false, "internal: print failed obligations as JSON, write nothing")
		list    = flag.Bool("list", false, "list obligations")
		noMut   = flag.Bool("nomutants", false, "thorough without the sensitivity self-test")
		replayF = flag.String("replay", "", "replay file: re-evaluate the obligation it names")
		survey  = flag.String("survey", "", "write a generic mutation survey to this file (measurement, not a check)")
		surveyN = flag.Int("survey-limit", 0, "limit the number of survey mutants (0 = all)")
		par     = flag.Int("par", 8, "parallel children for the survey")
	)
	flag.Parse()
	if *survey != "" {
		abs, _ := filepath.Abs(*repo)
		runSurvey(abs, *survey, *par, *surveyN)
		return
	}
	if *prop == "ALL" && *child {
		runAllChild(*repo)
		return
	}
	start := time.Now()
	if *replayF != "" {
		b, err := os.ReadFile(*replayF)
		if err != nil {
			fmt.Fprintln(os.Stderr, err)
			os.Exit(2)
		}
		var rf replayFile
		if err := json.Unmarshal(b, &rf); err != nil {
			fmt.Fprintln(os.Stderr, err)
			os.Exit(2)
		}
		*prop, *only = rf.Property, rf.Key
	}
	def := registry[*prop]
	if def == nil {
		fmt.Fprintf(os.Stderr, "unknown property %q; known: %v\n", *prop, sortedKeys(registry))
		os.Exit(2)
	}
	if env := os.Getenv("VERIF_TIER"); env != "" && *tier == "" {
		*tier = env
	}
	seed := 0
	if s := os.Getenv("VERIF_SEED"); s != "" {
		seed, _ = strconv.Atoi(s)
	}
	abs, _ := filepath.Abs(*repo)
	*repo = abs

	res := &runResult{Prop: def.ID, Tier: *tier, Fns: map[string]bool{}, Extra: map[string]any{}}

	// ---- host configuration, whole module
	p, err := LoadProg(*repo, "", "")
	if err != nil {
		c := newCtx(def.ID, nil)
		c.add(def.ID+".R0:load-failure", "", 0, "repository loads and type-checks", false, false, err.Error())
		res.merge(c)
	} else {
		res.Packages = len(p.Pkgs)
		c := newCtx(def.ID, p)
		def.Run(c)
		res.merge(c)
		if *tier == "thorough" && def.CHA != nil {
			cc := newCtx(def.ID, p)
			cc.cgMode = "cha"
			cc.Platform = "cha"
			def.CHA(cc)
			res.merge(cc)
			res.CHAChecked = true
		}
	}
	p = nil

	// ---- thorough: platform matrix
	if *tier == "thorough" && *only == "" {
		if def.Platform != nil {
			for _, pl := range def.Platforms {
				pp, err := LoadProg(*repo, pl.GOOS, pl.GOARCH, ".")
				name := pl.GOOS + "/" + pl.GOARCH
				res.Platforms = append(res.Platforms, name)
				if err != nil {
					c := newCtx(def.ID, nil)
					c.Platform = name
					c.add(def.ID+".R0:load-failure", "", 0, "root package loads for "+name, false, false, err.Error())
					res.merge(c)
					continue
				}
				c := newCtx(def.ID, pp)
				def.Platform(c)
				res.merge(c)
			}
		}
		if def.Thorough != nil {
			def.Thorough(res, *repo)
		}
	}

	// ---- filter for -only
	if *only != "" {
		var keep []Obligation
		for _, o := range res.Obs {
			if o.Key == *only {
				keep = append(keep, o)
			}
		}
		if len(keep) == 0 {
			fmt.Printf("obligation %q not found on this tree (the construct it names no longer exists)\n", *only)
			os.Exit(1)
		}
		for _, o := range keep {
			b, _ := json.MarshalIndent(o, "", " ")
			fmt.Println(string(b))
			if !o.OK {
				fmt.Printf("VIOLATION property=%s replay=%s\n", def.ID, *replayF)
				os.Exit(1)
			}
		}
		os.Exit(0)
	}

	var failed []Obligation
	for _, o := range res.Obs {
		if !o.OK {
			failed = append(failed, o)
		}
	}
	if *child {
		b, _ := json.Marshal(childOut{Failed: failed})
		fmt.Println("CHILD-RESULT " + string(b))
		os.Exit(0)
	}

	// ---- thorough: sensitivity self-test
	selfTestBroken := false
	if *tier == "thorough" && !*noMut {
		baseFailed := map[string]bool{}
		for _, o := range failed {
			baseFailed[o.Key] = true
		}
		res.Mutants = runMutants(def.ID, *repo, *verif, baseFailed)
		res.Mutants = append(res.Mutants, runSeeds(def.ID, *repo, *verif, baseFailed)...)
		for _, m := range res.Mutants {
			if m.Applied && !m.Benign && !m.Detected {
				selfTestBroken = true
			}
			if m.Applied && m.Benign && len(m.Fired) > 0 {
				selfTestBroken = true // a false alarm on a behaviour-preserving edit
			}
		}
	}

	// ---- known findings
	known, kerr := loadKnown(filepath.Join(*verif, "known_findings.jsonl"))
	if kerr != nil {
		fmt.Fprintln(os.Stderr, "known findings unreadable:", kerr)
		os.Exit(2)
	}
	knownByKey := map[string]knownFinding{}
	for _, k := range known {
		if k.Property == def.ID && k.Status == "known" {
			knownByKey[k.Key] = k
		}
	}

	// ---- report
	for _, rs := range res.Rules {
		fmt.Printf("RULE %s %s instances=%d floor=%d violations=%d\n", rs.Rule, rs.Title, rs.Instances, rs.Floor, rs.Violated)
	}
	if *list {
		for _, o := range res.Obs {
			st := "ok  "
			if !o.OK {
				st = "FAIL"
			}
			fmt.Printf("  %s %-60s %-18s %s\n", st, o.Key, o.Site, o.Fact)
		}
	}
	fns := sortedKeys(res.Fns)
	fmt.Printf("ANALYSED packages=%d functions=%d obligations=%d platforms=%v\n", res.Packages, len(fns), len(res.Obs), res.Platforms)
	for _, m := range res.Mutants {
		if m.Benign {
			fmt.Printf("BENIGN %s applied=%v silent=%v fired=%v %s\n", m.Name, m.Applied, len(m.Fired) == 0, m.Fired, m.Note)
			continue
		}
		fmt.Printf("MUTANT %s expect=%s applied=%v detected=%v %s\n", m.Name, m.Expect, m.Applied, m.Detected, m.Note)
	}

	replayDir := filepath.Join(*verif, "evidence", "replay")
	_ = os.MkdirAll(replayDir, 0o755)
	old, _ := filepath.Glob(filepath.Join(replayDir, def.ID+"-*.json"))
	for _, f := range old {
		_ = os.Remove(f)
	}
	violations := 0
	var out []string
	for _, o := range failed {
		if k, ok := knownByKey[o.Key]; ok {
			out = append(out, fmt.Sprintf("KNOWN-FINDING: property=%s %s %s", def.ID, o.Key, k.What))
			continue
		}
		violations++
		path := filepath.Join(replayDir, fmt.Sprintf("%s-%d.json", def.ID, violations))
		rf := replayFile{Property: def.ID, Rule: o.Rule, Key: o.Key, Site: o.Site, Fn: o.Fn, Fact: o.Fact, Detail: o.Detail,
			Platform: o.Platform, Replay: fmt.Sprintf("/verif/bin/check %s quick --replay %s", def.ID, path), Ob: o}
		b, _ := json.MarshalIndent(rf, "", " ")
		_ = os.WriteFile(path, b, 0o644)
		fmt.Printf("FAIL %s at %s in %s: %s\n     %s\n", o.Key, o.Site, o.Fn, o.Fact, strings.ReplaceAll(o.Detail, "\n", "\n     "))
		out = append(out, fmt.Sprintf("VIOLATION property=%s replay=%s", def.ID, path))
	}
	sort.Strings(out)
	if err := writeEvidence(filepath.Join(*verif, "evidence"), res, def.Explanation, append(append([]string{}, commonAssumptions...), def.Assumptions...), time.Since(start), seed, violations); err != nil {
		fmt.Fprintln(os.Stderr, "evidence:", err)
		os.Exit(2)
	}
	for _, l := range out {
		fmt.Println(l)
	}
	if violations > 0 {
		os.Exit(1)
	}
	if selfTestBroken {
		fmt.Println("SELFTEST-BROKEN: a catalogued mutant applied but was not detected, or a behaviour-preserving edit raised an alarm (checker defect, not a property violation)")
		os.Exit(2)
	}
	fmt.Printf("OK property=%s tier=%s obligations=%d wall=%.1fs\n", def.ID, *tier, len(res.Obs), time.Since(start).Seconds())
}

// mutantSpec is one entry of /verif/mutants/<ID>.json: an exact-once textual
// replacement in one file of the current tree.
type mutantSpec struct {
	Name   string `json:"name"`
	Expect string `json:"expect"` // rule id that must fire
	File   string `json:"file"`
	Old    string `json:"old"`
	New    string `json:"new"`
	Why    string `json:"why,omitempty"`
	Benign bool   `json:"benign,omitempty"`
	Edits  []struct {
		File string `json:"file"`
		Old  string `json:"old"`
		New  string `json:"new"`
	} `json:"edits,omitempty"`
}

// runMutants applies each catalogued mutation of the property to a scratch
// copy of the current tree and requires the expected rule to fire on a
// construct that does not fail on the unmutated tree.
func runMutants(prop, repo, verif string, baseFailed map[string]bool) []mutantResult {
	b, err := os.ReadFile(filepath.Join(verif, "mutants", prop+".json"))
	if err != nil {
		return nil
	}
	var specs []mutantSpec
	if err := json.Unmarshal(b, &specs); err != nil {
		return []mutantResult{{Name: "catalogue", Applied: true, Note: "unreadable catalogue: " + err.Error()}}
	}
	results := make([]mutantResult, len(specs))
	self, _ := os.Executable()
	sem := make(chan struct{}, 8)
	var wg sync.WaitGroup
	for i, sp := range specs {
		wg.Add(1)
		go func(i int, sp mutantSpec) {
			defer wg.Done()
			sem <- struct{}{}
			defer func() { <-sem }()
			results[i] = runMutant(self, prop, repo, sp, baseFailed)
		}(i, sp)
	}
	wg.Wait()
	return results
}

func runMutant(self, prop, repo string, sp mutantSpec, baseFailed map[string]bool) mutantResult {
	m := mutantResult{Name: sp.Name, Expect: sp.Expect, Benign: sp.Benign}
	dir, err := os.MkdirTemp("", "verif-mut-")
	if err != nil {
		m.Note = err.Error()
		return m
	}
	defer os.RemoveAll(dir)
	if out, err := exec.Command("rsync", "-a", "--exclude", ".git", repo+"/", dir+"/").CombinedOutput(); err != nil {
		m.Note = "copy failed: " + string(out)
		return m
	}
	edits := sp.Edits
	if sp.File != "" && sp.Old != "" {
		edits = append(edits, struct {
			File string `json:"file"`
			Old  string `json:"old"`
			New  string `json:"new"`
		}{sp.File, sp.Old, sp.New})
	}
	for _, e := range edits {
		path := filepath.Join(dir, e.File)
		src, err := os.ReadFile(path)
		if err != nil {
			m.Note = "skipped: " + err.Error()
			return m
		}
		if n := strings.Count(string(src), e.Old); n != 1 {
			m.Note = fmt.Sprintf("skipped: the text to mutate occurs %d times in %s on the current tree", n, e.File)
			return m
		}
		if err := os.WriteFile(path, []byte(strings.Replace(string(src), e.Old, e.New, 1)), 0o644); err != nil {
			m.Note = err.Error()
			return m
		}
	}
	m.Applied = true
	c := exec.Command(self, "-child", "-prop", prop, "-tier", "quick", "-repo", dir)
	c.Env = os.Environ()
	out, err := c.Output()
	if err != nil {
		m.Note = "child failed: " + err.Error()
		return m
	}
	var co childOut
	found := false
	for _, line := range strings.Split(string(out), "\n") {
		if strings.HasPrefix(line, "CHILD-RESULT ") {
			if json.Unmarshal([]byte(strings.TrimPrefix(line, "CHILD-RESULT ")), &co) == nil {
				found = true
			}
		}
	}
	if !found {
		m.Note = "child produced no result"
		return m
	}
	seen := map[string]bool{}
	for _, o := range co.Failed {
		if baseFailed[o.Key] {
			continue
		}
		if !seen[o.Rule] {
			seen[o.Rule] = true
			m.Fired = append(m.Fired, o.Rule)
		}
		if o.Rule == "R0" || strings.HasSuffix(o.Rule, ".R0") {
			m.Note = "catalogue error, mutant does not compile (skipped): " + firstLine(o.Detail)
			m.Applied = false
		}
		if o.Rule == m.Expect {
			m.Detected = true
		}
	}
	sort.Strings(m.Fired)
	return m
}

// runSeeds replays every kept seeded change of this property (/verif/seeded/<dir>/patch.diff whose meta.json names
// the property) on a scratch copy of the current tree: the property's own rules must report it. A patch that no
// longer applies to an edited tree is skipped and listed.
func runSeeds(prop, repo, verif string, baseFailed map[string]bool) []mutantResult {
	metas, _ := filepath.Glob(filepath.Join(verif, "seeded", "*", "meta.json"))
	sort.Strings(metas)
	type seedJob struct{ name, patch string }
	var jobs []seedJob
	for _, mf := range metas {
		b, err := os.ReadFile(mf)
		if err != nil {
			continue
		}
		var meta struct {
			Property string `json:"property"`
		}
		if json.Unmarshal(b, &meta) != nil || meta.Property != prop {
			continue
		}
		d := filepath.Dir(mf)
		jobs = append(jobs, seedJob{"seed:" + filepath.Base(d), filepath.Join(d, "patch.diff")})
	}
	results := make([]mutantResult, len(jobs))
	self, _ := os.Executable()
	sem := make(chan struct{}, 8)
	var wg sync.WaitGroup
	for i, j := range jobs {
		wg.Add(1)
		go func(i int, j seedJob) {
			defer wg.Done()
			sem <- struct{}{}
			defer func() { <-sem }()
			m := mutantResult{Name: j.name, Expect: prop + ".*"}
			defer func() { results[i] = m }()
			dir, err := os.MkdirTemp("", "verif-seed-")
			if err != nil {
				m.Note = err.Error()
				return
			}
			defer os.RemoveAll(dir)
			if out, err := exec.Command("rsync", "-a", "--exclude", ".git", repo+"/", dir+"/").CombinedOutput(); err != nil {
				m.Note = "copy failed: " + string(out)
				return
			}
			ap := exec.Command("git", "apply", "--whitespace=nowarn", j.patch)
			ap.Dir = dir
			ap.Env = append(os.Environ(), "GIT_CEILING_DIRECTORIES="+filepath.Dir(dir))
			if out, err := ap.CombinedOutput(); err != nil {
				m.Note = "skipped: the seeded patch does not apply to the current tree: " + firstLine(string(out))
				return
			}
			m.Applied = true
			c := exec.Command(self, "-child", "-prop", prop, "-tier", "quick", "-repo", dir)
			c.Env = os.Environ()
			out, err := c.Output()
			if err != nil {
				m.Note = "child failed: " + err.Error()
				return
			}
			var co childOut
			found := false
			for _, line := range strings.Split(string(out), "\n") {
				if strings.HasPrefix(line, "CHILD-RESULT ") {
					if json.Unmarshal([]byte(strings.TrimPrefix(line, "CHILD-RESULT ")), &co) == nil {
						found = true
					}
				}
			}
			if !found {
				m.Note = "child produced no result"
				return
			}
			seen := map[string]bool{}
			for _, o := range co.Failed {
				if baseFailed[o.Key] {
					continue
				}
				if o.Rule == "R0" || strings.HasSuffix(o.Rule, ".R0") {
					m.Note = "seeded patch does not compile on the current tree (skipped): " + firstLine(o.Detail)
					m.Applied = false
					return
				}
				if !seen[o.Rule] {
					seen[o.Rule] = true
					m.Fired = append(m.Fired, o.Rule)
				}
				m.Detected = true
			}
			sort.Strings(m.Fired)
		}(i, j)
	}
	wg.Wait()
	return results
}

func firstLine(s string) string {
	if i := strings.Index(s, "\n"); i >= 0 {
		return s[:i]
	}
	return s
}

// runAllChild evaluates every property's host rules on ONE loaded program and prints the failed obligations.
func runAllChild(repo string) {
	abs, _ := filepath.Abs(repo)
	var failed []Obligation
	p, err := LoadProg(abs, "", "")
	if err != nil {
		failed = append(failed, Obligation{Rule: "ALL.R0", Key: "ALL.R0:load-failure", Fact: "loads", Detail: err.Error()})
	} else {
		for _, id := range sortedKeys(registry) {
			c := newCtx(id, p)
			registry[id].Run(c)
			for _, o := range c.Obs {
				if !o.OK {
					failed = append(failed, o)
				}
			}
		}
	}
	b, _ := json.Marshal(childOut{Failed: failed})
	fmt.Println("CHILD-RESULT " + string(b))
}
