package main

import (
	"go/constant"
	"go/token"
	"go/types"
	"sort"
	"strings"

	"golang.org/x/tools/go/ssa"
)

// ---------------------------------------------------------------- callee resolution

// Callee describes what a call instruction invokes, resolved through types.
type Callee struct {
	Static  *ssa.Function // direct call / closure literal
	Method  *types.Func   // interface method (invoke mode)
	Field   *types.Var    // func-typed struct field whose loaded value is called
	Builtin string
	Dyn     ssa.Value // anything else (parameter, phi, ...)
}

func (c Callee) Name() string {
	switch {
	case c.Static != nil:
		return shortFn(c.Static)
	case c.Method != nil:
		return typeFuncName(c.Method)
	case c.Field != nil:
		return "field:" + c.Field.Name()
	case c.Builtin != "":
		return "builtin:" + c.Builtin
	case c.Dyn != nil:
		return "dyn:" + c.Dyn.Name()
	}
	return "?"
}

func calleeOf(ci ssa.CallInstruction) Callee {
	cc := ci.Common()
	if cc.IsInvoke() {
		return Callee{Method: cc.Method}
	}
	switch v := cc.Value.(type) {
	case *ssa.Function:
		return Callee{Static: v}
	case *ssa.MakeClosure:
		if f, ok := v.Fn.(*ssa.Function); ok {
			return Callee{Static: f}
		}
	case *ssa.Builtin:
		return Callee{Builtin: v.Name()}
	case *ssa.UnOp:
		if v.Op == token.MUL {
			if fa, ok := v.X.(*ssa.FieldAddr); ok {
				return Callee{Field: fieldOfAddr(fa)}
			}
		}
	case *ssa.Field:
		return Callee{Field: fieldOfField(v)}
	}
	return Callee{Dyn: cc.Value}
}

func fieldOfAddr(fa *ssa.FieldAddr) *types.Var {
	t := fa.X.Type().Underlying()
	if pt, ok := t.(*types.Pointer); ok {
		if st, ok := pt.Elem().Underlying().(*types.Struct); ok {
			return st.Field(fa.Field)
		}
	}
	return nil
}

func fieldOfField(f *ssa.Field) *types.Var {
	if st, ok := f.X.Type().Underlying().(*types.Struct); ok {
		return st.Field(f.Field)
	}
	return nil
}

// unwrapStatic follows synthetic wrappers (promoted methods, bound methods)
// to the declared function they delegate to.
func calleeDecl(c Callee) string { return c.Name() }

// ---------------------------------------------------------------- instruction walking

func eachInstr(fn *ssa.Function, f func(ssa.Instruction)) {
	if fn == nil {
		return
	}
	for _, b := range fn.Blocks {
		for _, in := range b.Instrs {
			f(in)
		}
	}
}

// withAnons returns fn and all (transitively) nested anonymous functions.
func withAnons(fn *ssa.Function) []*ssa.Function {
	if fn == nil {
		return nil
	}
	out := []*ssa.Function{fn}
	for _, a := range fn.AnonFuncs {
		out = append(out, withAnons(a)...)
	}
	return out
}

// callsIn lists call instructions (call, defer, go) in fn whose callee name is in names.
func callsIn(fn *ssa.Function, names ...string) []ssa.CallInstruction {
	set := map[string]bool{}
	for _, n := range names {
		set[n] = true
	}
	var out []ssa.CallInstruction
	eachInstr(fn, func(in ssa.Instruction) {
		if ci, ok := in.(ssa.CallInstruction); ok {
			if len(names) == 0 || set[calleeOf(ci).Name()] {
				out = append(out, ci)
			}
		}
	})
	return out
}

// plainCallsIn is callsIn restricted to *ssa.Call (not defer / go).
func plainCallsIn(fn *ssa.Function, names ...string) []*ssa.Call {
	var out []*ssa.Call
	for _, ci := range callsIn(fn, names...) {
		if c, ok := ci.(*ssa.Call); ok {
			out = append(out, c)
		}
	}
	return out
}

func instrIndex(in ssa.Instruction) int {
	for i, x := range in.Block().Instrs {
		if x == in {
			return i
		}
	}
	return -1
}

// dominates reports whether instruction a dominates instruction b (same function).
func dominates(a, b ssa.Instruction) bool {
	if a.Block() == b.Block() {
		return instrIndex(a) < instrIndex(b)
	}
	return a.Block().Dominates(b.Block())
}

// edge identifies a CFG edge by (from-block, successor index).
type edge struct {
	from *ssa.BasicBlock
	succ int
}

// reach computes the set of instructions reachable by forward execution
// starting just after each instruction in starts (or at the head of each block
// in startBlocks). Execution does not continue past an instruction for which
// stop returns true (that instruction itself is included in the result).
// Edges for which cut returns true are not followed.
func reach(starts []ssa.Instruction, startBlocks []*ssa.BasicBlock, stop func(ssa.Instruction) bool, cut func(e edge) bool) map[ssa.Instruction]bool {
	seen := map[ssa.Instruction]bool{}
	visitedHead := map[*ssa.BasicBlock]bool{}
	type item struct {
		b *ssa.BasicBlock
		i int
	}
	var work []item
	for _, s := range starts {
		work = append(work, item{s.Block(), instrIndex(s) + 1})
	}
	for _, b := range startBlocks {
		if !visitedHead[b] {
			visitedHead[b] = true
			work = append(work, item{b, 0})
		}
	}
	for len(work) > 0 {
		it := work[len(work)-1]
		work = work[:len(work)-1]
		b := it.b
		stopped := false
		for i := it.i; i < len(b.Instrs); i++ {
			in := b.Instrs[i]
			if seen[in] {
				// already scanned from here on
				stopped = true
				break
			}
			seen[in] = true
			if stop != nil && stop(in) {
				stopped = true
				break
			}
		}
		if stopped {
			continue
		}
		for si, s := range b.Succs {
			if cut != nil && cut(edge{b, si}) {
				continue
			}
			if !visitedHead[s] {
				visitedHead[s] = true
				work = append(work, item{s, 0})
			}
		}
	}
	return seen
}

// returnsOf lists the Return instructions of fn.
func returnsOf(fn *ssa.Function) []*ssa.Return {
	var out []*ssa.Return
	eachInstr(fn, func(in ssa.Instruction) {
		if r, ok := in.(*ssa.Return); ok {
			out = append(out, r)
		}
	})
	return out
}

// ---------------------------------------------------------------- values

func isNilConst(v ssa.Value) bool {
	c, ok := v.(*ssa.Const)
	return ok && c.Value == nil
}

func constInt(v ssa.Value) (int64, bool) {
	c, ok := v.(*ssa.Const)
	if !ok || c.Value == nil {
		return 0, false
	}
	if c.Value.Kind() == constant.Int {
		if i, ok := constant.Int64Val(c.Value); ok {
			return i, true
		}
		if u, ok := constant.Uint64Val(c.Value); ok {
			return int64(u), true
		}
	}
	return 0, false
}

func constUint(v ssa.Value) (uint64, bool) {
	c, ok := v.(*ssa.Const)
	if !ok || c.Value == nil || c.Value.Kind() != constant.Int {
		return 0, false
	}
	if u, ok := constant.Uint64Val(c.Value); ok {
		return u, true
	}
	if i, ok := constant.Int64Val(c.Value); ok {
		return uint64(i), true
	}
	return 0, false
}

func constBool(v ssa.Value) (bool, bool) {
	c, ok := v.(*ssa.Const)
	if !ok || c.Value == nil || c.Value.Kind() != constant.Bool {
		return false, false
	}
	return constant.BoolVal(c.Value), true
}

// stripConv removes value-preserving conversions.
func stripConv(v ssa.Value) ssa.Value {
	for {
		switch x := v.(type) {
		case *ssa.ChangeType:
			v = x.X
		case *ssa.Convert:
			v = x.X
		case *ssa.ChangeInterface:
			v = x.X
		case *ssa.MakeInterface:
			v = x.X
		default:
			return v
		}
	}
}

// loadedCell returns the address operand if v is a load (*addr).
func loadedCell(v ssa.Value) ssa.Value {
	if u, ok := v.(*ssa.UnOp); ok && u.Op == token.MUL {
		return u.X
	}
	return nil
}

// fieldPath describes an address expression as root value + field chain,
// looking through loads: e.g. load(FieldAddr(load(FieldAddr(tx, db)), metalock)).
type fieldPath struct {
	Root   ssa.Value
	Fields []*types.Var
}

func (fp fieldPath) Names() string {
	var s []string
	for _, f := range fp.Fields {
		s = append(s, f.Name())
	}
	return strings.Join(s, ".")
}

func (fp fieldPath) Last() *types.Var {
	if len(fp.Fields) == 0 {
		return nil
	}
	return fp.Fields[len(fp.Fields)-1]
}

func (fp fieldPath) Has(v *types.Var) bool {
	for _, f := range fp.Fields {
		if f == v {
			return true
		}
	}
	return false
}

// pathOf decomposes an address or a loaded value into root + field chain.
func pathOf(v ssa.Value) fieldPath {
	var rev []*types.Var
	for {
		switch x := v.(type) {
		case *ssa.UnOp:
			if x.Op == token.MUL {
				v = x.X
				continue
			}
		case *ssa.FieldAddr:
			rev = append(rev, fieldOfAddr(x))
			v = x.X
			continue
		case *ssa.Field:
			rev = append(rev, fieldOfField(x))
			v = x.X
			continue
		case *ssa.ChangeType:
			v = x.X
			continue
		}
		break
	}
	fp := fieldPath{Root: v}
	for i := len(rev) - 1; i >= 0; i-- {
		fp.Fields = append(fp.Fields, rev[i])
	}
	return fp
}

// fieldStore is one write to a struct field.
type fieldStore struct {
	Fn    *ssa.Function
	Instr ssa.Instruction
	Val   ssa.Value
	Addr  *ssa.FieldAddr
}

// storesToField finds every Store whose address is FieldAddr of field f in the given functions.
func storesToField(fns []*ssa.Function, f *types.Var) []fieldStore {
	var out []fieldStore
	for _, fn := range fns {
		eachInstr(fn, func(in ssa.Instruction) {
			st, ok := in.(*ssa.Store)
			if !ok {
				return
			}
			if fa, ok := st.Addr.(*ssa.FieldAddr); ok && fieldOfAddr(fa) == f {
				out = append(out, fieldStore{fn, in, st.Val, fa})
			}
		})
	}
	return out
}

// fieldCallsIn lists calls in fn that invoke the value loaded from field f.
func fieldCallsIn(fn *ssa.Function, f *types.Var) []ssa.CallInstruction {
	var out []ssa.CallInstruction
	eachInstr(fn, func(in ssa.Instruction) {
		if ci, ok := in.(ssa.CallInstruction); ok {
			if c := calleeOf(ci); c.Field != nil && c.Field == f {
				out = append(out, ci)
			}
		}
	})
	return out
}

// ---------------------------------------------------------------- error results and tests

func isErrorType(t types.Type) bool {
	n, ok := t.(*types.Named)
	return ok && n.Obj().Pkg() == nil && n.Obj().Name() == "error"
}

// errResultIndex returns the index of the (last) error result of a signature, or -1.
func errResultIndex(sig *types.Signature) int {
	r := sig.Results()
	for i := r.Len() - 1; i >= 0; i-- {
		if isErrorType(r.At(i).Type()) {
			return i
		}
	}
	return -1
}

// errValueOf returns the SSA value carrying the error result of a call
// (the call itself, or the Extract of the error component), or nil.
func errValueOf(c *ssa.Call) ssa.Value {
	sig := c.Call.Signature()
	idx := errResultIndex(sig)
	if idx < 0 {
		return nil
	}
	if sig.Results().Len() == 1 {
		return c
	}
	for _, r := range *c.Referrers() {
		if ex, ok := r.(*ssa.Extract); ok && ex.Index == idx {
			return ex
		}
	}
	return nil
}

// nilTest describes `if v != nil` / `if v == nil`.
type nilTest struct {
	If     *ssa.If
	NonNil *ssa.BasicBlock // successor taken when v is non-nil
	Nil    *ssa.BasicBlock
}

// nilTestsOf finds the conditional branches that test value v against nil,
// following one level of store-to-cell-then-load (named results, `err = f()`).
func nilTestsOf(v ssa.Value) []nilTest {
	var out []nilTest
	seen := map[ssa.Value]bool{}
	var visit func(x ssa.Value, depth int)
	visit = func(x ssa.Value, depth int) {
		if x == nil || seen[x] || x.Referrers() == nil {
			return
		}
		seen[x] = true
		for _, r := range *x.Referrers() {
			switch rr := r.(type) {
			case *ssa.BinOp:
				if (rr.Op == token.NEQ || rr.Op == token.EQL) && (isNilConst(rr.X) || isNilConst(rr.Y)) {
					for _, br := range *rr.Referrers() {
						if iff, ok := br.(*ssa.If); ok {
							t := nilTest{If: iff}
							if rr.Op == token.NEQ {
								t.NonNil, t.Nil = iff.Block().Succs[0], iff.Block().Succs[1]
							} else {
								t.NonNil, t.Nil = iff.Block().Succs[1], iff.Block().Succs[0]
							}
							out = append(out, t)
						}
					}
				}
			case *ssa.Store:
				if rr.Val == x && depth < 2 {
					// loads of the same cell that this store reaches without an intervening store:
					for _, ld := range loadsReachedByStore(rr) {
						visit(ld, depth+1)
					}
				}
			case *ssa.Phi:
				if depth < 2 {
					visit(rr, depth+1)
				}
			}
		}
	}
	visit(v, 0)
	return out
}

// loadsReachedByStore returns the loads of st.Addr reached from st before
// another store to the same address (intra-procedural, same SSA address value).
func loadsReachedByStore(st *ssa.Store) []ssa.Value {
	var out []ssa.Value
	addr := st.Addr
	r := reach([]ssa.Instruction{st}, nil, func(in ssa.Instruction) bool {
		if s2, ok := in.(*ssa.Store); ok && s2.Addr == addr {
			return true
		}
		return false
	}, nil)
	for in := range r {
		if u, ok := in.(*ssa.UnOp); ok && u.Op == token.MUL && u.X == addr {
			out = append(out, u)
		}
	}
	sort.Slice(out, func(i, j int) bool { return out[i].Pos() < out[j].Pos() })
	return out
}

// retClass classifies a Return w.r.t. its error result.
type retClass int

const (
	retNone    retClass = iota // function has no error result
	retSuccess                 // returns nil error
	retError                   // returns a non-nil error
	retPass                    // returns a callee's error unchanged / unknown
)

func (c retClass) String() string {
	return [...]string{"none", "success", "error", "pass"}[c]
}

// classifyReturn decides whether r returns a nil error, a non-nil error, or
// passes on a value whose nil-ness is not established on this path.
func classifyReturn(r *ssa.Return) retClass {
	fn := r.Parent()
	idx := errResultIndex(fn.Signature)
	if idx < 0 {
		return retNone
	}
	v := r.Results[idx]
	return classifyErrValue(v, r, 0)
}

func classifyErrValue(v ssa.Value, at ssa.Instruction, depth int) retClass {
	if depth > 6 {
		return retPass
	}
	switch x := v.(type) {
	case *ssa.Const:
		if x.Value == nil {
			return retSuccess
		}
		return retError
	case *ssa.MakeInterface:
		return retError
	case *ssa.Phi:
		cls := retNone
		for _, e := range x.Edges {
			c := classifyErrValue(e, at, depth+1)
			if cls == retNone {
				cls = c
			} else if cls != c {
				return retPass
			}
		}
		return cls
	case *ssa.UnOp:
		if x.Op == token.MUL {
			if g, ok := x.X.(*ssa.Global); ok {
				_ = g
				return retError // package-level sentinel error
			}
			// load of a cell: find the store in the same block that reaches it
			if st := lastStoreBefore(x, x.X); st != nil {
				if st.Val != v {
					c := classifyErrValue(st.Val, st, depth+1)
					if c != retPass {
						return c
					}
				}
			}
			// dominating nil test on a load of the same cell
			if c := classByDominatingTest(x.X, nil, at); c != retPass {
				return c
			}
			// unique reaching store from dominating blocks
			if st := uniqueDominatingStore(x, x.X); st != nil && st.Val != v {
				return classifyErrValue(st.Val, st, depth+1)
			}
			return retPass
		}
	case *ssa.Call:
		if c := classByDominatingTest(nil, x, at); c != retPass {
			return c
		}
		// fmt.Errorf / errors.New always non-nil
		n := calleeOf(x).Name()
		if n == "fmt.Errorf" || n == "errors.New" {
			return retError
		}
		return retPass
	case *ssa.Extract:
		if c := classByDominatingTest(nil, x, at); c != retPass {
			return c
		}
		return retPass
	}
	return retPass
}

// lastStoreBefore finds the last Store to addr preceding instruction `before` in its block.
func lastStoreBefore(before ssa.Instruction, addr ssa.Value) *ssa.Store {
	b := before.Block()
	idx := instrIndex(before)
	for i := idx - 1; i >= 0; i-- {
		if st, ok := b.Instrs[i].(*ssa.Store); ok && st.Addr == addr {
			return st
		}
	}
	return nil
}

// uniqueDominatingStore: if exactly one Store to addr exists in the function
// besides zero-initialisation, and it dominates the load, return it.
func uniqueDominatingStore(load ssa.Instruction, addr ssa.Value) *ssa.Store {
	var only *ssa.Store
	n := 0
	if addr.Referrers() == nil {
		return nil
	}
	for _, r := range *addr.Referrers() {
		if st, ok := r.(*ssa.Store); ok && st.Addr == addr {
			n++
			only = st
		}
	}
	if n == 1 && dominates(only, load) {
		return only
	}
	return nil
}

// classByDominatingTest looks for the closest dominating `if x != nil` where x
// is a load of cell (when cell != nil) or the value val itself, and returns the
// class implied by the branch that contains `at`.
func classByDominatingTest(cell ssa.Value, val ssa.Value, at ssa.Instruction) retClass {
	var tests []nilTest
	if val != nil {
		tests = nilTestsOf(val)
	}
	if cell != nil && cell.Referrers() != nil {
		for _, r := range *cell.Referrers() {
			if u, ok := r.(*ssa.UnOp); ok && u.Op == token.MUL {
				for _, t := range nilTestsDirect(u) {
					tests = append(tests, t)
				}
			}
		}
	}
	best := retPass
	var bestIf *ssa.If
	for _, t := range tests {
		var cls retClass
		inNon := blockDominatedByEdge(t.If.Block(), t.NonNil, at.Block())
		inNil := blockDominatedByEdge(t.If.Block(), t.Nil, at.Block())
		switch {
		case inNon && !inNil:
			cls = retError
		case inNil && !inNon:
			cls = retSuccess
		default:
			continue
		}
		if cell != nil && storeBetween(cell, t.If, at) {
			continue
		}
		if bestIf == nil || dominates(bestIf, t.If) {
			best, bestIf = cls, t.If
		}
	}
	return best
}

func nilTestsDirect(v ssa.Value) []nilTest {
	var out []nilTest
	if v.Referrers() == nil {
		return nil
	}
	for _, r := range *v.Referrers() {
		if rr, ok := r.(*ssa.BinOp); ok && (rr.Op == token.NEQ || rr.Op == token.EQL) && (isNilConst(rr.X) || isNilConst(rr.Y)) {
			for _, br := range *rr.Referrers() {
				if iff, ok := br.(*ssa.If); ok {
					t := nilTest{If: iff}
					if rr.Op == token.NEQ {
						t.NonNil, t.Nil = iff.Block().Succs[0], iff.Block().Succs[1]
					} else {
						t.NonNil, t.Nil = iff.Block().Succs[1], iff.Block().Succs[0]
					}
					out = append(out, t)
				}
			}
		}
	}
	return out
}

// blockDominatedByEdge: target is reached only through edge from->succ, i.e.
// succ dominates target and succ's only predecessor is from (or succ==target
// with a single predecessor).
func blockDominatedByEdge(from, succ, target *ssa.BasicBlock) bool {
	if len(succ.Preds) != 1 || succ.Preds[0] != from {
		// a join block: membership in the branch cannot be concluded from dominance
		return false
	}
	return succ == target || succ.Dominates(target)
}

// storeBetween: is there a Store to cell on some path strictly after `from` that can reach `to`?
func storeBetween(cell ssa.Value, from ssa.Instruction, to ssa.Instruction) bool {
	if cell.Referrers() == nil {
		return false
	}
	after := reach([]ssa.Instruction{from}, nil, func(in ssa.Instruction) bool { return in == to }, nil)
	for _, r := range *cell.Referrers() {
		st, ok := r.(*ssa.Store)
		if !ok || st.Addr != cell || !after[st] {
			continue
		}
		// does the store reach `to`?
		fwd := reach([]ssa.Instruction{st}, nil, nil, nil)
		if fwd[to] {
			// a store of the very value loaded just before (return err idiom: *err = load(*err)) is harmless
			if ld, ok := st.Val.(*ssa.UnOp); ok && ld.Op == token.MUL && ld.X == cell {
				continue
			}
			return true
		}
	}
	return false
}

// errEdge returns, for a call with an error result, the nil tests applied to it.
func errTests(c *ssa.Call) []nilTest {
	ev := errValueOf(c)
	if ev == nil {
		return nil
	}
	return nilTestsOf(ev)
}

// ---------------------------------------------------------------- misc

func sortedKeys[M ~map[string]V, V any](m M) []string {
	out := make([]string, 0, len(m))
	for k := range m {
		out = append(out, k)
	}
	sort.Strings(out)
	return out
}

// enclosingNamed returns the top-level function enclosing fn.
func topLevel(fn *ssa.Function) *ssa.Function {
	for fn.Parent() != nil {
		fn = fn.Parent()
	}
	return fn
}

// deferredCalls lists the Defer instructions of fn.
func deferredCalls(fn *ssa.Function) []*ssa.Defer {
	var out []*ssa.Defer
	eachInstr(fn, func(in ssa.Instruction) {
		if d, ok := in.(*ssa.Defer); ok {
			out = append(out, d)
		}
	})
	return out
}

// closureOf returns the function literal a value denotes (MakeClosure or *ssa.Function).
func closureOf(v ssa.Value) *ssa.Function {
	switch x := v.(type) {
	case *ssa.MakeClosure:
		if f, ok := x.Fn.(*ssa.Function); ok {
			return f
		}
	case *ssa.Function:
		return x
	case *ssa.ChangeType:
		return closureOf(x.X)
	}
	return nil
}

// returnedValue resolves result idx of a Return through the result cell that
// go/ssa introduces in functions with defers (store; rundefers; load; return).
func returnedValue(r *ssa.Return, idx int) ssa.Value {
	v := r.Results[idx]
	if ld, ok := v.(*ssa.UnOp); ok && ld.Op == token.MUL {
		if _, isAlloc := ld.X.(*ssa.Alloc); isAlloc {
			if st := lastStoreBefore(ld, ld.X); st != nil {
				return st.Val
			}
		}
	}
	return v
}

// resolveCell looks through a load of a local cell that has exactly one store
// (a parameter or variable captured by a closure) to the stored value.
func resolveCell(v ssa.Value) ssa.Value {
	ld, ok := v.(*ssa.UnOp)
	if !ok || ld.Op != token.MUL {
		return v
	}
	cell, ok := ld.X.(*ssa.Alloc)
	if !ok || cell.Referrers() == nil {
		return v
	}
	var only ssa.Value
	n := 0
	for _, r := range *cell.Referrers() {
		if st, isSt := r.(*ssa.Store); isSt && st.Addr == cell {
			n++
			only = st.Val
		}
	}
	if n == 1 {
		return only
	}
	return v
}

// sameValue: identical SSA value, or two loads of the same cell / free variable.
func sameValue(a, b ssa.Value) bool {
	if a == b {
		return true
	}
	la, ok1 := a.(*ssa.UnOp)
	lb, ok2 := b.(*ssa.UnOp)
	if ok1 && ok2 && la.Op == token.MUL && lb.Op == token.MUL && la.X == lb.X {
		switch la.X.(type) {
		case *ssa.FreeVar, *ssa.Alloc:
			return true
		}
	}
	return resolveCell(a) == resolveCell(b) && resolveCell(a) != a
}

// vret is one way a function hands a result back: a Return whose operand is a (non-loop) phi is split into one
// virtual return per incoming edge, positioned at the end of the predecessor block. Source-level result variables
// (`r = x; break` ... `return r`, as produced by the pre-inliner or written by hand) thereby look like `return x`.
type vret struct {
	ret *ssa.Return
	val ssa.Value
	at  ssa.Instruction
}

func virtualReturns(fn *ssa.Function, idx int) []vret {
	var out []vret
	var expand func(ret *ssa.Return, v ssa.Value, at ssa.Instruction, depth int)
	expand = func(ret *ssa.Return, v ssa.Value, at ssa.Instruction, depth int) {
		ph, ok := v.(*ssa.Phi)
		if !ok || depth > 3 {
			out = append(out, vret{ret, v, at})
			return
		}
		for _, p := range ph.Block().Preds {
			if ph.Block().Dominates(p) {
				out = append(out, vret{ret, v, at}) // loop-carried: leave it
				return
			}
		}
		// only a phi that merges right in front of the return (nothing but phis and jumps in between) is a
		// result variable; a merge further up is ordinary data flow
		for b := ph.Block(); ; {
			pure := true
			for _, in := range b.Instrs {
				switch in.(type) {
				case *ssa.Phi, *ssa.Jump, *ssa.Return, *ssa.DebugRef, *ssa.RunDefers:
				default:
					pure = false
				}
			}
			if !pure {
				out = append(out, vret{ret, v, at})
				return
			}
			if b == ret.Block() {
				break
			}
			if len(b.Succs) != 1 {
				out = append(out, vret{ret, v, at})
				return
			}
			b = b.Succs[0]
		}
		for i, p := range ph.Block().Preds {
			expand(ret, ph.Edges[i], p.Instrs[len(p.Instrs)-1], depth+1)
		}
	}
	for _, r := range returnsOf(fn) {
		if idx < len(r.Results) {
			expand(r, r.Results[idx], r, 0)
		}
	}
	return out
}

// thunkTarget: fn is an anonymous function that does nothing but call one static callee with values it captured
// (`func() { b.run() }`, `func() { newBatch.trigger() }`) — the closure form of a method value. Returns that callee.
func thunkTarget(fn *ssa.Function) *ssa.Function {
	if fn == nil || fn.Parent() == nil || len(fn.Params) != 0 {
		return nil
	}
	var target *ssa.Function
	calls := 0
	ok := true
	eachInstr(fn, func(in ssa.Instruction) {
		switch x := in.(type) {
		case *ssa.Call:
			calls++
			target = calleeOf(x).Static
			for _, a := range x.Call.Args {
				switch av := a.(type) {
				case *ssa.FreeVar:
				case *ssa.UnOp:
					if _, isFV := av.X.(*ssa.FreeVar); !isFV || av.Op != token.MUL {
						ok = false
					}
				default:
					ok = false
				}
			}
		case *ssa.UnOp, *ssa.Return, *ssa.DebugRef, *ssa.Jump, *ssa.RunDefers:
		default:
			ok = false
		}
	})
	if !ok || calls != 1 {
		return nil
	}
	return target
}
