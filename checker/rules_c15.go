package main

import (
	"go/types"
	"go/token"
	"fmt"
	"strings"

	"golang.org/x/tools/go/ssa"
)

func init() {
	register(&propDef{
		ID: "C15",
		Explanation: "Decided: every bucket the walk reports is re-created with SetSequence(seq) in both arms (top-level and nested), seq being the Sequence() of the very bucket reported; after an intermediate commit the writes go to the NEW transaction (one captured transaction cell, re-assigned from dst.Begin(true), used by every later call, the deferred rollback and the final commit); " +
			"the source is only ever read (flows only into walk -> View; the CLI opens it ReadOnly); every error inside the callback is returned and aborts Compact before the final commit. " +
			"NOT decided: equality of destination and source content, the arithmetic of txMaxSize (dynamic / value-level). Round 3: the callback decides bucket versus key/value by v == nil, never by len(v).",
		Run: func(c *Ctx) {
			ruleEveryCachedChildSpilled(c, "C15.R7") // Compact writes into nested destination buckets through buckets it only opens
			c15R1(c, "C15.R1")
			c15R2(c, "C15.R2")
			c15R3(c, "C15.R3")
			c15R4(c, "C15.R4")
			ruleTestedErrorsPropagate(c, "C15.R6", []string{rootPkg, cmdPath}, 8, func(n string) bool {
				return strings.Contains(n, "bbolt.Compact") || strings.Contains(n, "bbolt.walk") || strings.Contains(n, "compactOptions")
			}) // a compaction step that failed is not reported as success
			ruleInlineNoNested(c, "C15.R5") // the destination is built by many small transactions that touch a parent without opening its sub-buckets
		},
	})
}

// compactCallback finds the closure Compact passes to walk.
func compactCallback(c *Ctx) (*ssa.Function, *ssa.Function, *ssa.Call) {
	cp := c.fn("bbolt.Compact")
	for _, call := range plainCallsIn(cp, "bbolt.walk") {
		if cl := closureOf(call.Call.Args[1]); cl != nil {
			return cp, cl, call
		}
	}
	panic(anchorErr{"closure passed to bbolt.walk in Compact"})
}

func c15R1(c *Ctx, id string) {
	c.rule(id, "sequence-carried-over", 6, func() {
		_, cb, _ := compactCallback(c)
		var seqParam *ssa.Parameter
		for _, p := range cb.Params {
			if strings.HasSuffix(p.Type().String(), "uint64") {
				seqParam = p
			}
		}
		n := 0
		createNames := map[string]bool{"bbolt.(*Tx).CreateBucket": true, "bbolt.(*Bucket).CreateBucket": true, "bbolt.(*Tx).CreateBucketIfNotExists": true, "bbolt.(*Bucket).CreateBucketIfNotExists": true}
		isBoundCreate := func(v ssa.Value) bool {
			mc, ok := v.(*ssa.MakeClosure)
			if !ok {
				return false
			}
			f, ok := mc.Fn.(*ssa.Function)
			return ok && (strings.HasSuffix(f.Name(), "CreateBucket$bound") || strings.HasSuffix(f.Name(), "CreateBucketIfNotExists$bound"))
		}
		// createThenSet: in fn, after `call` created a bucket, every success path sets its sequence to seqVal
		createThenSet := func(fn *ssa.Function, call *ssa.Call, seqVal ssa.Value) string {
			var bkt ssa.Value
			for _, r := range *call.Referrers() {
				if ex, ok := r.(*ssa.Extract); ok && ex.Index == 0 {
					bkt = ex
				}
			}
			var okSucc []*ssa.BasicBlock
			for _, t := range errTests(call) {
				okSucc = append(okSucc, t.Nil)
			}
			if len(okSucc) == 0 {
				return "the error of the bucket creation is not tested"
			}
			var sets []ssa.Instruction
			for _, s := range plainCallsIn(fn, "bbolt.(*Bucket).SetSequence") {
				if s.Call.Args[0] == bkt && s.Call.Args[1] == seqVal {
					sets = append(sets, s)
				}
			}
			if len(sets) == 0 {
				return "no SetSequence(seq) on the bucket just created"
			}
			isSet := func(in ssa.Instruction) bool {
				for _, s := range sets {
					if s == in {
						return true
					}
				}
				return false
			}
			for in := range reach(nil, okSucc, isSet, nil) {
				if ret, isR := in.(*ssa.Return); isR && classifyReturn(ret) != retError {
					return "success can be returned at " + c.P.Position(ret.Pos()) + " without SetSequence"
				}
			}
			return ""
		}
		eachInstr(cb, func(in ssa.Instruction) {
			call, ok := in.(*ssa.Call)
			if !ok {
				return
			}
			name := strings.TrimSuffix(calleeOf(call).Name(), "$bound") // a bound method value `create := tx.CreateBucket; create(k)` is the method
			if createNames[name] {
				n++
				bad := createThenSet(cb, call, seqParam)
				c.check(fmt.Sprintf("%s:Compact-callback:%s#%d", id, name, n), cb, call.Pos(), "the bucket re-created in the destination gets SetSequence(seq) (seq = the callback's parameter) on every success path", bad == "", bad)
				return
			}
			// a package-local helper that creates the bucket on the callback's behalf: it receives the bound
			// CreateBucket method (or the parent) and the sequence
			h := calleeOf(call).Static
			if h == nil || fnPkg(h) == nil || fnPkg(h).Path() != rootPkg || len(h.Blocks) == 0 || createNames[shortFn(h)] {
				return
			}
			var creates []*ssa.Call
			eachInstr(h, func(i2 ssa.Instruction) {
				c2, ok := i2.(*ssa.Call)
				if !ok {
					return
				}
				if createNames[calleeOf(c2).Name()] {
					creates = append(creates, c2)
					return
				}
				if p, isP := resolveCell(c2.Call.Value).(*ssa.Parameter); isP && isFuncTyped(p) {
					for k, hp := range h.Params {
						if hp == p && k < len(call.Call.Args) && isBoundCreate(call.Call.Args[k]) {
							creates = append(creates, c2)
						}
					}
				}
			})
			if len(creates) == 0 {
				return
			}
			n++
			bad := ""
			// the helper's uint64 parameter that receives the callback's seq
			var hseq ssa.Value
			for k, hp := range h.Params {
				if k < len(call.Call.Args) && call.Call.Args[k] == ssa.Value(seqParam) {
					hseq = hp
				}
			}
			if hseq == nil {
				bad = "the helper " + shortFn(h) + " is not given the callback's seq"
			}
			for _, cr := range creates {
				if bad == "" {
					bad = createThenSet(h, cr, hseq)
				}
			}
			// the helper's verdict is the callback's: its error is returned or tested
			if bad == "" && len(errTests(call)) == 0 {
				returned := false
				for _, r := range *call.Referrers() {
					if _, isR := r.(*ssa.Return); isR {
						returned = true
					}
				}
				if !returned {
					bad = "the result of " + shortFn(h) + " is neither returned nor tested"
				}
			}
			c.check(fmt.Sprintf("%s:Compact-callback:via-%s#%d", id, shortFn(h), n), cb, call.Pos(), "the bucket re-created in the destination (through a helper) gets SetSequence(seq) (seq = the callback's parameter) on every success path", bad == "", bad)
		})
		c.check(id+":Compact-callback:creates-buckets", cb, cb.Pos(), "the callback re-creates the buckets the walk reports", n >= 1, fmt.Sprintf("%d creation sites", n))
		// bucket or key/value? walk reports a bucket with v == nil and a key with its value, which may be EMPTY but is
		// never nil (Cursor returns a non-nil empty slice for an empty value). The decision must therefore be a nil test
		// of the value parameter (or the top-level arm, where only buckets exist) — never its length.
		var vParam *ssa.Parameter
		{
			k := 0
			for _, p := range cb.Params {
				if sl, ok := p.Type().Underlying().(*types.Slice); ok {
					if b, ok := sl.Elem().Underlying().(*types.Basic); ok && b.Kind() == types.Byte {
						k++
						if k == 2 {
							vParam = p // (keys [][]byte, k, v []byte, seq): the second []byte
						}
					}
				}
			}
		}
		badDisc := ""
		if vParam == nil {
			badDisc = "the callback has no value parameter"
		} else {
			eachInstr(cb, func(in ssa.Instruction) {
				iff, ok := in.(*ssa.If)
				if !ok {
					return
				}
				// only branches that decide between re-creating a bucket and storing a key/value pair
				discriminates := false
				eachInstr(cb, func(i2 ssa.Instruction) {
					c2, isCall := i2.(*ssa.Call)
					if !isCall {
						return
					}
					n2 := strings.TrimSuffix(calleeOf(c2).Name(), "$bound")
					if !createNames[n2] && n2 != "bbolt.(*Bucket).Put" {
						return
					}
					d0 := blockDominatedByEdge(iff.Block(), iff.Block().Succs[0], c2.Block())
					d1 := blockDominatedByEdge(iff.Block(), iff.Block().Succs[1], c2.Block())
					if d0 != d1 {
						discriminates = true
					}
				})
				if !discriminates {
					return
				}
				for _, cv := range append([]ssa.Value{iff.Cond}, shortCircuitConds(iff.Cond)...) {
					for _, l := range provenance(cv, provOpts{ThroughCall: throughAll}) {
						if l.Kind == "call" && l.Name == "builtin:len" {
							if call, ok := l.V.(*ssa.Call); ok && len(call.Call.Args) == 1 && resolveCell(call.Call.Args[0]) == ssa.Value(vParam) {
								badDisc = "a branch at " + c.P.Position(iff.Pos()) + " depends on len(v): an empty value (a key of a set-like bucket) would be taken for a bucket"
							}
						}
					}
				}
			})
			nilTest := false
			eachInstr(cb, func(in ssa.Instruction) {
				if bo, ok := in.(*ssa.BinOp); ok && (bo.Op == token.EQL || bo.Op == token.NEQ) {
					if (resolveCell(bo.X) == ssa.Value(vParam) && isNilConst(bo.Y)) || (resolveCell(bo.Y) == ssa.Value(vParam) && isNilConst(bo.X)) {
						nilTest = true
					}
				}
			})
			if badDisc == "" && !nilTest {
				badDisc = "the callback never tests v against nil"
			}
		}
		c.check(id+":Compact-callback:bucket-iff-nil-value", cb, cb.Pos(), "bucket versus key/value is decided by `v == nil`, never by the length of v (empty values are legal)", badDisc == "", badDisc)
		// walk / walkBucket: seq is the Sequence() of the bucket reported
		k := 0
		for _, fn := range c.P.FnsIn(rootPkg) {
			top := shortFn(topLevel(fn))
			if top != "bbolt.walk" && top != "bbolt.walkBucket" {
				continue
			}
			for _, call := range plainCallsIn(fn, "bbolt.walkBucket") {
				k++
				args := call.Call.Args // b, keypath, k, v, seq, fn
				ok := false
				detail := "seq is not b.Sequence()"
				if sc, isCall := args[4].(*ssa.Call); isCall && calleeOf(sc).Name() == "bbolt.(*Bucket).Sequence" {
					ok = sameValue(sc.Call.Args[0], args[0])
					if !ok {
						detail = "Sequence() is taken from a different bucket than the one reported"
					}
					// for a key/value pair (v != nil) the bucket passed is the owner; fine either way
				}
				c.check(fmt.Sprintf("%s:%s:walkBucket#%d", id, shortFn(fn), k), fn, call.Pos(), "walkBucket is called with seq = Sequence() of the bucket it is given", ok, detail)
			}
		}
		// and walkBucket hands its seq parameter to the callback unchanged
		wb := c.fn("bbolt.walkBucket")
		okF := false
		eachInstr(wb, func(in ssa.Instruction) {
			if call, ok := in.(*ssa.Call); ok {
				if p, isP := resolveCell(call.Call.Value).(*ssa.Parameter); isP && isFuncTyped(p) && len(call.Call.Args) == 4 {
					if sp, isP2 := resolveCell(call.Call.Args[3]).(*ssa.Parameter); isP2 && strings.HasSuffix(sp.Type().String(), "uint64") {
						okF = true
					}
				}
			}
		})
		c.check(id+":bbolt.walkBucket:passes-seq", wb, wb.Pos(), "walkBucket passes its seq parameter to the callback unchanged", okF, "the callback receives a different value")
	})
}

func c15R2(c *Ctx, id string) {
	c.rule(id, "one-transaction-cell", 1, func() {
		cp, cb, _ := compactCallback(c)
		// the free variable that receives dst.Begin(true) inside the callback
		var cell *ssa.FreeVar
		bad := ""
		for _, call := range plainCallsIn(cb, "bbolt.(*DB).Begin") {
			for _, r := range *call.Referrers() {
				ex, ok := r.(*ssa.Extract)
				if !ok || ex.Index != 0 {
					continue
				}
				stored := false
				for _, rr := range *ex.Referrers() {
					if st, ok := rr.(*ssa.Store); ok {
						if fv, ok := st.Addr.(*ssa.FreeVar); ok {
							cell = fv
							stored = true
						}
					}
				}
				if !stored {
					bad = "the new transaction is kept in a local variable of the callback (shadowing): later writes go to the committed transaction"
				}
			}
		}
		if cell == nil && bad == "" {
			bad = "the callback never re-assigns the transaction"
		}
		if cell != nil {
			// every Tx method call in the callback uses a load of that cell
			for _, f := range withAnons(cb) {
				eachInstr(f, func(in ssa.Instruction) {
					call, ok := in.(*ssa.Call)
					if !ok || calleeOf(call).Static == nil || calleeOf(call).Static.Signature.Recv() == nil {
						return
					}
					if !strings.HasSuffix(calleeOf(call).Static.Signature.Recv().Type().String(), "bbolt.Tx") {
						return
					}
					ld, isLd := call.Call.Args[0].(*ssa.UnOp)
					if !isLd || ld.X != ssa.Value(cell) {
						bad = calleeOf(call).Name() + " at " + c.P.Position(call.Pos()) + " is not called on the shared transaction variable"
					}
				})
			}
			// binding: the same cell is used by Compact's final Commit and deferred Rollback
			idx := -1
			for i, fv := range cb.FreeVars {
				if fv == cell {
					idx = i
				}
			}
			var outer ssa.Value
			eachInstr(cp, func(in ssa.Instruction) {
				if mc, ok := in.(*ssa.MakeClosure); ok && mc.Fn == cb && idx >= 0 {
					outer = mc.Bindings[idx]
				}
			})
			finals := plainCallsIn(cp, "bbolt.(*Tx).Commit")
			if len(finals) != 1 {
				bad = fmt.Sprintf("%d final Commit calls in Compact", len(finals))
			} else if ld, isLd := finals[0].Call.Args[0].(*ssa.UnOp); !isLd || ld.X != outer {
				bad = "Compact's final Commit is not on the shared transaction variable"
			}
			okDefer := false
			for _, d := range deferredCalls(cp) {
				if cl := closureOf(d.Call.Value); cl != nil {
					for _, rb := range plainCallsIn(cl, "bbolt.(*Tx).Rollback") {
						if ld, isLd := rb.Call.Args[0].(*ssa.UnOp); isLd {
							if fv, isFV := ld.X.(*ssa.FreeVar); isFV {
								for i, f2 := range cl.FreeVars {
									if f2 == fv {
										if mc, isMC := d.Call.Value.(*ssa.MakeClosure); isMC && mc.Bindings[i] == outer {
											okDefer = true
										}
									}
								}
							}
						}
					}
				}
			}
			if !okDefer {
				bad = "the deferred Rollback does not use the shared transaction variable"
			}
		}
		c.check(id+":bbolt.Compact:tx-cell", cp, cp.Pos(), "the destination transaction lives in ONE captured variable: dst.Begin(true) after an intermediate commit is stored into it, and every later Tx call, the deferred Rollback and the final Commit load from it", bad == "", bad)
	})
}

func c15R3(c *Ctx, id string) {
	c.rule(id, "source-read-only", 3, func() {
		cp, _, _ := compactCallback(c)
		// Compact: src flows only into walk
		var src *ssa.Parameter
		for _, p := range cp.Params {
			if len(cp.Params) >= 2 && p == cp.Params[1] { // Compact(dst, src, txMaxSize)
				src = p
			}
		}
		if src == nil {
			panic(anchorErr{"parameter src of Compact"})
		}
		bad := ""
		n := 0
		useClosure(src, func(user ssa.Instruction, alias ssa.Value) {
			n++
			if ci, ok := user.(ssa.CallInstruction); ok && calleeOf(ci).Name() == "bbolt.walk" && ci.Common().Args[0] == alias {
				return
			}
			if _, isDbg := user.(*ssa.DebugRef); isDbg {
				return
			}
			bad = fmt.Sprintf("src is used by %T at %s", user, c.P.Position(user.Pos()))
		})
		// captured by a closure?
		eachInstr(cp, func(in ssa.Instruction) {
			if mc, ok := in.(*ssa.MakeClosure); ok {
				for _, b := range mc.Bindings {
					if b == ssa.Value(src) {
						bad = "src is captured by a closure in Compact"
					}
				}
			}
		})
		c.check(id+":bbolt.Compact:src-only-to-walk", cp, cp.Pos(), "Compact's src parameter is passed only to walk", bad == "" && n > 0, bad)
		wk := c.fn("bbolt.walk")
		bad = ""
		useClosure(wk.Params[0], func(user ssa.Instruction, alias ssa.Value) {
			if ci, ok := user.(ssa.CallInstruction); ok && calleeOf(ci).Name() == "bbolt.(*DB).View" && ci.Common().Args[0] == alias {
				return
			}
			if _, isDbg := user.(*ssa.DebugRef); isDbg {
				return
			}
			bad = fmt.Sprintf("walk uses the database in %T at %s", user, c.P.Position(user.Pos()))
		})
		c.check(id+":bbolt.walk:view-only", wk, wk.Pos(), "walk touches the source database only through (*DB).View (a read-only transaction)", bad == "", bad)
		// no mutator is reachable from the walk closures on the source buckets
		muts := map[string]bool{"bbolt.(*Bucket).Put": true, "bbolt.(*Bucket).Delete": true, "bbolt.(*Bucket).CreateBucket": true, "bbolt.(*Bucket).DeleteBucket": true,
			"bbolt.(*Bucket).SetSequence": true, "bbolt.(*Bucket).NextSequence": true, "bbolt.(*Cursor).Delete": true, "bbolt.(*Tx).Commit": true, "bbolt.(*Bucket).CreateBucketIfNotExists": true}
		bad = ""
		for _, fn := range c.P.FnsIn(rootPkg) {
			top := shortFn(topLevel(fn))
			if top != "bbolt.walk" && top != "bbolt.walkBucket" {
				continue
			}
			eachInstr(fn, func(in ssa.Instruction) {
				if ci, ok := in.(ssa.CallInstruction); ok && muts[calleeOf(ci).Name()] {
					bad = calleeOf(ci).Name() + " in " + shortFn(fn)
				}
			})
		}
		c.check(id+":bbolt.walk:no-mutator", wk, wk.Pos(), "walk / walkBucket call no mutator on the source", bad == "", bad)
		// CLI: source opened ReadOnly, destination path only to the other Open
		run := c.fn("command.(*compactOptions).Run")
		optRO := c.P.lookupField(rootPkg, "Options", "ReadOnly")
		okCLI := false
		detail := "no bolt.Open(srcPath, ...) found"
		for _, call := range plainCallsIn(run, "bbolt.Open") {
			ls := provenance(call.Call.Args[0], provOpts{})
			if hasLeaf(ls, "param", "srcPath") {
				ro := optionsLiteralField(call.Call.Args[2], optRO)
				okCLI = ro == "true"
				detail = "source opened with ReadOnly=" + ro
				if hasFieldLeaf(ls, "dstPath") {
					okCLI = false
					detail = "source path mixed with the destination path"
				}
			}
		}
		c.check(id+":command.(*compactOptions).Run:src-readonly", run, run.Pos(), "`bbolt compact` opens its source with the constant option ReadOnly: true", okCLI, detail)
	})
}

func c15R4(c *Ctx, id string) {
	c.rule(id, "callback-errors-abort", 6, func() {
		cp, cb, walkCall := compactCallback(c)
		k := 0
		for _, callee := range []string{"bbolt.(*Tx).Commit", "bbolt.(*DB).Begin", "bbolt.(*Tx).CreateBucket", "bbolt.(*Bucket).CreateBucket", "bbolt.(*Bucket).SetSequence", "bbolt.(*Bucket).Put"} {
			for _, call := range plainCallsIn(cb, callee) {
				k++
				msg := errorHandled(call)
				c.check(fmt.Sprintf("%s:Compact-callback:%s#%d", id, callee, k), cb, call.Pos(), "the error of "+callee+" inside the callback is returned (the walk stops)", msg == "", msg)
			}
		}
		msg := errorHandled(walkCall)
		final := plainCallsIn(cp, "bbolt.(*Tx).Commit")
		if msg == "" {
			for _, t := range errTests(walkCall) {
				r := reach(nil, []*ssa.BasicBlock{t.NonNil}, nil, nil)
				for _, f := range final {
					if r[f] {
						msg = "the final Commit is reachable although the walk failed"
					}
				}
			}
		}
		c.check(id+":bbolt.Compact:walk-error-aborts", cp, walkCall.Pos(), "a failed walk makes Compact return the error before the final Commit", msg == "" && len(final) == 1, msg)
		// the final commit's error is returned
		if len(final) == 1 {
			c.check(id+":bbolt.Compact:final-commit-error", cp, final[0].Pos(), "the error of the final Commit is returned", errorHandled(final[0]) == "", errorHandled(final[0]))
		}
		// walk propagates View's / ForEach's errors
		for _, fn := range c.P.FnsIn(rootPkg) {
			top := shortFn(topLevel(fn))
			if top != "bbolt.walk" && top != "bbolt.walkBucket" {
				continue
			}
			for i, call := range plainCallsIn(fn, "bbolt.(*DB).View", "bbolt.(*Tx).ForEach", "bbolt.(*Bucket).ForEach", "bbolt.walkBucket") {
				m := errorHandled(call)
				c.check(fmt.Sprintf("%s:%s:%s#%d", id, shortFn(fn), calleeOf(call).Name(), i+1), fn, call.Pos(), "the walk propagates errors of View / ForEach / the callback", m == "", m)
			}
			// the callback's error
			eachInstr(fn, func(in ssa.Instruction) {
				if call, ok := in.(*ssa.Call); ok {
					if p, isP := resolveCell(call.Call.Value).(*ssa.Parameter); isP && isFuncTyped(p) {
						m := errorHandled(call)
						c.check(id+":"+shortFn(fn)+":callback-error", fn, call.Pos(), "walkBucket returns the callback's error", m == "", m)
					}
				}
			})
		}
	})
}
