package main

import (
	"fmt"
	"go/token"
	"go/types"
	"strings"

	"golang.org/x/tools/go/ssa"
)

const freelistPath = modulePath + "/internal/freelist"

func init() {
	register(&propDef{
		ID: "C09",
		Explanation: "Decided (three structural clauses of the statement): 'freeing makes a page pending, never directly reusable; pending becomes free only through release' (free-set entry chain inside internal/freelist, under VTA and CHA); " +
			"'identically for the array and hash-map backends' (the backends declare only the storage role, every policy method resolves to the single implementation on *shared in both method sets, newFreelist always returns a backend, both Allocate record the allocating txid and clear the cache); " +
			"'also beyond 65534 entries' (writer, reader and size estimator of the 0xFFFF count convention tabulated and agreeing); plus: Free rejects ids <= 1 and already-free ids before mutating. " +
			"NOT decided: the input/output specification of Allocate/Free/Release over operation sequences (sets of integers, span arithmetic), rollback restoring exactly the prior state, serialise/re-read preserving the sets — all value-level. Round 3: txPending.ids/alloctx stay index-aligned (alloctx[i] is the allocating txid of ids[i]); hashMap.Allocate hands out only spans of at least n pages (exact path keyed by n, larger-span path tabulated). Round 4: RemoveReadonlyTXID removes exactly one registration per call.",
		Run: func(c *Ctx) {
			ruleReloadGoesThroughRead(c, "C09.R15")
			ruleSpanIndexesTogether(c, "C09.R14")
			ruleSpanRemovalsPrecedeInsertions(c, "C09.R13") // "reports none only when no such run exists ... identically for both backends"
			ruleOneRegistrationRemoved(c, "C09.R12") // readers are a multiset: un-registering one reader must not un-register its siblings
			rulePendingSlicesAligned(c, "C09.R10") // "pending pages become free only when no registered reader's version can contain them": alloctx[i] must stay the allocating txid of ids[i]
			ruleSpanCoversRequest(c, "C09.R11") // "returns the first id of n consecutive pages that were all free"
			ruleFreeSetEntry(c, "C09.R1")
			c09R2(c, "C09.R2")
			ruleFreelistCountConvention(c, "C09.R3")
			c09R4(c, "C09.R4")
			c09R5(c, "C09.R5")
			ruleFreelistNoAlias(c, "C09.R6")
			c09R7(c, "C09.R7")
			c09R9(c, "C09.R9")
			ruleRollbackUndoesFrees(c, "C09.R8") // "rolling a transaction back restores exactly the prior state": every abort path calls freelist.Rollback before the lock is released
		},
		CHA: func(c *Ctx) { ruleFreeSetEntry(c, "C09.R1") },
	})
}

func c09R2(c *Ctx, id string) {
	c.rule(id, "backend-agreement", 6, func() {
		pk := c.P.Pkg(freelistPath)
		if pk == nil {
			panic(anchorErr{freelistPath})
		}
		ifaceObj := pk.Types.Scope().Lookup("Interface")
		iface := ifaceObj.Type().Underlying().(*types.Interface)
		storage := map[string]bool{"Init": true, "Allocate": true, "FreeCount": true, "freePageIds": true, "mergeSpans": true}
		for _, tn := range []string{"array", "hashMap"} {
			obj := pk.Types.Scope().Lookup(tn)
			if obj == nil {
				panic(anchorErr{"freelist." + tn})
			}
			named := obj.Type().(*types.Named)
			declared := map[string]bool{}
			for i := 0; i < named.NumMethods(); i++ {
				declared[named.Method(i).Name()] = true
			}
			// (a) storage role is declared on the backend, policy is not overridden
			bad := ""
			for m := range storage {
				if !declared[m] {
					bad = "storage method " + m + " is not implemented by *" + tn
				}
			}
			for i := 0; i < iface.NumMethods(); i++ {
				m := iface.Method(i).Name()
				if declared[m] && !storage[m] {
					bad = "*" + tn + " overrides the policy method " + m + " (the backends would no longer behave identically)"
				}
			}
			c.check(id+":freelist."+tn+":declares-storage-only", nil, obj.Pos(), "*"+tn+" declares exactly the storage role {Init, Allocate, FreeCount, freePageIds, mergeSpans} of the interface; no policy method is overridden", bad == "", bad)
			// (b) every policy method resolves to *shared
			ms := types.NewMethodSet(types.NewPointer(named))
			bad = ""
			n := 0
			for i := 0; i < iface.NumMethods(); i++ {
				m := iface.Method(i)
				if storage[m.Name()] {
					continue
				}
				n++
				sel := ms.Lookup(pk.Types, m.Name())
				if sel == nil {
					bad = m.Name() + " not in the method set"
					continue
				}
				recv := sel.Obj().(*types.Func).Type().(*types.Signature).Recv().Type().String()
				if !strings.HasSuffix(recv, "freelist.shared") {
					bad = m.Name() + " resolves to " + recv
				}
			}
			c.check(id+":freelist."+tn+":policy-on-shared", nil, obj.Pos(), fmt.Sprintf("all %d policy methods of freelist.Interface resolve to the single implementation on *shared", n), bad == "" && n >= 15, bad)
		}
		// (c) newFreelist always returns a backend
		nf := c.fn("bbolt.newFreelist")
		mapType := ""
		if k, ok := c.P.Pkg(rootPkg).Types.Scope().Lookup("FreelistMapType").(*types.Const); ok {
			mapType = k.Val().ExactString()
		}
		bad := ""
		for _, arg := range []string{"\"hashmap\"", "\"array\"", "\"bogus\"", "\"\""} {
			ev := &Evaluator{
				Param: func(p *ssa.Parameter) (V, bool) {
					return V{K: vConst, C: constantFromString(arg)}, true
				},
				Call: func(call *ssa.Call, args []V) (V, bool) {
					return symV(calleeOf(call).Name()), true
				},
			}
			o := ev.Exec(nf, nil)
			want := "freelist.NewArrayFreelist"
			if arg == mapType {
				want = "freelist.NewHashMapFreelist"
			}
			if o.Kind != "return" || len(o.Rets) != 1 || o.Rets[0].K != vSym || o.Rets[0].S != want {
				bad = fmt.Sprintf("newFreelist(%s) = %s, want %s", arg, o, want)
			}
		}
		c.check(id+":bbolt.newFreelist:total", nf, nf.Pos(), "newFreelist returns the hash-map backend for FreelistMapType and the array backend for every other value (never nil)", bad == "" && mapType != "", bad)
		// (d) both Allocate record allocs[start] = txid and clear the cache for what they hand out. Looks through
		// helpers in both directions: a hand-out return may live in a helper Allocate delegates to, and the cache
		// clearing may be a call to a helper that (transitively) deletes from the cache.
		clearsCache := func(in ssa.Instruction) bool {
			call, ok := in.(*ssa.Call)
			if !ok {
				return false
			}
			if calleeOf(call).Builtin == "delete" && strings.HasSuffix(pathOf(call.Call.Args[0]).Names(), "cache") {
				return true
			}
			seen := map[*ssa.Function]bool{}
			var has func(f *ssa.Function, d int) bool
			has = func(f *ssa.Function, d int) bool {
				if f == nil || seen[f] || d > 3 || fnPkg(f) == nil || fnPkg(f).Path() != freelistPath {
					return false
				}
				seen[f] = true
				found := false
				eachInstr(f, func(i2 ssa.Instruction) {
					if c2, ok := i2.(*ssa.Call); ok {
						if calleeOf(c2).Builtin == "delete" && strings.HasSuffix(pathOf(c2.Call.Args[0]).Names(), "cache") {
							found = true
						} else if has(calleeOf(c2).Static, d+1) {
							found = true
						}
					}
				})
				return found
			}
			return has(calleeOf(call).Static, 0)
		}
		isPgid := func(t types.Type) bool { return strings.HasSuffix(t.String(), "common.Pgid") }
		for _, tn := range []string{"array", "hashMap"} {
			al := c.fn("freelist.(*" + tn + ").Allocate")
			// the allocation call tree: Allocate and the package-local helpers it delegates the hand-out to
			tree := []*ssa.Function{al}
			inTree := map[*ssa.Function]bool{al: true}
			for i := 0; i < len(tree); i++ {
				eachInstr(tree[i], func(in ssa.Instruction) {
					if call, ok := in.(*ssa.Call); ok {
						f := calleeOf(call).Static
						if f == nil || inTree[f] || fnPkg(f) == nil || fnPkg(f).Path() != freelistPath || f.Signature.Results().Len() == 0 || !isPgid(f.Signature.Results().At(0).Type()) {
							return
						}
						inTree[f] = true
						tree = append(tree, f)
					}
				})
			}
			bad := ""
			n := 0
			for _, fn := range tree {
				// handOut decides one (value, position) pair: is allocs[value] = txid recorded and the cache cleared before it?
				var handOut func(res ssa.Value, at ssa.Instruction, depth int) (counted int, why string)
				handOut = func(res ssa.Value, at ssa.Instruction, depth int) (int, string) {
					if v, isC := constInt(res); isC && v == 0 {
						return 0, ""
					}
					src := res
					if ex, ok := src.(*ssa.Extract); ok {
						src = ex.Tuple
					}
					if call, ok := src.(*ssa.Call); ok && inTree[calleeOf(call).Static] {
						return 0, "" // delegation: the id comes straight from another function of the tree
					}
					okAlloc, okCache := false, false
					eachInstr(fn, func(in ssa.Instruction) {
						if x, ok := in.(*ssa.MapUpdate); ok {
							if strings.HasSuffix(pathOf(x.Map).Names(), "allocs") {
								if p, isP := resolveCell(x.Value).(*ssa.Parameter); isP && strings.HasSuffix(p.Type().String(), "common.Txid") && dominates(x, at) && x.Key == res {
									okAlloc = true
								}
							}
						}
						if clearsCache(in) && reach([]ssa.Instruction{in}, nil, nil, nil)[at] {
							for b := in.Block(); b != nil; b = b.Idom() {
								if b.Dominates(at.Block()) && b != fn.Blocks[0] {
									okCache = true
								}
							}
						}
					})
					if okAlloc && okCache {
						return 1, ""
					}
					// a result variable: decide every incoming value at the end of the block it comes from
					if ph, isPhi := res.(*ssa.Phi); isPhi && depth < 3 {
						loop := false
						for _, p := range ph.Block().Preds {
							if ph.Block().Dominates(p) {
								loop = true
							}
						}
						if !loop {
							total := 0
							for i, p := range ph.Block().Preds {
								k, why := handOut(ph.Edges[i], p.Instrs[len(p.Instrs)-1], depth+1)
								if why != "" {
									return 0, why
								}
								total += k
							}
							return total, ""
						}
					}
					pos := at.Pos()
					if !pos.IsValid() {
						pos = fn.Pos()
					}
					if !okAlloc {
						return 1, "a page run is handed out at " + c.P.Position(pos) + " without allocs[start] = txid"
					}
					return 1, "a page run is handed out at " + c.P.Position(pos) + " without removing its ids from the cache"
				}
				for _, r := range returnsOf(fn) {
					if len(r.Results) == 0 {
						continue
					}
					k, why := handOut(r.Results[0], r, 0)
					n += k
					if why != "" {
						bad = why
					}
				}
			}
			c.check(id+":freelist.(*"+tn+").Allocate:bookkeeping", al, al.Pos(), fmt.Sprintf("every non-zero return records allocs[start] = txid and deletes the handed-out ids from the cache (%d hand-out returns)", n), bad == "" && n > 0, bad)
		}
	})
}

func c09R4(c *Ctx, id string) {
	c.rule(id, "free-guards", 2, func() {
		free := c.fn("freelist.(*shared).Free")
		// (a) ids <= 1 are rejected first
		entry := free.Blocks[0]
		ok := false
		detail := "Free does not start with the `p.Id() <= 1` test"
		if iff, isIf := entry.Instrs[len(entry.Instrs)-1].(*ssa.If); isIf {
			if bo, isBin := iff.Cond.(*ssa.BinOp); isBin && (bo.Op == token.LEQ || bo.Op == token.LSS) {
				if call, isCall := bo.X.(*ssa.Call); isCall && calleeOf(call).Name() == "common.(*Page).Id" {
					lim, _ := constInt(bo.Y)
					if (bo.Op == token.LEQ && lim == 1) || (bo.Op == token.LSS && lim == 2) {
						ok = true
						for _, in := range entry.Instrs {
							switch x := in.(type) {
							case *ssa.MapUpdate:
								ok = false
								detail = "state is modified before the meta-page test"
							case *ssa.Store:
								if _, local := x.Addr.(*ssa.Alloc); !local { // spilled parameters are not state
									ok = false
									detail = "state is modified before the meta-page test"
								}
							}
						}
						isPanic := false
						for _, in := range entry.Succs[0].Instrs {
							if _, isP := in.(*ssa.Panic); isP {
								isPanic = true
							}
						}
						if !isPanic {
							ok = false
							detail = "ids <= 1 do not panic"
						}
					} else {
						detail = fmt.Sprintf("the limit is %d", lim)
					}
				}
			}
		}
		c.check(id+":freelist.(*shared).Free:rejects-meta-pages", free, free.Pos(), "Free panics for page ids <= 1 before touching any state", ok, detail)
		// (b) the already-free test dominates the mutation of pending ids and cache
		var hit *ssa.If
		var missEdge *ssa.BasicBlock
		eachInstr(free, func(in ssa.Instruction) {
			iff, isIf := in.(*ssa.If)
			if !isIf {
				return
			}
			ex, isEx := iff.Cond.(*ssa.Extract)
			if !isEx || ex.Index != 1 {
				return
			}
			lk, isLk := ex.Tuple.(*ssa.Lookup)
			if !isLk || !strings.HasSuffix(pathOf(lk.X).Names(), "cache") {
				return
			}
			// true edge must panic
			for _, x := range iff.Block().Succs[0].Instrs {
				if _, isP := x.(*ssa.Panic); isP {
					hit = iff
					missEdge = iff.Block().Succs[1]
				}
			}
		})
		ok2 := hit != nil
		detail = "no `if _, ok := t.cache[id]; ok { panic }` test"
		n := 0
		if ok2 {
			eachInstr(free, func(in ssa.Instruction) {
				switch x := in.(type) {
				case *ssa.MapUpdate:
					if strings.HasSuffix(pathOf(x.Map).Names(), "cache") {
						n++
						if !(missEdge == x.Block() || missEdge.Dominates(x.Block())) {
							ok2 = false
							detail = "the cache is updated without passing the already-free test"
						}
					}
				case *ssa.Store:
					if fa, isFA := x.Addr.(*ssa.FieldAddr); isFA && fieldOfAddr(fa).Name() == "ids" {
						n++
						if !(missEdge == x.Block() || missEdge.Dominates(x.Block())) {
							ok2 = false
							detail = "an id is appended to the pending list without passing the already-free test"
						}
					}
				}
			})
		}
		c.check(id+":freelist.(*shared).Free:rejects-double-free", free, free.Pos(), fmt.Sprintf("an id already in the cache panics; the %d stores adding the id to pending/cache are dominated by the not-cached edge", n), ok2 && n >= 2, detail)
	})
}

// c09R5: Init REPLACES the free set: every storage field declared on the
// backend itself is (re)assigned on every path through Init. A field that
// survives a re-Init (rollback reload, NoSyncReload) makes the backend's state
// depend on its history — "rolling back restores exactly the prior state" and
// backend equivalence both need this.
func c09R5(c *Ctx, id string) {
	c.rule(id, "init-resets-own-storage", 2, func() {
		pk := c.P.Pkg(freelistPath)
		for _, tn := range []string{"array", "hashMap"} {
			obj := pk.Types.Scope().Lookup(tn)
			st := obj.Type().Underlying().(*types.Struct)
			ini := c.fn("freelist.(*" + tn + ").Init")
			bad := ""
			n := 0
			for i := 0; i < st.NumFields(); i++ {
				f := st.Field(i)
				if f.Embedded() {
					continue
				}
				n++
				var stores []ssa.Instruction
				eachInstr(ini, func(in ssa.Instruction) {
					if s, ok := in.(*ssa.Store); ok {
						if fa, ok := s.Addr.(*ssa.FieldAddr); ok && fieldOfAddr(fa) == f {
							stores = append(stores, in)
						}
					}
				})
				isStore := func(in ssa.Instruction) bool {
					for _, s := range stores {
						if s == in {
							return true
						}
					}
					return false
				}
				r := reach(nil, []*ssa.BasicBlock{ini.Blocks[0]}, isStore, nil)
				for _, ret := range returnsOf(ini) {
					if r[ret] {
						bad = "field " + f.Name() + " of *" + tn + " is not assigned on a path through Init"
					}
				}
			}
			c.check(id+":freelist.(*"+tn+").Init:resets-own-fields", ini, ini.Pos(), fmt.Sprintf("Init assigns every storage field declared on *%s (%d fields) on every path: a re-initialised backend does not depend on its previous content", tn, n), bad == "" && n > 0, bad)
		}
	})
}

// ruleFreelistNoAlias: the in-memory free list never aliases a page. The ids handed to Init / NoSyncReload
// must be a private copy: the array backend keeps the slice and later compacts it in place, and a page is
// either read-only mapped memory (fault) or a buffer that is about to be reused.
func ruleFreelistNoAlias(c *Ctx, id string) {
	c.rule(id, "free-list-does-not-alias-pages", 3, func() {
		n := 0
		for _, fn := range append(c.P.FnsIn(freelistPath), c.P.FnsIn(rootPkg)...) {
			for _, ci := range callsIn(fn, "freelist.Interface.Init", "freelist.Interface.NoSyncReload") {
				n++
				bad := ""
				isClone := func(v ssa.Value) bool {
					call, ok := v.(*ssa.Call)
					if !ok {
						return false
					}
					switch calleeOf(call).Name() {
					case "slices.Clone", "bytes.Clone":
						return true
					}
					if calleeOf(call).Static != nil && strings.HasPrefix(calleeOf(call).Static.Name(), "Clone[") && fnPkg(calleeOf(call).Static) != nil && fnPkg(calleeOf(call).Static).Path() == "slices" {
						return true
					}
					if calleeOf(call).Builtin == "append" && len(call.Call.Args) == 2 && isNilConst(stripConv(call.Call.Args[0])) {
						return true
					}
					return false
				}
				for _, l := range provenance(ci.Common().Args[0], provOpts{ThroughCall: throughAll, StopAt: isClone}) {
					if l.Kind == "call" && (l.Name == "common.(*Page).FreelistPageIds" || l.Name == "bbolt.(*DB).page" || l.Name == "bbolt.(*Tx).page" || l.Name == "builtin:Slice") {
						bad = "the id list derives from " + l.Name + " (memory of a page)"
					}
					if l.Kind == "field" && (l.Name == "data" || strings.HasSuffix(l.Name, ".data")) {
						bad = "the id list derives from the mapping"
					}
				}
				c.check(fmt.Sprintf("%s:%s:%s#%d", id, shortFn(fn), calleeOf(ci).Name(), n), fn, ci.Pos(), "the id list given to the free list is private memory (a copy, a scan result or the backend's own list), never a view of a page", bad == "", bad)
			}
		}
	})
}

// c09R7: "freeing makes a page AND ITS OVERFLOW pending": the loop in Free that records ids runs over
// exactly p.Id() .. p.Id()+p.Overflow() (tabulated on the loop's induction variable, bound and step).
func c09R7(c *Ctx, id string) {
	c.rule(id, "free-covers-the-run", 1, func() {
		fr := c.fn("freelist.(*shared).Free")
		idsF := c.P.lookupField(freelistPath, "txPending", "ids")
		var store *ssa.Store
		for _, st := range storesToField([]*ssa.Function{fr}, idsF) {
			store, _ = st.Instr.(*ssa.Store)
		}
		if store == nil {
			c.check(id+":freelist.(*shared).Free:run", fr, fr.Pos(), "Free appends to txPending.ids", false, "no store to txPending.ids in Free")
			return
		}
		loops := naturalLoops(fr)
		var hdr *ssa.BasicBlock
		size := 1 << 30
		for h, body := range loops {
			if body[store.Block()] && len(body) < size {
				hdr, size = h, len(body)
			}
		}
		bad := ""
		if hdr == nil {
			bad = "the store to txPending.ids is not inside a loop: only one id is recorded per freed page run"
		} else {
			iff, ok := hdr.Instrs[len(hdr.Instrs)-1].(*ssa.If)
			var bo *ssa.BinOp
			if ok {
				bo, _ = iff.Cond.(*ssa.BinOp)
			}
			if bo == nil {
				bad = "loop header does not end in a comparison"
			} else {
				for _, row := range [][2]uint64{{10, 0}, {10, 3}, {7, 70000}} {
					hooks := func() *Evaluator {
						return &Evaluator{Call: func(call *ssa.Call, args []V) (V, bool) {
							switch calleeOf(call).Name() {
							case "common.(*Page).Id":
								return uV(row[0]), true
							case "common.(*Page).Overflow":
								return uV(row[1]), true
							}
							return unkV, false
						}}
					}
					ind, bound := bo.X, bo.Y
					first, ok1 := hooks().ValueAtEntry(ind).Int()
					lim, ok2 := hooks().ValueAtEntry(bound).Int()
					last := int64(0)
					switch bo.Op {
					case token.LEQ:
						last = lim
					case token.LSS:
						last = lim - 1
					default:
						bad = "unrecognised loop comparison " + bo.Op.String()
					}
					if bad == "" && (!ok1 || !ok2 || uint64(first) != row[0] || uint64(last) != row[0]+row[1]) {
						bad = fmt.Sprintf("page %d with overflow %d: the loop records ids %d..%d, want %d..%d", row[0], row[1], first, last, row[0], row[0]+row[1])
					}
				}
				// step +1 and the recorded id is the induction variable
				if ph, isPhi := bo.X.(*ssa.Phi); bad == "" && isPhi {
					stepOK := false
					for i, e := range ph.Edges {
						if hdr.Dominates(ph.Block().Preds[i]) {
							if add, isAdd := e.(*ssa.BinOp); isAdd && add.Op == token.ADD && add.X == ssa.Value(ph) {
								if k, isK := constInt(add.Y); isK && k == 1 {
									stepOK = true
								}
							}
						}
					}
					if !stepOK {
						bad = "the id does not advance by exactly 1 per iteration"
					}
					rec := false
					for _, l := range provenance(store.Val, provOpts{ThroughCall: func(call *ssa.Call) bool { return calleeOf(call).Name() == "builtin:append" }}) {
						if l.V == ssa.Value(ph) {
							rec = true
						}
					}
					if !rec {
						bad = "the value appended to txPending.ids is not the loop's page id"
					}
				} else if bad == "" {
					bad = "loop induction variable not recognised"
				}
			}
		}
		c.check(id+":freelist.(*shared).Free:run", fr, store.Pos(), "Free records every id of the run p.Id() .. p.Id()+p.Overflow() as pending (induction variable, bound and step tabulated)", bad == "", bad)
	})
}

// c09R9: "pending pages become free": the ids handed to a backend's mergeSpans must all reach its
// storage. array: the new f.ids derives from the parameter. hashMap: every maximal run is handed to
// mergeWithExistingSpan — inside the loop whenever the run breaks, and once more after the loop for the
// last run — and mergeWithExistingSpan always ends in addSpan.
func c09R9(c *Ctx, id string) {
	c.rule(id, "released-ids-reach-the-store", 4, func() {
		// array
		am := c.fn("freelist.(*array).mergeSpans")
		idsF := c.P.lookupField(freelistPath, "array", "ids")
		ok := false
		for _, st := range storesToField([]*ssa.Function{am}, idsF) {
			for _, l := range provenance(st.Val, provOpts{ThroughCall: throughAll}) {
				if l.Kind == "param" && l.Name == "ids" {
					ok = true
				}
			}
		}
		c.check(id+":freelist.(*array).mergeSpans:stores-param", am, am.Pos(), "the array backend's new id list derives from the ids it was given", ok, "f.ids is not assigned from the parameter")
		// hashMap
		hm := c.fn("freelist.(*hashMap).mergeSpans")
		calls := plainCallsIn(hm, "freelist.(*hashMap).mergeWithExistingSpan")
		isCall := func(in ssa.Instruction) bool {
			for _, x := range calls {
				if ssa.Instruction(x) == in {
					return true
				}
			}
			return false
		}
		// (a) every return reachable without a flush is the early return on empty input
		bad := ""
		r := reach(nil, []*ssa.BasicBlock{hm.Blocks[0]}, isCall, nil)
		for _, ret := range returnsOf(hm) {
			if !r[ret] {
				continue
			}
			// must be guarded by len(ids) == 0
			guarded := false
			for b := ret.Block(); b != nil; b = b.Idom() {
				d := b.Idom()
				if d == nil {
					break
				}
				if iff, isIf := d.Instrs[len(d.Instrs)-1].(*ssa.If); isIf {
					if bo, isB := iff.Cond.(*ssa.BinOp); isB && bo.Op == token.EQL {
						if k, isK := constInt(bo.Y); isK && k == 0 {
							if call, isC := bo.X.(*ssa.Call); isC && calleeOf(call).Name() == "builtin:len" && blockDominatedByEdge(d, d.Succs[0], ret.Block()) {
								guarded = true
							}
						}
					}
				}
			}
			if !guarded {
				bad = "mergeSpans can return for a non-empty id list without handing its last run to mergeWithExistingSpan"
			}
		}
		c.check(id+":freelist.(*hashMap).mergeSpans:last-run-flushed", hm, hm.Pos(), "every return for non-empty input is preceded by a mergeWithExistingSpan call (the last run is not dropped)", bad == "" && len(calls) >= 1, bad)
		// (b) inside the loop: whenever the run start is re-assigned, the old run was flushed first
		bad = ""
		loops := naturalLoops(hm)
		found := false
		for h, body := range loops {
			for _, in := range h.Instrs {
				ph, isPhi := in.(*ssa.Phi)
				if !isPhi {
					break
				}
				isStart := false
				for _, call := range calls {
					if call.Call.Args[1] == ssa.Value(ph) {
						isStart = true
					}
				}
				if !isStart {
					continue // only the run-start variable is judged (the one handed to the flush as its first argument)
				}
				// leaves of the loop-carried value: (value, block it flows out of), looking through inner phis
				var visit func(v ssa.Value, from *ssa.BasicBlock, seen map[ssa.Value]bool)
				visit = func(v ssa.Value, from *ssa.BasicBlock, seen map[ssa.Value]bool) {
					if v == ssa.Value(ph) || seen[v] {
						return
					}
					if inner, isInner := v.(*ssa.Phi); isInner && body[inner.Block()] && inner.Block() != h {
						seen[v] = true
						for j, e := range inner.Edges {
							visit(e, inner.Block().Preds[j], seen)
						}
						return
					}
					// v redefines ph when control leaves `from`: was ph the start of a flushed run before?
					flushed := false
					for _, call := range calls {
						if call.Call.Args[1] == ssa.Value(ph) {
							found = true
							if body[call.Block()] && call.Block().Dominates(from) {
								flushed = true
							}
						}
					}
					if !flushed {
						bad = "the run start is re-assigned on a loop path that did not flush the previous run"
					}
				}
				for i, e := range ph.Edges {
					if body[h.Preds[i]] {
						visit(e, h.Preds[i], map[ssa.Value]bool{})
					}
				}
			}
		}
		if !found {
			bad = "no in-loop mergeWithExistingSpan(start, …) precedes the re-assignment of the run start"
		}
		c.check(id+":freelist.(*hashMap).mergeSpans:run-flushed-on-break", hm, hm.Pos(), "when a run of consecutive ids breaks, the finished run is handed to mergeWithExistingSpan before a new run starts", bad == "", bad)
		// (c) mergeWithExistingSpan always ends in addSpan
		mw := c.fn("freelist.(*hashMap).mergeWithExistingSpan")
		adds := plainCallsIn(mw, "freelist.(*hashMap).addSpan")
		isAdd := func(in ssa.Instruction) bool {
			for _, x := range adds {
				if ssa.Instruction(x) == in {
					return true
				}
			}
			return false
		}
		bad = ""
		r = reach(nil, []*ssa.BasicBlock{mw.Blocks[0]}, isAdd, nil)
		for _, ret := range returnsOf(mw) {
			if r[ret] {
				bad = "mergeWithExistingSpan can return without addSpan"
			}
		}
		c.check(id+":freelist.(*hashMap).mergeWithExistingSpan:adds", mw, mw.Pos(), "every path through mergeWithExistingSpan records the (merged) span with addSpan", bad == "" && len(adds) >= 1, bad)
	})
}
