package main

import (
	"fmt"
	"strings"

	"golang.org/x/tools/go/ssa"
)

func init() {
	register(&propDef{
		ID: "C14",
		Explanation: "Decided: the backup is cut from the transaction's OWN snapshot meta (never db.meta()); both meta pages written carry a checksum computed after their last change, page 0 keeps the snapshot txid and page 1 gets txid-1 (so page 0 wins); " +
			"the data range is [2*pageSize, tx.Size()) and the byte count returned is the sum of what was written — on success exactly tx.Size(), on every error exit the running count (WriteTo evaluated symbolically for the success path and each failing write); CopyFile closes the destination on both paths and returns the close error on success. " +
			"While the copy runs, the snapshot's pages can only be overwritten if they enter the allocator's free set: the free-set entry chain of C06.R3 is re-evaluated here (R5). " +
			"NOT decided: that the result opens and passes Check; the copy loop reading the file concurrently with commits (dynamic). Round 3: a backup never closes the database's own file handle.",
		Run: func(c *Ctx) {
			ruleBackupMetaBufferOnePage(c, "C14.R9")
			ruleDataFileClosedOnlyByClose(c, "C14.R8") // "other transactions keep committing during the copy": a backup never closes the database's own handle
			c14R1(c, "C14.R1")
			c14R2(c, "C14.R2")
			c14R4(c, "C14.R4")
			ruleTestedErrorsPropagate(c, "C14.R6", []string{rootPkg, commonPath}, 5, func(n string) bool {
				return strings.Contains(n, "(*Tx).WriteTo") || strings.Contains(n, "(*Tx).Copy") || strings.Contains(n, "common.CopyFile")
			}) // a backup that could not be written is not reported as complete
			ruleWriteErrorsKept(c, "C14.R7", []string{rootPkg, commonPath}, 3, func(n string) bool {
				return strings.Contains(n, "(*Tx).WriteTo") || strings.Contains(n, "(*Tx).Copy") || strings.Contains(n, "common.CopyFile")
			})
			ruleFreeSetEntry(c, "C14.R5") // pages of the snapshot being copied stay out of the free set while the backup reader is registered
		},
	})
}

func c14R1(c *Ctx, id string) {
	c.rule(id, "backup-from-own-snapshot", 3, func() {
		wt := c.fn("bbolt.(*Tx).WriteTo")
		// the whole-struct store into the page's meta
		n := 0
		eachInstr(wt, func(in ssa.Instruction) {
			st, ok := in.(*ssa.Store)
			if !ok || !isMetaPtr(st.Addr.Type()) {
				return
			}
			n++
			ls := provenance(st.Val, provOpts{ThroughCall: throughAll})
			bad := ""
			own := false
			for _, l := range ls {
				if l.Kind == "field" && l.Name == "meta" {
					if _, isP := l.Root.(*ssa.Parameter); isP {
						own = true
					}
				}
				if l.Kind == "call" && (l.Name == "bbolt.(*DB).meta" || l.Name == "bbolt.(*DB).page") {
					bad = "the meta copied derives from " + l.Name + " (the CURRENT state, not the snapshot)"
				}
				if l.Kind == "field" && (strings.HasSuffix(l.Name, "meta0") || strings.HasSuffix(l.Name, "meta1")) {
					bad = "the meta copied derives from " + l.Name
				}
			}
			if !own && bad == "" {
				bad = "the meta copied does not derive from tx.meta"
			}
			c.check(id+":(*Tx).WriteTo:meta-from-tx.meta", wt, in.Pos(), "the meta written to the copy is a value copy of tx.meta (the transaction's private snapshot)", bad == "", bad)
		})
		if n == 0 {
			c.check(id+":(*Tx).WriteTo:meta-store", wt, wt.Pos(), "WriteTo fills a meta page", false, "no store into a *Meta found")
		}
		// db.meta()/meta0/meta1 are not read at all
		bad := ""
		eachInstr(wt, func(in ssa.Instruction) {
			if isCallTo(in, "bbolt.(*DB).meta", "bbolt.(*DB).hasSyncedFreelist") {
				bad = c.P.Position(in.Pos())
			}
			if fa, ok := in.(*ssa.FieldAddr); ok {
				if nm := fieldOfAddr(fa).Name(); nm == "meta0" || nm == "meta1" {
					bad = c.P.Position(in.Pos())
				}
			}
		})
		c.check(id+":(*Tx).WriteTo:no-current-meta", wt, wt.Pos(), "WriteTo never reads db.meta() / meta0 / meta1", bad == "", "current meta read at "+bad)
		// data length from tx.Size()
		for _, callee := range []string{"io.NewSectionReader", "io.CopyN"} {
			for _, call := range plainCallsIn(wt, callee) {
				ls := provenance(call.Call.Args[2], provOpts{ThroughCall: throughAll})
				ok := hasLeaf(ls, "call", "bbolt.(*Tx).Size")
				for _, l := range ls {
					if l.Kind == "call" && (strings.Contains(l.Name, "Stat") || strings.Contains(l.Name, "fileSize") || strings.Contains(l.Name, "Seek")) {
						ok = false
					}
					if l.Kind == "field" && strings.HasSuffix(l.Name, "datasz") {
						ok = false
					}
				}
				c.check(id+":(*Tx).WriteTo:"+callee+"-length", wt, call.Pos(), "the length copied derives from tx.Size() (= snapshot high-water mark x page size), not from the file's current size", ok, "length derives from "+strings.Join(leafNames(ls), ","))
			}
		}
	})
}

type callRec struct {
	name string
	args []V
}

// evalWriteTo runs WriteTo symbolically; failAt selects which write fails (0 = none; 1,2 = meta writes; 3 = data copy).
func evalWriteTo(wt *ssa.Function, failAt int) (Outcome, []callRec) {
	var trace []callRec
	writes := 0
	ev := &Evaluator{
		Load: func(u *ssa.UnOp) (V, bool) {
			switch n := pathOf(u).Names(); {
			case n == "WriteFlag":
				return iV(0), true
			case strings.HasSuffix(n, "pageSize"):
				return iV(4096), true
			}
			return unkV, false
		},
		Call: func(call *ssa.Call, args []V) (V, bool) {
			switch calleeOf(call).Name() {
			case "bbolt.(*Tx).Size":
				return iV(40960), true
			case "common.(*Meta).Sum64":
				return symV("sum"), true
			case "fmt.Errorf":
				return symV("wrapped-err"), true
			}
			return unkV, false
		},
		CallN: func(call *ssa.Call, args []V) ([]V, bool) {
			switch calleeOf(call).Name() {
			case "io.Writer.Write":
				writes++
				if failAt == writes {
					return []V{iV(100), symV("err")}, true
				}
				return []V{iV(4096), nilV}, true
			case "io.CopyN":
				if failAt == 3 {
					return []V{iV(777), symV("err")}, true
				}
				if len(args) == 3 {
					return []V{args[2], nilV}, true
				}
			}
			return nil, false
		},
		OnCall: func(ci ssa.CallInstruction, args []V) {
			trace = append(trace, callRec{calleeOf(ci).Name(), args})
		},
	}
	o := ev.Exec(wt, nil)
	return o, trace
}

func c14R2(c *Ctx, id string) {
	c.rule(id, "meta-pages-and-byte-accounting", 7, func() {
		wt := c.fn("bbolt.(*Tx).WriteTo")
		o, tr := evalWriteTo(wt, 0)
		idx := func(name string, nth int, arg int64, useArg bool) int {
			k := 0
			for i, t := range tr {
				if t.name != name {
					continue
				}
				if useArg {
					if v, ok := t.args[len(t.args)-1].Int(); !ok || v != arg {
						continue
					}
				}
				k++
				if k == nth {
					return i
				}
			}
			return -1
		}
		id0, ck1, w1 := idx("common.(*Page).SetId", 1, 0, true), idx("common.(*Meta).SetChecksum", 1, 0, false), idx("io.Writer.Write", 1, 0, false)
		id1, dec, ck2, w2 := idx("common.(*Page).SetId", 1, 1, true), idx("common.(*Meta).DecTxid", 1, 0, false), idx("common.(*Meta).SetChecksum", 2, 0, false), idx("io.Writer.Write", 2, 0, false)
		okRun := o.Kind == "return"
		c.check(id+":(*Tx).WriteTo:evaluates", wt, wt.Pos(), "WriteTo evaluates to completion on the success path (WriteFlag unset)", okRun, o.String())
		ok1 := id0 >= 0 && ck1 > id0 && w1 > ck1
		if ok1 {
			for i := ck1 + 1; i < w1; i++ {
				if metaMutators[tr[i].name] || tr[i].name == "common.(*Page).SetId" {
					ok1 = false
				}
			}
		}
		c.check(id+":(*Tx).WriteTo:meta0", wt, wt.Pos(), "meta page 0: SetId(0), then SetChecksum(Sum64()), then the write, with no field store in between; it keeps the snapshot's txid", ok1 && (dec < 0 || dec > w1), fmt.Sprintf("order SetId(0)=%d checksum=%d write=%d DecTxid=%d", id0, ck1, w1, dec))
		ok2 := id1 > w1 && dec > w1 && ck2 > dec && ck2 > id1 && w2 > ck2 && idx("common.(*Meta).DecTxid", 2, 0, false) < 0 && idx("common.(*Meta).IncTxid", 1, 0, false) < 0
		if ok2 {
			for i := ck2 + 1; i < w2; i++ {
				if metaMutators[tr[i].name] || tr[i].name == "common.(*Page).SetId" {
					ok2 = false
				}
			}
		}
		c.check(id+":(*Tx).WriteTo:meta1", wt, wt.Pos(), "meta page 1: SetId(1) and exactly one DecTxid() after the first write, then SetChecksum(Sum64()), then the write — so page 0 carries the higher txid", ok2, fmt.Sprintf("order write1=%d SetId(1)=%d DecTxid=%d checksum=%d write2=%d", w1, id1, dec, ck2, w2))
		// both pages are typed as meta pages: SetFlags(MetaPageFlag) before the first write, never changed before the second
		fl := idx("common.(*Page).SetFlags", 1, 4, true)
		okFl := fl >= 0 && fl < w1
		for i, t := range tr {
			if t.name == "common.(*Page).SetFlags" && i != fl && i < w2 {
				okFl = false
			}
		}
		c.check(id+":(*Tx).WriteTo:meta-flag", wt, wt.Pos(), "the page buffer is typed SetFlags(MetaPageFlag) before meta page 0 is written and keeps that type for meta page 1", okFl, fmt.Sprintf("SetFlags(4) at trace index %d, first write at %d", fl, w1))
		// checksum argument is Sum64 of the page's meta
		okSum := true
		for _, t := range tr {
			if t.name == "common.(*Meta).SetChecksum" {
				if !(t.args[len(t.args)-1].K == vSym && t.args[len(t.args)-1].S == "sum") {
					okSum = false
				}
			}
		}
		c.check(id+":(*Tx).WriteTo:checksum-is-Sum64", wt, wt.Pos(), "both checksums are the result of Sum64()", okSum, "SetChecksum receives something else")
		// section reader window and total
		sr := idx("io.NewSectionReader", 1, 0, false)
		okSR := sr > w2
		detail := "NewSectionReader not after the meta writes"
		if okSR {
			off, _ := tr[sr].args[1].Int()
			ln, _ := tr[sr].args[2].Int()
			okSR = off == 2*4096 && ln == 40960-2*4096
			detail = fmt.Sprintf("window offset=%d length=%d, want offset=%d length=%d", off, ln, 2*4096, 40960-2*4096)
		}
		c.check(id+":(*Tx).WriteTo:data-window", wt, wt.Pos(), "the data copied is the window [2*pageSize, tx.Size()) of the file", okSR, detail)
		okN := o.Kind == "return" && len(o.Rets) == 2
		if okN {
			n, isI := o.Rets[0].Int()
			okN = isI && n == 40960 && o.Rets[1].K == vNil
		}
		c.check(id+":(*Tx).WriteTo:n=Size", wt, wt.Pos(), "on success the byte count returned is exactly tx.Size() (sum of the three writes) and the error is nil", okN, "returns "+o.String())
		// every failing write returns the running count and a non-nil error
		want := map[int]int64{1: 100, 2: 4096 + 100, 3: 8192 + 777}
		for f := 1; f <= 3; f++ {
			o, _ := evalWriteTo(wt, f)
			ok := o.Kind == "return" && len(o.Rets) == 2
			if ok {
				n, isI := o.Rets[0].Int()
				ok = isI && n == want[f] && o.Rets[1].K != vNil && o.Rets[1].K != vUnknown
			}
			c.check(fmt.Sprintf("%s:(*Tx).WriteTo:error-exit#%d", id, f), wt, wt.Pos(), fmt.Sprintf("if write %d fails, WriteTo returns the bytes written so far (%d) and a non-nil error", f, want[f]), ok, "returns "+o.String())
		}
	})
}

func c14R4(c *Ctx, id string) {
	c.rule(id, "copyfile-closes-destination", 2, func() {
		cf := c.fn("bbolt.(*Tx).CopyFile")
		wt := c.theCall(id, cf, "bbolt.(*Tx).WriteTo")
		if wt == nil {
			return
		}
		closes := callsIn(cf, "os.(*File).Close")
		var errSucc, okSucc []*ssa.BasicBlock
		for _, t := range errTests(wt) {
			errSucc = append(errSucc, t.NonNil)
			okSucc = append(okSucc, t.Nil)
		}
		isClose := func(in ssa.Instruction) bool { return isCallTo(in, "os.(*File).Close") }
		r := reach(nil, errSucc, isClose, nil)
		bad := ""
		for in := range r {
			if _, isR := in.(*ssa.Return); isR {
				bad = c.P.Position(in.Pos())
			}
		}
		c.check(id+":(*Tx).CopyFile:error-path-closes", cf, wt.Pos(), "if WriteTo fails the destination is closed before returning the error", bad == "" && len(errSucc) > 0 && len(closes) >= 2, "return at "+bad+" without f.Close()")
		okRet := false
		for in := range reach(nil, okSucc, nil, nil) {
			if ret, isR := in.(*ssa.Return); isR {
				if call, isCall := returnedValue(ret, 0).(*ssa.Call); isCall && calleeOf(call).Name() == "os.(*File).Close" {
					okRet = true
				} else {
					okRet = false
				}
			}
		}
		c.check(id+":(*Tx).CopyFile:success-returns-close-error", cf, wt.Pos(), "on success CopyFile returns the result of f.Close() (a failed flush on close is reported)", okRet, "the close error is dropped")
		// a failed open of the destination is returned (nothing is copied into a nil file)
		for _, ci := range fieldCallsIn(cf, c.dbField("openFile")) {
			if call, ok := ci.(*ssa.Call); ok {
				msg := errorHandled(call)
				if msg == "" {
					for _, t := range errTests(call) {
						if reach(nil, []*ssa.BasicBlock{t.NonNil}, nil, nil)[wt] {
							msg = "WriteTo is reachable although opening the destination failed"
						}
					}
				}
				c.check(id+":(*Tx).CopyFile:open-error", cf, call.Pos(), "if the destination cannot be opened CopyFile returns that error before copying", msg == "", msg)
			}
		}
		// the destination is opened for writing with truncation, through db.openFile
		okOpen := false
		for _, ci := range fieldCallsIn(cf, c.dbField("openFile")) {
			ev := &Evaluator{}
			if v, ok := ev.ValueAtEntry(ci.Common().Args[1]).Int(); ok {
				rw, cr, tr := c.mustConst("os", "O_RDWR"), c.mustConst("os", "O_CREATE"), c.mustConst("os", "O_TRUNC")
				okOpen = v&rw != 0 && v&cr != 0 && v&tr != 0
			}
		}
		c.check(id+":(*Tx).CopyFile:open-flags", cf, cf.Pos(), "the destination is opened O_RDWR|O_CREATE|O_TRUNC", okOpen, "different open flags")
	})
}
