package main

import (
	"go/ast"
	"path/filepath"
	"sort"
	"strings"

	"golang.org/x/tools/go/callgraph"
	"golang.org/x/tools/go/ssa"
)

func (c *Ctx) graph() *callgraph.Graph {
	if c.cgMode == "cha" {
		return c.P.CHA()
	}
	return c.P.VTA()
}

func isWrapper(fn *ssa.Function) bool {
	return fn != nil && fn.Synthetic != "" && fn.Syntax() == nil && !strings.HasPrefix(fn.Synthetic, "package init")
}

func inModulePkg(fn *ssa.Function) bool {
	pk := fnPkg(fn)
	return pk != nil && (pk.Path() == modulePath || strings.HasPrefix(pk.Path(), modulePath+"/"))
}

// callSite is a resolved caller -> callee edge.
type callSite struct {
	Caller *ssa.Function
	Site   ssa.CallInstruction
}

// callersOf returns the source-level call sites (in module functions) whose
// resolved callee is target, looking through synthetic wrappers.
func (c *Ctx) callersOf(target *ssa.Function) []callSite {
	g := c.graph()
	var out []callSite
	seen := map[*ssa.Function]bool{}
	var visit func(f *ssa.Function)
	visit = func(f *ssa.Function) {
		if f == nil || seen[f] {
			return
		}
		seen[f] = true
		n := g.Nodes[f]
		if n == nil {
			return
		}
		for _, e := range n.In {
			caller := e.Caller.Func
			if isWrapper(caller) {
				visit(caller)
				continue
			}
			if caller == nil || !inModulePkg(caller) {
				continue
			}
			out = append(out, callSite{caller, e.Site})
		}
	}
	visit(target)
	sort.Slice(out, func(i, j int) bool {
		if out[i].Caller != out[j].Caller {
			return c.P.posLess(out[i].Caller, out[j].Caller)
		}
		pi, pj := 0, 0
		if out[i].Site != nil {
			pi = int(out[i].Site.Pos())
		}
		if out[j].Site != nil {
			pj = int(out[j].Site.Pos())
		}
		return pi < pj
	})
	return out
}

// callerNames returns the de-duplicated short names of the top-level
// functions that contain a call to target.
func (c *Ctx) callerNames(target *ssa.Function) []string {
	set := map[string]bool{}
	for _, cs := range c.callersOf(target) {
		// a NEW function (not on the confirmed tree) that could not be substituted into its callers (it is used as a
		// method value, deferred, spawned ...) acts on behalf of the functions that reference it
		for _, o := range c.ownersOf(cs.Caller, 0) {
			set[shortFn(o)] = true
		}
	}
	return sortedKeys(set)
}

// isNewFunc: the (top-level) function does not exist on the confirmed tree (known_funcs.txt) and is not a rename.
func (c *Ctx) isNewFunc(fn *ssa.Function) bool {
	fn = topLevel(fn)
	if fn == nil || fn.Syntax() == nil || !inModulePkg(fn) {
		return false
	}
	fd, ok := fn.Syntax().(*ast.FuncDecl)
	if !ok {
		return false
	}
	file := c.P.Fset.Position(fd.Pos()).Filename
	rel, err := filepath.Rel(c.P.Repo, filepath.Dir(file))
	if err != nil {
		return false
	}
	key := funcKey(rel, fd)
	if _, renamed := renamedFuncs[key]; renamed {
		return false
	}
	return !knownFuncs[key]
}

// ownersOf: fn itself when it exists on the confirmed tree; otherwise the confirmed functions that reference it.
func (c *Ctx) ownersOf(fn *ssa.Function, depth int) []*ssa.Function {
	top := topLevel(fn)
	if depth > 3 || !c.isNewFunc(top) {
		return []*ssa.Function{fn}
	}
	var out []*ssa.Function
	seen := map[*ssa.Function]bool{}
	for _, g := range c.P.Subjects {
		if topLevel(g) == top {
			continue
		}
		refs := false
		eachInstr(g, func(in ssa.Instruction) {
			for _, op := range in.Operands(nil) {
				if op == nil || *op == nil {
					continue
				}
				if f, ok := (*op).(*ssa.Function); ok {
					if f == top || (f.Object() != nil && f.Object() == top.Object()) {
						refs = true
					}
				}
				if mc, ok := (*op).(*ssa.MakeClosure); ok {
					if f, ok := mc.Fn.(*ssa.Function); ok && f.Object() != nil && f.Object() == top.Object() {
						refs = true
					}
				}
			}
		})
		if refs && !seen[topLevel(g)] {
			seen[topLevel(g)] = true
			out = append(out, c.ownersOf(topLevel(g), depth+1)...)
		}
	}
	if len(out) == 0 {
		return []*ssa.Function{fn}
	}
	return out
}

// calleesAt returns the functions a call site may invoke according to the call graph.
func (c *Ctx) calleesAt(site ssa.CallInstruction) []*ssa.Function {
	if f := calleeOf(site).Static; f != nil {
		return []*ssa.Function{f}
	}
	n := c.graph().Nodes[site.Parent()]
	if n == nil {
		return nil
	}
	var out []*ssa.Function
	for _, e := range n.Out {
		if e.Site == site {
			out = append(out, e.Callee.Func)
		}
	}
	return out
}

// reachPath does a BFS over the call graph from the given functions through
// module functions only, and returns the call chain to the first function
// whose short name is in targets (or nil). Calls through a func-typed PARAMETER
// are resolved with one level of calling context: when a function was entered
// through a call site that passes function literals, only those literals are
// followed at the invocation of that parameter (the call graph alone would
// merge the callbacks of every caller of an iterator such as ForEachBucket).
func (c *Ctx) reachPath(from []*ssa.Function, targets map[string]bool, skip map[string]bool) []string {
	g := c.graph()
	type item struct {
		f    *ssa.Function
		site ssa.CallInstruction // the call through which f was entered (nil for roots)
		prev *item
	}
	type key struct {
		f    *ssa.Function
		site ssa.CallInstruction
	}
	seen := map[key]bool{}
	var queue []*item
	for _, f := range from {
		if f != nil && !seen[key{f, nil}] {
			seen[key{f, nil}] = true
			queue = append(queue, &item{f, nil, nil})
		}
	}
	for len(queue) > 0 {
		it := queue[0]
		queue = queue[1:]
		name := shortFn(it.f)
		if targets[name] {
			var path []string
			for x := it; x != nil; x = x.prev {
				path = append([]string{shortFn(x.f)}, path...)
			}
			return path
		}
		if skip[name] {
			continue
		}
		n := g.Nodes[it.f]
		if n == nil {
			continue
		}
		type out struct {
			f    *ssa.Function
			site ssa.CallInstruction
		}
		var outs []out
		for _, e := range n.Out {
			cf := e.Callee.Func
			if cf == nil || !inModulePkg(cf) {
				continue
			}
			if c.cgMode == "cha" && e.Site != nil && !e.Site.Common().IsInvoke() && calleeOf(e.Site).Static == nil {
				// CHA resolves a call through a func value by signature only
				// (every func() in the program); such edges are followed under VTA only.
				continue
			}
			// invocation of a func-typed parameter: use the closures of the entering call site
			if e.Site != nil && it.site != nil && !e.Site.Common().IsInvoke() && calleeOf(e.Site).Static == nil {
				if p, isP := resolveCell(e.Site.Common().Value).(*ssa.Parameter); isP && p.Parent() == it.f {
					idx := -1
					for i, fp := range it.f.Params {
						if fp == p {
							idx = i
						}
					}
					args := it.site.Common().Args
					if calleeOf(it.site).Static == it.f && idx >= 0 && idx < len(args) {
						if lit := closureOf(args[idx]); lit != nil {
							if lit != cf {
								continue // another caller's callback
							}
						}
					}
				}
			}
			// context is only kept where it matters: when the call passes a function literal
			var ctxSite ssa.CallInstruction
			if e.Site != nil {
				for _, a := range e.Site.Common().Args {
					if closureOf(a) != nil {
						ctxSite = e.Site
					}
				}
			}
			k := key{cf, ctxSite}
			if seen[k] {
				continue
			}
			seen[k] = true
			outs = append(outs, out{cf, ctxSite})
		}
		sort.Slice(outs, func(i, j int) bool { return shortFn(outs[i].f) < shortFn(outs[j].f) })
		for _, o := range outs {
			queue = append(queue, &item{o.f, o.site, it})
		}
	}
	return nil
}

// siteReaches: can the call at `site` (transitively, through module functions) reach a target?
func (c *Ctx) siteReaches(site ssa.CallInstruction, targets map[string]bool, skip map[string]bool) []string {
	if targets[calleeOf(site).Name()] {
		return []string{calleeOf(site).Name()}
	}
	var from []*ssa.Function
	for _, f := range c.calleesAt(site) {
		if f != nil && inModulePkg(f) {
			from = append(from, f)
		}
	}
	// closures created in the caller and passed as arguments run inside the callee
	for _, a := range site.Common().Args {
		if f := closureOf(a); f != nil {
			from = append(from, f)
		}
	}
	return c.reachPath(from, targets, skip)
}
