package main

import (
	"fmt"
	"go/constant"
	"go/token"
	"go/types"
	"strings"

	"golang.org/x/tools/go/ssa"
)

// rulePageCapacity (C07.R8): "every element lies inside its page" and "the file is at least as long as
// the high-water mark" have a structural core: the number of pages requested for a node / the free list
// is computed from the very size the serialiser will write, the buffers behind those pages are that
// large, and the file is grown to the high-water mark. The arithmetic sites are few, so each one is
// tabulated over sample sizes with the T6 evaluator.
func rulePageCapacity(c *Ctx, id string) {
	c.rule(id, "page-capacity", 9, func() {
		type row struct{ S, P int64 }
		rows := []row{{16, 4096}, {4095, 4096}, {4096, 4096}, {4097, 4096}, {8192, 4096}, {8193, 4096}, {100000, 4096}, {16384, 16384}, {16385, 16384}, {513, 512}}
		ceil := func(a, b int64) int64 { return (a + b - 1) / b }
		loadPS := func(P int64) func(u *ssa.UnOp) (V, bool) {
			return func(u *ssa.UnOp) (V, bool) {
				if strings.HasSuffix(pathOf(u).Names(), "pageSize") {
					return iV(P), true
				}
				return unkV, false
			}
		}

		// (1) node.spill: allocate(ceil(node.size()/pageSize)) and the node written is the node measured
		sp := c.fn("bbolt.(*node).spill")
		als := plainCallsIn(sp, "bbolt.(*Tx).allocate")
		if len(als) != 1 {
			c.check(id+":(*node).spill:allocate-count", sp, sp.Pos(), "one tx.allocate call in spill", false, fmt.Sprintf("found %d", len(als)))
		} else {
			al := als[0]
			var sizeRecv ssa.Value
			bad := ""
			for _, r := range rows {
				ev := &Evaluator{Load: loadPS(r.P), Call: func(call *ssa.Call, args []V) (V, bool) {
					if calleeOf(call).Name() == "bbolt.(*node).size" {
						sizeRecv = call.Call.Args[0]
						return iV(r.S), true
					}
					return unkV, false
				}}
				got := ev.ValueAtEntry(al.Call.Args[1])
				if g, ok := got.Int(); !ok || g < ceil(r.S, r.P) {
					bad = fmt.Sprintf("node of %d bytes, page size %d: %s pages requested, need %d", r.S, r.P, got, ceil(r.S, r.P))
					break
				}
			}
			c.check(id+":(*node).spill:allocate-count", sp, al.Pos(), fmt.Sprintf("the page count requested for a node is at least ceil(node.size()/pageSize) (%d rows)", len(rows)), bad == "", bad)
			// the node written into the page is the node whose size was taken, and the page is the allocated one
			ws := plainCallsIn(sp, "bbolt.(*node).write")
			ok := len(ws) == 1 && sizeRecv != nil
			detail := fmt.Sprintf("%d node.write calls", len(ws))
			if ok {
				w := ws[0]
				if !sameValue(w.Call.Args[0], sizeRecv) {
					ok, detail = false, "node.write is called on a different node than the one whose size() determined the allocation"
				}
				fromAlloc := false
				for _, l := range provenance(w.Call.Args[1], provOpts{}) {
					if l.Kind == "call" && l.Name == "bbolt.(*Tx).allocate" && l.V == ssa.Value(al) {
						fromAlloc = true
					}
				}
				if !fromAlloc {
					ok, detail = false, "the page handed to node.write is not the result of this iteration's tx.allocate"
				}
			}
			c.check(id+":(*node).spill:measured-node-is-written", sp, al.Pos(), "node.write(p) writes the node whose size() was used, into the page tx.allocate returned", ok, detail)
		}

		// (2) commitFreelist: allocate(estimate/pageSize + 1) >= ceil(estimate/pageSize)
		cf := c.fn("bbolt.(*Tx).commitFreelist")
		als = plainCallsIn(cf, "bbolt.(*Tx).allocate")
		if len(als) != 1 {
			c.check(id+":(*Tx).commitFreelist:allocate-count", cf, cf.Pos(), "one tx.allocate call", false, fmt.Sprintf("found %d", len(als)))
		} else {
			bad := ""
			for _, r := range rows {
				ev := &Evaluator{Load: loadPS(r.P), Call: func(call *ssa.Call, args []V) (V, bool) {
					if strings.HasSuffix(calleeOf(call).Name(), ".EstimatedWritePageSize") {
						return iV(r.S), true
					}
					return unkV, false
				}}
				got := ev.ValueAtEntry(als[0].Call.Args[1])
				if g, ok := got.Int(); !ok || g < ceil(r.S, r.P) {
					bad = fmt.Sprintf("free list of %d bytes, page size %d: %s pages requested, need %d", r.S, r.P, got, ceil(r.S, r.P))
					break
				}
			}
			c.check(id+":(*Tx).commitFreelist:allocate-count", cf, als[0].Pos(), "the page count requested for the free list is at least ceil(EstimatedWritePageSize()/pageSize)", bad == "", bad)
			// the page written is the allocated one
			ok := false
			for _, w := range callsIn(cf, "freelist.ReadWriter.Write", "freelist.Interface.Write") {
				for _, l := range provenance(w.Common().Args[0], provOpts{}) {
					if l.Kind == "call" && l.V == ssa.Value(als[0]) {
						ok = true
					}
				}
			}
			c.check(id+":(*Tx).commitFreelist:writes-allocated-page", cf, als[0].Pos(), "freelist.Write receives the page tx.allocate returned", ok, "freelist.Write is not called with the allocated page")
		}

		// (3) db.allocate: buffer = count*pageSize bytes (pool buffer of pageSize bytes only when count == 1)
		da := c.fn("bbolt.(*DB).allocate")
		var mk *ssa.MakeSlice
		eachInstr(da, func(in ssa.Instruction) {
			if m, ok := in.(*ssa.MakeSlice); ok {
				mk = m
			}
		})
		if mk == nil {
			c.check(id+":(*DB).allocate:buffer", da, da.Pos(), "a make([]byte, n) for multi-page runs", false, "no make in db.allocate")
		} else {
			bad := ""
			for _, r := range []row{{2, 4096}, {3, 4096}, {25, 16384}, {7, 512}} {
				ev := &Evaluator{Load: loadPS(r.P), Param: func(p *ssa.Parameter) (V, bool) {
					if isLastParam(p) {
						return iV(r.S), true
					}
					return unkV, false
				}}
				got := ev.ValueAtEntry(mk.Len)
				if g, ok := got.Int(); !ok || g < r.S*r.P {
					bad = fmt.Sprintf("count %d, page size %d: buffer of %s bytes, need %d", r.S, r.P, got, r.S*r.P)
					break
				}
			}
			c.check(id+":(*DB).allocate:buffer", da, mk.Pos(), "a run of count pages is backed by a buffer of at least count*pageSize bytes", bad == "", bad)
		}
		// pool buffer only on the count == 1 edge, and the pool's New makes pageSize bytes
		{
			var get ssa.CallInstruction
			for _, ci := range callsIn(da, "sync.(*Pool).Get") {
				get = ci
			}
			ok, detail := get != nil, "no pagePool.Get call"
			if ok {
				ok, detail = false, "pagePool.Get is not confined to the `count == 1` branch"
				for b := get.Block(); b != nil; b = b.Idom() {
					iff, isIf := b.Instrs[len(b.Instrs)-1].(*ssa.If)
					if !isIf {
						continue
					}
					bo, isB := iff.Cond.(*ssa.BinOp)
					if !isB || bo.Op != token.EQL {
						continue
					}
					p, isP := stripConv(bo.X).(*ssa.Parameter)
					k, isK := constInt(bo.Y)
					if isP && isLastParam(p) && isK && k == 1 && blockDominatedByEdge(b, b.Succs[0], get.Block()) {
						ok = true
					}
				}
			}
			c.check(id+":(*DB).allocate:pool-only-for-one-page", da, da.Pos(), "the pooled single-page buffer is used only when count == 1", ok, detail)
			open := c.fn("bbolt.Open")
			okN, detailN := false, "no closure stored into pagePool.New found in Open"
			for _, an := range open.AnonFuncs {
				var m *ssa.MakeSlice
				eachInstr(an, func(in ssa.Instruction) {
					if x, isM := in.(*ssa.MakeSlice); isM {
						m = x
					}
				})
				if m == nil || an.Signature.Results().Len() != 1 || an.Signature.Params().Len() != 0 {
					continue
				}
				// is this closure stored into a field named New?
				stored := false
				eachInstr(open, func(in ssa.Instruction) {
					st, isSt := in.(*ssa.Store)
					if !isSt {
						return
					}
					fa, isFA := st.Addr.(*ssa.FieldAddr)
					if !isFA || fieldOfAddr(fa).Name() != "New" {
						return
					}
					if closureOf(st.Val) == an {
						stored = true
					}
				})
				if !stored {
					continue
				}
				okN, detailN = true, ""
				for _, P := range []int64{4096, 16384, 512} {
					ev := &Evaluator{Load: loadPS(P)}
					if g, ok := ev.ValueAtEntry(m.Len).Int(); !ok || g < P {
						okN, detailN = false, fmt.Sprintf("the pool makes %d-byte buffers for page size %d", g, P)
					}
				}
			}
			c.check(id+":bbolt.Open:pool-buffer=pageSize", open, open.Pos(), "pagePool.New makes buffers of at least pageSize bytes", okN, detailN)
		}

		// (4) Bucket.write: inline bucket value = header + node.size(), node written right after the header
		bw := c.fn("bbolt.(*Bucket).write")
		mk = nil
		eachInstr(bw, func(in ssa.Instruction) {
			if m, ok := in.(*ssa.MakeSlice); ok {
				mk = m
			}
		})
		if mk == nil {
			c.check(id+":(*Bucket).write:buffer", bw, bw.Pos(), "make for the inline bucket value", false, "no make in Bucket.write")
		} else {
			bad := ""
			var sizeRecv ssa.Value
			hdr := int64(16) // v2 layout: bucket header (C12.R1 checks the struct)
			for _, S := range []int64{16, 17, 100, 1023} {
				ev := &Evaluator{Call: func(call *ssa.Call, args []V) (V, bool) {
					if calleeOf(call).Name() == "bbolt.(*node).size" {
						sizeRecv = call.Call.Args[0]
						return iV(S), true
					}
					return unkV, false
				}}
				got := ev.ValueAtEntry(mk.Len)
				if g, ok := got.Int(); !ok || g < hdr+S {
					bad = fmt.Sprintf("root node of %d bytes: value buffer of %s bytes, need %d", S, got, hdr+S)
					break
				}
			}
			ws := plainCallsIn(bw, "bbolt.(*node).write")
			if bad == "" && (len(ws) != 1 || sizeRecv == nil || !sameValue(ws[0].Call.Args[0], sizeRecv)) {
				bad = "the node written into the inline value is not the node whose size() sized the buffer"
			}
			if bad == "" {
				// the fake page starts at &value[BucketHeaderSize]
				okIdx := false
				eachInstr(bw, func(in ssa.Instruction) {
					if ia, isIA := in.(*ssa.IndexAddr); isIA {
						if k, isK := constInt(ia.Index); isK && k == hdr {
							okIdx = true
						}
					}
				})
				if !okIdx {
					bad = fmt.Sprintf("the inline page does not start at offset %d (the bucket header size) of the value", hdr)
				}
			}
			c.check(id+":(*Bucket).write:buffer", bw, mk.Pos(), "an inline bucket's value has room for the bucket header plus the root node's size(), and the node is written right after the header", bad == "", bad)
		}

		// (5) node.size / node.sizeLessThan count header + per element (element header + key + value)
		for _, name := range []string{"bbolt.(*node).size", "bbolt.(*node).sizeLessThan"} {
			fn := c.fn(name)
			var root ssa.Value
			if name == "bbolt.(*node).size" {
				for _, r := range returnsOf(fn) {
					root = returnedValue(r, 0)
				}
			} else {
				eachInstr(fn, func(in ssa.Instruction) {
					if bo, ok := in.(*ssa.BinOp); ok && (bo.Op == token.GEQ || bo.Op == token.GTR || bo.Op == token.LSS || bo.Op == token.LEQ) {
						if _, isP := stripConv(bo.Y).(*ssa.Parameter); isP {
							root = bo.X
						} else if _, isP := stripConv(bo.X).(*ssa.Parameter); isP {
							root = bo.Y
						}
					}
				})
			}
			miss := sizeTermsMissing(c, root)
			c.check(id+":"+strings.TrimPrefix(name, "bbolt.")+":terms", fn, fn.Pos(), "the node size sums the page header, and per element the element header, the key length and the value length", root != nil && miss == "", "missing term: "+miss)
		}

		// (6) WriteInodeToPage: key/value bytes start after header + elementSize*len(inodes) and advance by len(key)+len(value)
		wi := c.fn("common.WriteInodeToPage")
		var ubs *ssa.Call
		for _, call := range plainCallsIn(wi, "common.UnsafeByteSlice") {
			ubs = call
		}
		if ubs == nil {
			c.check(id+":common.WriteInodeToPage:data-start", wi, wi.Pos(), "UnsafeByteSlice call", false, "not found")
		} else {
			bad := ""
			hdr := int64(16) // v2 layout: page header (C12.R1 checks the struct)
			for _, n := range []int64{1, 2, 57} {
				for _, es := range []int64{16, 24} {
					ev := &Evaluator{Call: func(call *ssa.Call, args []V) (V, bool) {
						switch calleeOf(call).Name() {
						case "common.(*Page).PageElementSize":
							return iV(es), true
						case "builtin:len":
							return iV(n), true
						}
						return unkV, false
					}}
					got := ev.ValueAtEntry(ubs.Call.Args[1])
					if g, ok := got.Int(); !ok || g != hdr+es*n {
						bad = fmt.Sprintf("%d elements of %d bytes: data starts at %s, want %d", n, es, got, hdr+es*n)
					}
				}
			}
			if bad == "" {
				if msg := dataAdvance(wi, ubs); msg != "" {
					bad = msg
				}
			}
			c.check(id+":common.WriteInodeToPage:data-start", wi, ubs.Pos(), "key/value bytes start right after the element array (header + elementSize*len(inodes)) and each element's bytes follow the previous element's", bad == "", bad)
		}

		// (7) Commit grows the file to at least the high-water mark
		cm := c.fn("bbolt.(*Tx).Commit")
		gs := plainCallsIn(cm, "bbolt.(*DB).grow")
		if len(gs) != 1 {
			c.check(id+":(*Tx).Commit:grow-size", cm, cm.Pos(), "one db.grow call", false, fmt.Sprintf("found %d", len(gs)))
		} else {
			bad := ""
			for _, r := range []row{{4, 4096}, {1000, 4096}, {9, 16384}} {
				ev := &Evaluator{Load: loadPS(r.P), Call: func(call *ssa.Call, args []V) (V, bool) {
					if calleeOf(call).Name() == "common.(*Meta).Pgid" {
						return uV(uint64(r.S)), true
					}
					return unkV, false
				}}
				got := ev.ValueAtEntry(gs[0].Call.Args[1])
				if g, ok := got.Int(); !ok || g < r.S*r.P {
					bad = fmt.Sprintf("high-water mark %d, page size %d: grow(%s), need at least %d", r.S, r.P, got, r.S*r.P)
				}
			}
			c.check(id+":(*Tx).Commit:grow-size", cm, gs[0].Pos(), "Commit asks db.grow for at least highWaterMark*pageSize bytes", bad == "", bad)
		}

		// (8) grow: whenever it truncates, the new length covers the requested size
		gr := c.fn("bbolt.(*DB).grow")
		bad := growTable(c, gr)
		c.check(id+":(*DB).grow:table", gr, gr.Pos(), "when the requested size exceeds the file size and grow succeeds (sync enabled), the file was truncated to at least the requested size", bad == "", bad)

		// (9) the mapping covers what it is asked to cover
		ms := c.fn("bbolt.(*DB).mmapSize")
		bad = mmapSizeTable(c, ms)
		c.check(id+":(*DB).mmapSize:table", ms, ms.Pos(), "mmapSize(n) is at least n, a multiple of the page size and at most MaxMapSize, or an error when n exceeds MaxMapSize", bad == "", bad)
		dm := c.fn("bbolt.(*DB).mmap")
		bad = dbMmapTable(c, dm)
		c.check(id+":(*DB).mmap:table", dm, dm.Pos(), "db.mmap(minsz) maps mmapSize(max(fileSize, minsz)) bytes", bad == "", bad)
		bad = allocateRemapTable(c, da)
		c.check(id+":(*DB).allocate:mapping-covers-run", da, da.Pos(), "a run taken at the high-water mark that ends beyond the current mapping triggers db.mmap with a size covering the whole run", bad == "", bad)
	})
}

// sizeTermsMissing: which of the four terms of the node size is not among the provenance leaves.
func sizeTermsMissing(c *Ctx, root ssa.Value) string {
	if root == nil {
		return "size expression not found"
	}
	ls := provenance(root, provOpts{})
	hdr := int64(16) // v2 layout: page header (C12.R1 checks the struct)
	var hasHdr, hasEl, hasKey, hasVal bool
	for _, l := range ls {
		switch l.Kind {
		case "const":
			if k, ok := constInt(l.V); ok && k == hdr {
				hasHdr = true
			}
		case "call":
			switch {
			case strings.HasSuffix(l.Name, "pageElementSize"):
				hasEl = true
			case l.Name == "builtin:len":
				call := l.V.(*ssa.Call)
				for _, ll := range provenance(call.Call.Args[0], provOpts{}) {
					if ll.Kind == "call" && strings.HasSuffix(ll.Name, ".Key") {
						hasKey = true
					}
					if ll.Kind == "call" && strings.HasSuffix(ll.Name, ".Value") {
						hasVal = true
					}
				}
			case strings.HasSuffix(l.Name, ".Key"):
				hasKey = true
			case strings.HasSuffix(l.Name, ".Value"):
				hasVal = true
			}
		}
	}
	var miss []string
	if !hasHdr {
		miss = append(miss, fmt.Sprintf("page header (%d)", hdr))
	}
	if !hasEl {
		miss = append(miss, "element header size")
	}
	if !hasKey {
		miss = append(miss, "len(key)")
	}
	if !hasVal {
		miss = append(miss, "len(value)")
	}
	return strings.Join(miss, ", ")
}

// dataAdvance: the offset handed to UnsafeByteSlice is loop-carried and each iteration adds both
// len(key) and len(value).
func dataAdvance(fn *ssa.Function, ubs *ssa.Call) string {
	off := ubs.Call.Args[1]
	ph, ok := stripConv(off).(*ssa.Phi)
	if !ok {
		return "the data offset is not carried from one element to the next"
	}
	for i, e := range ph.Edges {
		pred := ph.Block().Preds[i]
		if !ph.Block().Dominates(pred) {
			continue // entry edge
		}
		var hasKey, hasVal, hasSelf bool
		for _, l := range provenance(e, provOpts{}) {
			if l.Kind == "phi" && l.V == ssa.Value(ph) {
				hasSelf = true
			}
			if l.Kind == "call" && l.Name == "builtin:len" {
				for _, ll := range provenance(l.V.(*ssa.Call).Call.Args[0], provOpts{}) {
					if ll.Kind == "call" && strings.HasSuffix(ll.Name, ".Key") {
						hasKey = true
					}
					if ll.Kind == "call" && strings.HasSuffix(ll.Name, ".Value") {
						hasVal = true
					}
				}
			}
		}
		if !hasKey || !hasVal {
			return "the data offset does not advance by len(key)+len(value) per element"
		}
		_ = hasSelf
	}
	return ""
}

// growTable executes db.grow over sample states and observes the Truncate argument.
func growTable(c *Ctx, gr *ssa.Function) string {
	type st struct{ req, file, data, alloc, max int64 }
	rows := []st{
		{32768, 16384, 32768, 16 << 20, 0},
		{32768, 16384, 65536, 16 << 20, 0},
		{40 << 20, 32 << 20, 64 << 20, 16 << 20, 0},
		{40 << 20, 32 << 20, 64 << 20, 16 << 20, 48 << 20},
		{40 << 20, 32 << 20, 64 << 20, 16 << 20, 60 << 20},
		{32768, 16384, 32768, 16 << 20, 32768},
		{8192, 16384, 32768, 16 << 20, 0},
	}
	for _, r := range rows {
		var trunc *int64
		ev := &Evaluator{
			Load: func(u *ssa.UnOp) (V, bool) {
				switch n := pathOf(u).Names(); {
				case strings.HasSuffix(n, "datasz"):
					return iV(r.data), true
				case strings.HasSuffix(n, "AllocSize"):
					return iV(r.alloc), true
				case strings.HasSuffix(n, "MaxSize"):
					return iV(r.max), true
				case strings.HasSuffix(n, "NoGrowSync"), strings.HasSuffix(n, "readOnly"), strings.HasSuffix(n, "Mlock"):
					return bV(false), true
				}
				return unkV, false
			},
			Param: func(p *ssa.Parameter) (V, bool) {
				if isLastParam(p) {
					return iV(r.req), true
				}
				return symV(p.Name()), true
			},
			CallN: func(call *ssa.Call, args []V) ([]V, bool) {
				if calleeOf(call).Name() == "bbolt.(*DB).fileSize" {
					return []V{iV(r.file), nilV}, true
				}
				return nil, false
			},
			Call: func(call *ssa.Call, args []V) (V, bool) {
				switch calleeOf(call).Name() {
				case "os.(*File).Truncate":
					if len(args) > 1 {
						if g, ok := args[1].Int(); ok {
							trunc = &g
						}
					}
					return nilV, true
				case "os.(*File).Sync":
					return nilV, true
				case "bbolt.(*DB).Logger":
					return symV("logger"), true
				}
				return unkV, false
			},
			Inline: func(f *ssa.Function) bool { return shortFn(f) == "bbolt.(*DB).growSize" },
		}
		o := ev.Exec(gr, nil)
		if o.Kind != "return" || len(o.Rets) != 1 {
			return fmt.Sprintf("grow(%d) with file %d, map %d, MaxSize %d: %s", r.req, r.file, r.data, r.max, o)
		}
		success := o.Rets[0].K == vNil
		switch {
		case r.req <= r.file:
			if !success {
				return fmt.Sprintf("grow(%d) fails although the file already has %d bytes", r.req, r.file)
			}
		case success && c.P.GOOS != "windows":
			if trunc == nil || *trunc < r.req {
				t := "not at all"
				if trunc != nil {
					t = fmt.Sprintf("to %d", *trunc)
				}
				return fmt.Sprintf("grow(%d) with file %d, map %d, MaxSize %d succeeds but truncates %s", r.req, r.file, r.data, r.max, t)
			}
		case !success && (r.max == 0 || r.req <= r.max):
			return fmt.Sprintf("grow(%d) with file %d, map %d, MaxSize %d fails although the request is within the limit", r.req, r.file, r.data, r.max)
		}
	}
	return ""
}

// ruleInlineNoNested: an inline bucket lives inside its parent's leaf element, and every walker of the
// tree (Check, Stats, free, the v2 format) assumes an inline bucket owns no pages. Hence a bucket whose
// root leaf holds a nested-bucket element must never be judged inlineable — decided by executing
// Bucket.inlineable() over small element tables with the T6 evaluator, the per-transaction bucket
// cache being empty (sub-buckets that were not opened in this transaction are only visible as flagged elements).
func ruleInlineNoNested(c *Ctx, id string) {
	c.rule(id, "inline-bucket-owns-no-pages", 1, func() {
		fn := c.fn("bbolt.(*Bucket).inlineable")
		type elem struct{ k, v, flags int64 }
		type sc struct {
			name  string
			elems []elem
			want  bool
		}
		small := func(flags ...int64) []elem {
			var es []elem
			for _, f := range flags {
				es = append(es, elem{3, 5, f})
			}
			return es
		}
		scs := []sc{
			{"three small plain keys", small(0, 0, 0), true},
			{"nested bucket last", small(0, 0, 1), false},
			{"nested bucket first", small(1, 0, 0), false},
			{"nested bucket in the middle", small(0, 1, 0), false},
			{"only a nested bucket", small(1), false},
			{"empty", nil, true},
			{"two keys beyond a quarter page", []elem{{600, 600, 0}, {600, 600, 0}}, false},
		}
		bad := ""
		for _, s := range scs {
			var ev *Evaluator
			idxOf := func(call *ssa.Call, args []V) int64 {
				if len(args) > 0 && args[0].K == vSym && strings.HasPrefix(args[0].S, "elem#") {
					var i int64
					fmt.Sscanf(args[0].S, "elem#%d", &i)
					return i
				}
				recv := call.Call.Args[0]
				if ia, ok := recv.(*ssa.IndexAddr); ok {
					if i, ok := ev.Peek(ia.Index).Int(); ok {
						return i
					}
				}
				if m, ok := ev.Mem(recv); ok && m.K == vSym && strings.HasPrefix(m.S, "elem#") {
					var i int64
					fmt.Sscanf(m.S, "elem#%d", &i)
					return i
				}
				return -1
			}
			ev = &Evaluator{
				MaxSteps: 5000,
				Load: func(u *ssa.UnOp) (V, bool) {
					if ia, ok := u.X.(*ssa.IndexAddr); ok {
						if i, ok := ev.Peek(ia.Index).Int(); ok {
							return symV(fmt.Sprintf("elem#%d", i)), true
						}
						return unkV, false
					}
					switch n := pathOf(u).Names(); {
					case strings.HasSuffix(n, "rootNode"):
						return symV("rootNode"), true
					case strings.HasSuffix(n, "isLeaf"):
						return bV(true), true
					case strings.HasSuffix(n, "inodes"):
						return symV("inodes"), true
					case strings.HasSuffix(n, "buckets"):
						return symV("bucket-cache"), true
					case strings.HasSuffix(n, "pageSize"):
						return iV(4096), true
					case strings.HasSuffix(n, "tx"), strings.HasSuffix(n, "db"):
						return symV(n), true
					}
					return unkV, false
				},
				Param: func(p *ssa.Parameter) (V, bool) { return symV("param:" + p.Name()), true },
				Call: func(call *ssa.Call, args []V) (V, bool) {
					name := calleeOf(call).Name()
					switch {
					case name == "builtin:len":
						if len(args) == 1 && args[0].K == vSym {
							switch {
							case args[0].S == "inodes":
								return iV(int64(len(s.elems))), true
							case args[0].S == "bucket-cache":
								return iV(0), true
							case strings.HasPrefix(args[0].S, "bytes#"):
								var n int64
								fmt.Sscanf(args[0].S, "bytes#%d", &n)
								return iV(n), true
							}
						}
					case strings.HasSuffix(name, ".Flags"), strings.HasSuffix(name, ".Key"), strings.HasSuffix(name, ".Value"):
						i := idxOf(call, args)
						if i < 0 || int(i) >= len(s.elems) {
							return unkV, false
						}
						switch {
						case strings.HasSuffix(name, ".Flags"):
							return uV(uint64(s.elems[i].flags)), true
						case strings.HasSuffix(name, ".Key"):
							return symV(fmt.Sprintf("bytes#%d", s.elems[i].k)), true
						default:
							return symV(fmt.Sprintf("bytes#%d", s.elems[i].v)), true
						}
					}
					return unkV, false
				},
				Inline: func(f *ssa.Function) bool {
					switch shortFn(f) {
					case "bbolt.(*node).sizeLessThan", "bbolt.(*node).size", "bbolt.(*node).pageElementSize", "bbolt.(*Bucket).maxInlineBucketSize":
						return true
					}
					return false
				},
			}
			o := ev.Exec(fn, nil)
			got, isB := false, false
			if o.Kind == "return" && len(o.Rets) == 1 {
				got, isB = o.Rets[0].Bool()
			}
			if !isB {
				bad = fmt.Sprintf("scenario %q: %s", s.name, o)
				break
			}
			if got != s.want {
				bad = fmt.Sprintf("scenario %q (sub-bucket cache empty): inlineable() = %v, want %v", s.name, got, s.want)
				break
			}
		}
		c.check(id+":(*Bucket).inlineable:table", fn, fn.Pos(), fmt.Sprintf("a root leaf holding a nested-bucket element is never inlineable, whatever the per-transaction bucket cache holds; small plain leaves are (%d scenarios)", len(scs)), bad == "", bad)
	})
}

func mmapSizeTable(c *Ctx, ms *ssa.Function) string {
	maxMap := int64(0)
	if obj, ok := c.P.Pkg(commonPath).Types.Scope().Lookup("MaxMapSize").(*types.Const); ok {
		maxMap, _ = constant.Int64Val(constant.ToInt(obj.Val()))
	}
	if maxMap == 0 {
		return "common.MaxMapSize not found"
	}
	sizes := []int64{0, 1, 32768, 32769, 1 << 20, 1<<20 + 1, 1 << 30, 1<<30 + 1, maxMap - 4096, maxMap}
	if maxMap > 1<<33 {
		sizes = append(sizes, 5<<30+12345, maxMap+1)
	}
	for _, P := range []int64{4096, 16384} {
		for _, n := range sizes {
			ev := &Evaluator{
				Load: func(u *ssa.UnOp) (V, bool) {
					if strings.HasSuffix(pathOf(u).Names(), "pageSize") {
						return iV(P), true
					}
					return unkV, false
				},
				Param: func(p *ssa.Parameter) (V, bool) {
					if isLastParam(p) {
						return iV(n), true
					}
					return symV(p.Name()), true
				},
				Call: func(call *ssa.Call, args []V) (V, bool) {
					if calleeOf(call).Name() == "errors.New" {
						return symV("error"), true
					}
					return unkV, false
				},
			}
			o := ev.Exec(ms, nil)
			if o.Kind != "return" || len(o.Rets) != 2 {
				return fmt.Sprintf("mmapSize(%d): %s", n, o)
			}
			isErr := o.Rets[1].K != vNil
			if n > maxMap {
				if !isErr {
					return fmt.Sprintf("mmapSize(%d) succeeds beyond MaxMapSize %d", n, maxMap)
				}
				continue
			}
			got, ok := o.Rets[0].Int()
			if isErr || !ok {
				return fmt.Sprintf("mmapSize(%d) = (%s, %s)", n, o.Rets[0], o.Rets[1])
			}
			if got < n || got > maxMap || (got%P != 0 && got != maxMap) {
				return fmt.Sprintf("mmapSize(%d) with page size %d = %d (want >= request, <= %d, page-aligned)", n, P, got, maxMap)
			}
		}
	}
	return ""
}

// successHooks: every call without a more specific answer succeeds (nil error) or yields an opaque value.
func successCall(call *ssa.Call) (V, bool) {
	res := call.Call.Signature().Results()
	if res.Len() == 1 && isErrorType(res.At(0).Type()) {
		return nilV, true
	}
	if res.Len() == 1 {
		return symV("r:" + calleeOf(call).Name()), true
	}
	return unkV, false
}

func dbMmapTable(c *Ctx, dm *ssa.Function) string {
	type row struct{ file, minsz, mapped int64 }
	for _, r := range []row{{16384, 0, 32768}, {16384, 65536, 65536}, {1 << 20, 32768, 1 << 20}, {40000, 50000, 65536}} {
		var askedMap, mapped *int64
		ev := &Evaluator{
			Load: func(u *ssa.UnOp) (V, bool) {
				switch n := pathOf(u).Names(); {
				case strings.HasSuffix(n, "MaxSize"):
					return iV(0), true
				case strings.HasSuffix(n, "Mlock"):
					return bV(false), true
				case strings.HasSuffix(n, "rwtx"):
					return nilV, true
				}
				return unkV, false
			},
			Param: func(p *ssa.Parameter) (V, bool) {
				if isLastParam(p) {
					return iV(r.minsz), true
				}
				return symV(p.Name()), true
			},
			CallN: func(call *ssa.Call, args []V) ([]V, bool) {
				switch calleeOf(call).Name() {
				case "bbolt.(*DB).fileSize":
					return []V{iV(r.file), nilV}, true
				case "bbolt.(*DB).mmapSize":
					if g, ok := args[1].Int(); ok {
						askedMap = &g
					}
					return []V{iV(r.mapped), nilV}, true
				}
				return nil, false
			},
			Call: func(call *ssa.Call, args []V) (V, bool) {
				if calleeOf(call).Name() == "bbolt.mmap" {
					if g, ok := args[1].Int(); ok {
						mapped = &g
					}
					return nilV, true
				}
				return successCall(call)
			},
		}
		o := ev.Exec(dm, nil)
		if o.Kind != "return" {
			return fmt.Sprintf("db.mmap(%d) with a %d-byte file: %s", r.minsz, r.file, o)
		}
		want := r.file
		if r.minsz > want {
			want = r.minsz
		}
		if askedMap == nil || *askedMap < want {
			return fmt.Sprintf("db.mmap(%d) with a %d-byte file sizes the mapping for %v bytes, want at least %d", r.minsz, r.file, deref(askedMap), want)
		}
		if mapped == nil || *mapped != r.mapped {
			return fmt.Sprintf("db.mmap(%d): the platform mmap receives %v, want the mmapSize result %d", r.minsz, deref(mapped), r.mapped)
		}
	}
	return ""
}

func deref(p *int64) any {
	if p == nil {
		return "<none>"
	}
	return *p
}

func allocateRemapTable(c *Ctx, da *ssa.Function) string {
	type row struct{ hwm, count, P, datasz int64 }
	for _, r := range []row{{8, 1, 4096, 32768}, {7, 1, 4096, 32768}, {6, 3, 4096, 32768}, {4, 2, 4096, 32768}, {100, 40, 4096, 1 << 20}, {3, 2, 16384, 65536}} {
		var lastID V
		var mm *int64
		ev := &Evaluator{
			Load: func(u *ssa.UnOp) (V, bool) {
				switch n := pathOf(u).Names(); {
				case strings.HasSuffix(n, "MaxSize"):
					return iV(0), true
				case strings.HasSuffix(n, "pageSize"):
					return iV(r.P), true
				case strings.HasSuffix(n, "datasz"):
					return iV(r.datasz), true
				}
				return unkV, false
			},
			Param: func(p *ssa.Parameter) (V, bool) {
				if isLastParam(p) {
					return iV(r.count), true
				}
				return symV(p.Name()), true
			},
			Call: func(call *ssa.Call, args []V) (V, bool) {
				name := calleeOf(call).Name()
				switch {
				case strings.HasSuffix(name, ".Allocate"):
					return uV(0), true
				case name == "common.(*Meta).Pgid":
					return uV(uint64(r.hwm)), true
				case name == "common.(*Page).SetId":
					lastID = args[1]
					return unkV, false
				case name == "common.(*Page).Id":
					return lastID, true
				case name == "bbolt.(*DB).mmap":
					if g, ok := args[1].Int(); ok {
						mm = &g
					}
					return nilV, true
				}
				return successCall(call)
			},
		}
		o := ev.Exec(da, nil)
		if o.Kind != "return" || len(o.Rets) != 2 {
			return fmt.Sprintf("allocate(count=%d) at high-water mark %d: %s", r.count, r.hwm, o)
		}
		end := (r.hwm + r.count) * r.P
		if end > r.datasz && (mm == nil || *mm < end) {
			return fmt.Sprintf("a run of %d pages at high-water mark %d ends at byte %d, beyond the %d-byte mapping, but db.mmap is called with %v", r.count, r.hwm, end, r.datasz, deref(mm))
		}
	}
	return ""
}

// ruleAllocatePrefersFreeList (C10.R8): freed space is only reclaimed if db.allocate asks the free list
// first, with the requested count, and returns the run it got without moving the high-water mark.
func ruleAllocatePrefersFreeList(c *Ctx, id string) {
	c.rule(id, "allocate-prefers-free-list", 1, func() {
		da := c.fn("bbolt.(*DB).allocate")
		bad := ""
		for _, count := range []int64{1, 2, 17} {
			for _, freeID := range []uint64{7, 0} {
				var lastID V
				var asked *int64
				hwmMoved, remapped := false, false
				ev := &Evaluator{
					Load: func(u *ssa.UnOp) (V, bool) {
						switch n := pathOf(u).Names(); {
						case strings.HasSuffix(n, "MaxSize"):
							return iV(0), true
						case strings.HasSuffix(n, "pageSize"):
							return iV(4096), true
						case strings.HasSuffix(n, "datasz"):
							return iV(1 << 20), true
						}
						return unkV, false
					},
					Param: func(p *ssa.Parameter) (V, bool) {
						if isLastParam(p) {
							return iV(count), true
						}
						return symV(p.Name()), true
					},
					Call: func(call *ssa.Call, args []V) (V, bool) {
						name := calleeOf(call).Name()
						switch {
						case strings.HasSuffix(name, ".Allocate"):
							if g, ok := args[len(args)-1].Int(); ok {
								asked = &g
							}
							return uV(freeID), true
						case name == "common.(*Meta).Pgid":
							return uV(100), true
						case name == "common.(*Meta).SetPgid":
							hwmMoved = true
							return unkV, false
						case name == "common.(*Page).SetId":
							lastID = args[1]
							return unkV, false
						case name == "common.(*Page).Id":
							return lastID, true
						case name == "bbolt.(*DB).mmap":
							remapped = true
							return nilV, true
						}
						return successCall(call)
					},
				}
				o := ev.Exec(da, nil)
				switch {
				case o.Kind != "return" || len(o.Rets) != 2 || o.Rets[1].K != vNil:
					bad = fmt.Sprintf("allocate(count=%d) with a free run at %d: %s", count, freeID, o)
				case asked == nil || *asked != count:
					bad = fmt.Sprintf("allocate(count=%d) asks the free list for %v pages", count, deref(asked))
				case freeID != 0:
					if g, ok := lastID.Int(); !ok || uint64(g) != freeID || hwmMoved || remapped {
						bad = fmt.Sprintf("allocate(count=%d): the free list offers a run at %d but the page gets id %s (high-water mark moved: %v, remapped: %v)", count, freeID, lastID, hwmMoved, remapped)
					}
				case freeID == 0:
					if g, ok := lastID.Int(); !ok || g != 100 || !hwmMoved {
						bad = fmt.Sprintf("allocate(count=%d) with an empty free list: id %s, high-water mark moved: %v (want id 100 and the mark advanced)", count, lastID, hwmMoved)
					}
				}
				if bad != "" {
					break
				}
			}
		}
		c.check(id+":(*DB).allocate:free-list-first", da, da.Pos(), "db.allocate asks the free list for exactly count pages first and, when a run is offered, returns it without touching the high-water mark or the mapping; only otherwise the file grows", bad == "", bad)
	})
}

// ruleAllocateLimitTable (C18.R5): with a size limit configured, db.allocate must refuse a run whose end lies
// beyond the limit before it moves the high-water mark or remaps (with NoGrowSync, or on windows, nothing
// else stops the file from growing past the limit), and must not refuse when even the chunked growth fits.
func ruleAllocateLimitTable(c *Ctx, id string) {
	c.rule(id, "allocate-limit-table", 1, func() {
		da := c.fn("bbolt.(*DB).allocate")
		type row struct {
			hwm, count, max int64
			wantErr         bool
		}
		const P = 4096
		rows := []row{
			{100, 1, 0, false},              // no limit
			{100, 1, 400000, true},          // (100+1+1)*4096 = 417792 > limit
			{100, 10, 430000, true},         // (100+10+1)*4096 = 454656 > limit
			{100, 1, 64 << 20, false},       // plenty of room (mmapSize 512K, AllocSize 16M: growth to 512K)
			{6, 1, 32768, false},            // 8 pages = 32768 exactly at the limit
			{7, 1, 32768, true},             // 9 pages exceed it
		}
		bad := ""
		for _, r := range rows {
			hwmMoved, remapped := false, false
			var lastID V
			ev := &Evaluator{
				Load: func(u *ssa.UnOp) (V, bool) {
					switch n := pathOf(u).Names(); {
					case strings.HasSuffix(n, "MaxSize"):
						return iV(r.max), true
					case strings.HasSuffix(n, "pageSize"):
						return iV(P), true
					case strings.HasSuffix(n, "datasz"):
						return iV(32768), true
					case strings.HasSuffix(n, "AllocSize"):
						return iV(16 << 20), true
					}
					return unkV, false
				},
				Param: func(p *ssa.Parameter) (V, bool) {
					if isLastParam(p) {
						return iV(r.count), true
					}
					return symV(p.Name()), true
				},
				Call: func(call *ssa.Call, args []V) (V, bool) {
					name := calleeOf(call).Name()
					switch {
					case strings.HasSuffix(name, ".Allocate"):
						return uV(0), true
					case name == "common.(*Meta).Pgid":
						return uV(uint64(r.hwm)), true
					case name == "common.(*Meta).SetPgid":
						hwmMoved = true
						return unkV, false
					case name == "common.(*Page).SetId":
						lastID = args[1]
						return unkV, false
					case name == "common.(*Page).Id":
						return lastID, true
					case name == "bbolt.(*DB).mmap":
						remapped = true
						return nilV, true
					case name == "errors.New", name == "fmt.Errorf":
						return symV("error"), true
					case name == "bbolt.(*DB).mmapSize", name == "bbolt.(*DB).growSize":
						return unkV, false // inlined below
					}
					return successCall(call)
				},
				Inline: func(f *ssa.Function) bool {
					n := shortFn(f)
					return n == "bbolt.(*DB).mmapSize" || n == "bbolt.(*DB).growSize"
				},
			}
			o := ev.Exec(da, nil)
			if o.Kind != "return" || len(o.Rets) != 2 {
				bad = fmt.Sprintf("allocate(count=%d) at high-water mark %d with MaxSize %d: %s", r.count, r.hwm, r.max, o)
				break
			}
			gotErr := o.Rets[1].K != vNil
			if gotErr != r.wantErr {
				bad = fmt.Sprintf("allocate(count=%d) at high-water mark %d (run ends at byte %d) with MaxSize %d: error=%v, want %v", r.count, r.hwm, (r.hwm+r.count+1)*P, r.max, gotErr, r.wantErr)
				break
			}
			if gotErr && (hwmMoved || remapped) {
				bad = fmt.Sprintf("allocate refuses (MaxSize %d) only after moving the high-water mark (%v) or remapping (%v)", r.max, hwmMoved, remapped)
				break
			}
			if gotErr && o.Rets[1].S != "global:ErrMaxSizeReached" {
				bad = fmt.Sprintf("the refusal is reported as %s, not as ErrMaxSizeReached", o.Rets[1])
				break
			}
		}
		c.check(id+":(*DB).allocate:limit-table", da, da.Pos(), fmt.Sprintf("with MaxSize configured, a run ending beyond the limit is refused with ErrMaxSizeReached before the high-water mark moves or the file is remapped; requests that fit are granted (%d rows)", len(rows)), bad == "", bad)
	})
}

// isLastParam: p is the last parameter of its function (db.allocate's count, grow's size, mmapSize's size,
// db.mmap's minimum size) — matched by position, not by name.
func isLastParam(p *ssa.Parameter) bool {
	f := p.Parent()
	return f != nil && len(f.Params) > 0 && f.Params[len(f.Params)-1] == p
}

func isFuncTyped(p *ssa.Parameter) bool {
	_, ok := p.Type().Underlying().(*types.Signature)
	return ok
}
