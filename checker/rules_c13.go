package main

import (
	"strings"
	"fmt"
	"go/token"
	"go/types"

	"golang.org/x/tools/go/ssa"
)

func init() {
	register(&propDef{
		ID: "C13",
		Explanation: "Claimed NARROWLY. Decided: the structural skeleton that makes the free list independent of how it was obtained — a free list rebuilt by scanning enumerates exactly the page ids in [2, high-water mark) that the walk from the current root did not reach (freepages); " +
			"loading picks 'read the persisted page' vs 'rebuild by scanning' by one predicate (hasSyncedFreelist), exactly once; Open flushes a missing free list when NoFreelistSync is off, so a file can be re-opened under the other setting; the rollback reload uses the same predicate; " +
			"both NoFreelistSync arms of Commit redefine the meta's freelist pointer; the two backends share one policy implementation and a re-initialised backend forgets its previous content; syncs are skipped only under NoSync. " +
			"NOT decided (the bulk of the property): equality of logical content and API results across option assignments and reopen schedules, and that the rebuilt list EQUALS the persisted one — relations between runtime contents. Round 3: each option reaches the DB switch of the same name in Open.",
		Run: func(c *Ctx) {
			ruleSpanIndexesTogether(c, "C13.R14") // "whichever freelist backend": the hash-map backend keeps its three span indexes in step
			c04R11(c, "C13.R12") // whether a remap happens depends on InitialMmapSize: the dereference it triggers must leave every key and value what it was
			c04R6(c, "C13.R13")
			ruleOptionsWiredByName(c, "C13.R11") // each option reaches the switch of the same name
			c13R1(c, "C13.R1")
			c13R2(c, "C13.R2")
			c13R3(c, "C13.R3")
			c07R3(c, "C13.R4")
			c09R2(c, "C13.R5")
			c09R5(c, "C13.R6")
			c08R2(c, "C13.R7")
			ruleSyncAfterWrite(c, "C13.R8")
			ruleOncePublication(c, "C13.R9")
			c13R10(c, "C13.R10")
		},
	})
}

// c13R1: freepages() = { i in [2, db.meta().Pgid()) : i not reached by the walk from the root }
func c13R1(c *Ctx, id string) {
	c.rule(id, "rebuilt-freelist-shape", 3, func() {
		fp := c.fn("bbolt.(*DB).freepages")
		// the loop: phi starting at constant 2, bounded by `< db.meta().Pgid()`
		var loopIf *ssa.If
		var phi *ssa.Phi
		eachInstr(fp, func(in ssa.Instruction) {
			iff, ok := in.(*ssa.If)
			if !ok {
				return
			}
			bo, ok := iff.Cond.(*ssa.BinOp)
			if !ok || bo.Op != token.LSS {
				return
			}
			p, isPhi := bo.X.(*ssa.Phi)
			call, isCall := bo.Y.(*ssa.Call)
			if isPhi && isCall && calleeOf(call).Name() == "common.(*Meta).Pgid" {
				loopIf, phi = iff, p
				// the bound is the CURRENT meta's mark
				if r, isR := call.Call.Args[0].(*ssa.Call); !isR || calleeOf(r).Name() != "bbolt.(*DB).meta" {
					loopIf = nil
				}
			}
		})
		ok := loopIf != nil
		detail := "no loop `for i := ...; i < db.meta().Pgid(); i++`"
		if ok {
			start := int64(-1)
			step := false
			for i, e := range phi.Edges {
				if phi.Block().Dominates(phi.Block().Preds[i]) {
					if bo, isBin := e.(*ssa.BinOp); isBin && bo.Op == token.ADD && bo.X == ssa.Value(phi) {
						if k, isC := constInt(bo.Y); isC && k == 1 {
							step = true
						}
					}
				} else if k, isC := constInt(e); isC {
					start = k
				}
			}
			ok = start == 2 && step
			detail = fmt.Sprintf("the scan starts at page %d (want 2: the two meta pages are never free) and steps by one: %v", start, step)
		}
		c.check(id+":(*DB).freepages:range", fp, fp.Pos(), "the rebuilt free list scans exactly the ids 2 .. db.meta().Pgid()-1", ok, detail)
		// an id is appended iff it is not in the reachable map
		ok2 := false
		detail2 := "ids are not selected by a miss in the reachable map"
		if phi != nil {
			eachInstr(fp, func(in ssa.Instruction) {
				call, isCall := in.(*ssa.Call)
				if !isCall || calleeOf(call).Builtin != "append" {
					return
				}
				// appended element is the loop variable
				elemIsI := false
				for _, l := range provenance(call.Call.Args[1], provOpts{}) {
					if l.V == ssa.Value(phi) {
						elemIsI = true
					}
				}
				if !elemIsI {
					return
				}
				for _, cond := range controllingConds(in) {
					neg := false
					v := cond
					if u, isU := v.(*ssa.UnOp); isU && u.Op == token.NOT {
						neg, v = true, u.X
					}
					if ex, isEx := v.(*ssa.Extract); isEx && ex.Index == 1 {
						if lk, isLk := ex.Tuple.(*ssa.Lookup); isLk && lk.Index == ssa.Value(phi) {
							// appended on the miss edge
							blk := in.Block()
							b := ex.Block()
							for ; b != nil; b = nil {
								iff, isIf := b.Instrs[len(b.Instrs)-1].(*ssa.If)
								if !isIf {
									break
								}
								missSucc := b.Succs[1]
								if neg {
									missSucc = b.Succs[0]
								}
								if missSucc == blk || missSucc.Dominates(blk) {
									ok2 = true
								}
								_ = iff
							}
						}
					}
				}
			})
		}
		c.check(id+":(*DB).freepages:unreached-only", fp, fp.Pos(), "a page id is put on the rebuilt list exactly when the walk did not reach it", ok2, detail2)
		// the reachable set comes from a walk of the root bucket of a read transaction opened here
		okWalk := len(plainCallsIn(fp, "bbolt.(*DB).beginTx")) == 1
		walked := false
		for _, f := range withAnons(fp) {
			for _, call := range plainCallsIn(f, "bbolt.(*Tx).recursivelyCheckBucket") {
				if pathOf(call.Call.Args[1]).Names() == "root" {
					walked = true
				}
			}
		}
		c.check(id+":(*DB).freepages:walk", fp, fp.Pos(), "the reachable set is produced by walking tx.root of a read transaction begun in freepages (the same walk the integrity check uses)", okWalk && walked, fmt.Sprintf("beginTx=%v walk-from-root=%v", okWalk, walked))
	})
}

// c13R2: loadFreelist picks persisted vs rebuilt by hasSyncedFreelist, once.
func c13R2(c *Ctx, id string) {
	c.rule(id, "freelist-load-source", 2, func() {
		lf := c.fn("bbolt.(*DB).loadFreelist")
		// body runs inside sync.Once
		var body *ssa.Function
		for _, call := range plainCallsIn(lf, "sync.(*Once).Do") {
			body = closureOf(call.Call.Args[1])
		}
		if body == nil {
			c.check(id+":(*DB).loadFreelist:once", lf, lf.Pos(), "the free list is loaded inside sync.Once", false, "no Once.Do(closure)")
			return
		}
		c.check(id+":(*DB).loadFreelist:once", lf, lf.Pos(), "the free list is loaded at most once per DB (sync.Once)", true, "")
		// the choice may live in a helper called from the Once body: look one and two levels down
		holder := body
		cands := []*ssa.Function{body}
		for depth := 0; depth < 2; depth++ {
			var next []*ssa.Function
			for _, f := range cands {
				if len(callsIn(f, "freelist.Interface.Init")) > 0 && len(callsIn(f, "freelist.ReadWriter.Read")) > 0 {
					holder = f
				}
				eachInstr(f, func(in ssa.Instruction) {
					if call, ok := in.(*ssa.Call); ok {
						if g := calleeOf(call).Static; g != nil && fnPkg(g) != nil && fnPkg(g).Path() == rootPkg && len(g.Blocks) > 0 {
							next = append(next, g)
						}
					}
				})
			}
			cands = next
		}
		inits := callsIn(holder, "freelist.Interface.Init")
		reads := callsIn(holder, "freelist.ReadWriter.Read")
		ok := len(inits) == 1 && len(reads) == 1
		detail := fmt.Sprintf("%d Init, %d Read", len(inits), len(reads))
		if ok {
			in, rd := inits[0].(ssa.Instruction), reads[0].(ssa.Instruction)
			sel := false
			for b := rd.Block(); b != nil && !sel; b = b.Idom() {
				iff, isIf := b.Instrs[len(b.Instrs)-1].(*ssa.If)
				if !isIf {
					continue
				}
				cond := iff.Cond
				neg := false
				if u, isU := cond.(*ssa.UnOp); isU && u.Op == token.NOT {
					neg, cond = true, u.X
				}
				isTest, inv := syncedFreelistTest(cond)
				if !isTest {
					continue
				}
				if inv {
					neg = !neg
				}
				synced, unsynced := b.Succs[0], b.Succs[1]
				if neg {
					synced, unsynced = unsynced, synced
				}
				sel = blockDominatedByEdge(b, synced, rd.Block()) && blockDominatedByEdge(b, unsynced, in.Block())
			}
			if !sel {
				ok = false
				detail = "Read must be on the hasSyncedFreelist()==true arm and Init(freepages()) on the other"
			}
			a := provenance(reads[0].Common().Args[0], provOpts{ThroughCall: throughAll})
			b := provenance(inits[0].Common().Args[0], provOpts{ThroughCall: throughAll})
			if !(hasLeaf(a, "call", "bbolt.(*DB).page") && hasLeaf(a, "call", "common.(*Meta).Freelist") && hasLeaf(a, "call", "bbolt.(*DB).meta")) {
				ok = false
				detail = "Read must read db.page(db.meta().Freelist())"
			}
			if !hasLeaf(b, "call", "bbolt.(*DB).freepages") {
				ok = false
				detail = "Init must receive db.freepages()"
			}
			// the freelist object comes from newFreelist(db.FreelistType)
			okNew := false
			for _, nf := range plainCallsIn(body, "bbolt.newFreelist") {
				_ = holder
				if pathOf(nf.Call.Args[0]).Names() == "FreelistType" {
					okNew = true
				}
			}
			if !okNew {
				ok = false
				detail = "the backend is not chosen by db.FreelistType"
			}
		}
		c.check(id+":(*DB).loadFreelist:source", body, body.Pos(), "a persisted free list is read from the page the current meta points to; otherwise it is rebuilt with Init(freepages()); the backend follows db.FreelistType", ok, detail)
		// hasSyncedFreelist is the comparison with PgidNoFreelist
		hs := c.optFn("bbolt.(*DB).hasSyncedFreelist")
		if hs == nil {
			// the helper was written in line: every use site above recognised the comparison itself
			c.check(id+":(*DB).hasSyncedFreelist:predicate", body, body.Pos(), "the persisted-free-list predicate is `db.meta().Freelist() != PgidNoFreelist` (written in line)", ok, "the in-line predicate was not recognised")
			return
		}
		okP := false
		eachInstr(hs, func(in ssa.Instruction) {
			if bo, isBin := in.(*ssa.BinOp); isBin && bo.Op == token.NEQ {
				if v, isC := constUint(bo.Y); isC && v == ^uint64(0) {
					if call, isCall := bo.X.(*ssa.Call); isCall && calleeOf(call).Name() == "common.(*Meta).Freelist" {
						okP = true
					}
				}
			}
		})
		c.check(id+":(*DB).hasSyncedFreelist:predicate", hs, hs.Pos(), "hasSyncedFreelist is `db.meta().Freelist() != PgidNoFreelist`", okP, "different predicate")
	})
}

// c13R3: Open writes the free list back when the option asks for it and the file has none.
func c13R3(c *Ctx, id string) {
	c.rule(id, "freelist-flush-on-open", 1, func() {
		open := c.fn("bbolt.Open")
		nfs := c.dbField("NoFreelistSync")
		roF := c.dbField("readOnly")
		begins := plainCallsIn(open, "bbolt.(*DB).Begin")
		commits := plainCallsIn(open, "bbolt.(*Tx).Commit")
		ok := len(begins) == 1 && len(commits) == 1
		detail := fmt.Sprintf("%d Begin, %d Commit in Open", len(begins), len(commits))
		if ok {
			if b, isC := constBool(begins[0].Call.Args[1]); !isC || !b {
				ok = false
				detail = "the flush transaction is not a write transaction"
			}
			// reached when !NoFreelistSync && !hasSyncedFreelist && !readOnly; not reached when NoFreelistSync
			r1 := reach(nil, []*ssa.BasicBlock{open.Blocks[0]}, nil, cutByEnv(map[*types.Var]bool{nfs: true, roF: false}))
			if r1[begins[0]] {
				ok = false
				detail = "with NoFreelistSync set, Open still starts the flush transaction"
			}
			r2 := reach(nil, []*ssa.BasicBlock{open.Blocks[0]}, nil, cutByEnv(map[*types.Var]bool{nfs: false, roF: false}))
			if !r2[begins[0]] {
				ok = false
				detail = "with NoFreelistSync unset, the flush transaction is unreachable"
			}
			// controlled by hasSyncedFreelist
			ctl := false
			for _, cond := range controllingConds(begins[0]) {
				for _, l := range provenance(cond, provOpts{}) {
					if l.Kind == "call" && l.Name == "bbolt.(*DB).hasSyncedFreelist" {
						ctl = true
					}
				}
				c2 := cond
				if u, isU := c2.(*ssa.UnOp); isU && u.Op == token.NOT {
					c2 = u.X
				}
				if is, _ := syncedFreelistTest(c2); is {
					ctl = true
				}
			}
			if !ctl {
				ok = false
				detail = "the flush is not conditioned on the file lacking a persisted free list"
			}
			// no other boolean option gates it
			dbT := c.P.Pkg(rootPkg).Types.Scope().Lookup("DB").Type().Underlying().(*types.Struct)
			for _, cond := range controllingConds(begins[0]) {
				for f := range fieldsReadIn(cond) {
					for i := 0; i < dbT.NumFields(); i++ {
						if dbT.Field(i) == f && f != nfs && f != roF {
							if b, isB := f.Type().Underlying().(*types.Basic); isB && b.Kind() == types.Bool {
								ok = false
								detail = "the flush is additionally gated by DB." + f.Name()
							}
						}
					}
				}
			}
			// its failure fails Open (with close)
			if errorHandled(commits[0]) != "" {
				ok = false
				detail = "the flush commit's error is dropped"
			}
		}
		c.check(id+":bbolt.Open:flush-missing-freelist", open, open.Pos(), "when NoFreelistSync is off and the file has no persisted free list, Open commits one (empty) write transaction so the file can be opened by a sync-unaware reader; not otherwise", ok, detail)
	})
}

// ruleOncePublication (C13.R9 / C03.R9 / C19.R6): the free list of a database opened without preloading is
// built lazily by whichever transaction needs it first, concurrently with others; sync.Once is the only
// synchronisation. Hence (a) a non-nil DB.freelist is stored only inside the body handed to freelistLoad.Do,
// (b) the function that calls Do touches DB.freelist outside that body only after Do returned, and (c) the
// integrity check reads DB.freelist only after loadFreelist() returned.
func ruleOncePublication(c *Ctx, id string) {
	c.rule(id, "freelist-published-through-once", 3, func() {
		flF := c.dbField("freelist")
		onceF := c.dbField("freelistLoad")
		lf := c.fn("bbolt.(*DB).loadFreelist")
		// the Do call and its body
		var do ssa.CallInstruction
		var body *ssa.Function
		for _, ci := range callsIn(lf, "sync.(*Once).Do") {
			if pathOf(ci.Common().Args[0]).Last() == onceF {
				do = ci
				body = closureOf(ci.Common().Args[1])
			}
		}
		if do == nil || body == nil {
			c.check(id+":(*DB).loadFreelist:once", lf, lf.Pos(), "loadFreelist runs its body through db.freelistLoad.Do", false, "no freelistLoad.Do(func) call found")
			return
		}
		// (a) non-nil stores only inside the body (or functions only it calls — none today)
		bad := ""
		n := 0
		for _, st := range storesToField(c.P.FnsIn(rootPkg), flF) {
			if isNilConst(st.Val) {
				continue
			}
			n++
			if st.Instr.Parent() != body {
				bad = fmt.Sprintf("DB.freelist is assigned in %s at %s, outside the Once body", shortFn(st.Instr.Parent()), c.P.Position(st.Instr.Pos()))
			}
		}
		c.check(id+":DB.freelist:assigned-only-in-once-body", lf, do.Pos(), fmt.Sprintf("the %d non-nil assignment(s) of DB.freelist are inside the function handed to freelistLoad.Do", n), bad == "" && n >= 1, bad)
		// (b) no access in loadFreelist outside the body before Do returned
		bad = ""
		eachInstr(lf, func(in ssa.Instruction) {
			fa, ok := in.(*ssa.FieldAddr)
			if !ok || fieldOfAddr(fa) != flF {
				return
			}
			if !dominates(do, in) {
				bad = fmt.Sprintf("loadFreelist reads or writes db.freelist at %s without having passed freelistLoad.Do: another goroutine may be half-way through building the list (the field is assigned before the list is filled)", c.P.Position(in.Pos()))
			}
		})
		c.check(id+":(*DB).loadFreelist:no-access-before-Do", lf, do.Pos(), "outside the Once body, loadFreelist touches db.freelist only after freelistLoad.Do returned (Do is the only synchronisation between concurrent lazy loaders)", bad == "", bad)
		// (c) tx.check: every access of db.freelist is dominated by the loadFreelist() call
		ck := c.fn("bbolt.(*Tx).check")
		calls := plainCallsIn(ck, "bbolt.(*DB).loadFreelist")
		bad = ""
		if len(calls) == 0 {
			bad = "tx.check does not call db.loadFreelist()"
		} else {
			eachInstr(ck, func(in ssa.Instruction) {
				fa, ok := in.(*ssa.FieldAddr)
				if !ok || fieldOfAddr(fa) != flF {
					return
				}
				if !dominates(calls[0], in) {
					bad = fmt.Sprintf("tx.check touches db.freelist at %s before db.loadFreelist() returned", c.P.Position(in.Pos()))
				}
			})
		}
		c.check(id+":(*Tx).check:loads-before-use", ck, ck.Pos(), "the integrity check uses db.freelist only after db.loadFreelist() returned (read-only databases load it lazily)", bad == "", bad)
	})
}

// c13R10: "however these options are changed between closing and reopening the same file": the page size of
// an existing file is a property of the file. In Open every path to the first mapping either initialises a
// new (empty) file or has stored the result of getPageSize() into db.pageSize as the LAST store to it;
// no function other than Open assigns db.pageSize.
func c13R10(c *Ctx, id string) {
	c.rule(id, "page-size-from-the-file", 2, func() {
		psF := c.dbField("pageSize")
		open := c.fn("bbolt.Open")
		var fromFile []*ssa.Store
		var owners []string
		for _, st := range storesToField(c.P.FnsIn(rootPkg), psF) {
			fn := st.Instr.Parent()
			if topLevel(fn) != open {
				owners = append(owners, shortFn(fn))
				continue
			}
			for _, l := range provenance(st.Val, provOpts{}) {
				if l.Kind == "call" && l.Name == "bbolt.(*DB).getPageSize" {
					if s, ok := st.Instr.(*ssa.Store); ok {
						fromFile = append(fromFile, s)
					}
				}
			}
		}
		c.check(id+":DB.pageSize:owners", open, open.Pos(), "DB.pageSize is assigned only in Open", len(owners) == 0, "also assigned in "+strings.Join(owners, ", "))
		inits := plainCallsIn(open, "bbolt.(*DB).init")
		mmaps := plainCallsIn(open, "bbolt.(*DB).mmap")
		bad := ""
		switch {
		case len(fromFile) != 1:
			bad = fmt.Sprintf("%d stores of getPageSize()'s result into db.pageSize, want 1", len(fromFile))
		case len(inits) != 1 || len(mmaps) != 1:
			bad = fmt.Sprintf("%d db.init calls, %d db.mmap calls in Open", len(inits), len(mmaps))
		default:
			sf, ini, mm := fromFile[0], ssa.Instruction(inits[0]), ssa.Instruction(mmaps[0])
			// every path to mmap passes init or the file store
			stop := func(in ssa.Instruction) bool { return in == ini || in == ssa.Instruction(sf) }
			if reach(nil, []*ssa.BasicBlock{open.Blocks[0]}, stop, nil)[mm] {
				bad = "db.mmap is reachable in Open without db.init() (new file) or db.pageSize = getPageSize() (existing file)"
			}
			// the file's page size is the last word: no other store to db.pageSize after it
			after := reach([]ssa.Instruction{sf}, nil, nil, nil)
			for _, st := range storesToField([]*ssa.Function{open}, psF) {
				if st.Instr != ssa.Instruction(sf) && after[st.Instr] {
					bad = fmt.Sprintf("db.pageSize is overwritten at %s after the file's own page size was read", c.P.Position(st.Instr.Pos()))
				}
			}
			// the existing-file branch does not run init
			if after[ini] || reach([]ssa.Instruction{ini}, nil, nil, nil)[sf] {
				bad = "db.init() and the getPageSize() store are on the same path"
			}
		}
		c.check(id+":bbolt.Open:existing-file-page-size", open, open.Pos(), "for an existing file the page size in force when the file is first mapped is the one read from the file's meta pages (Options.PageSize only seeds new files)", bad == "", bad)
	})
}
