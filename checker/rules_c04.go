package main

import (
	"fmt"
	"go/types"
	"sort"
	"strings"

	"golang.org/x/tools/go/ssa"
)

func init() {
	register(&propDef{
		ID: "C04",
		Explanation: "Decided: 'argument or type errors return the documented error and leave the state unchanged' — in every exported mutator each effect site is dominated by the closed-transaction and writable tests, no error return is reachable after an effect, and the argument checks each mutator performs before its first effect have not shrunk (frozen table); " +
			"plus the structural part of 'a write transaction reads its own uncommitted writes': a cached child bucket is never dropped without being freed or re-homed, a remap dereferences the writer's nodes before unmapping, key ordering goes through lower-bound predicates on bytes.Compare (tabulated), and a bucket's header (root + sequence) is replaced only where a bucket is opened/created, its sequence only through SetSequence/NextSequence. " +
			"NOT decided: the map semantics themselves (what Get returns after which Puts), split/merge/inline thresholds, MoveBucket into a descendant (needs an ancestor relation over runtime values), re-open equality. Round 3: argument guards are exact (tables by guarded reachability: Put's size limits, empty bucket names, MoveBucket's same-bucket test); a value truncated to an on-disk width never indexes an in-memory collection; rebalance re-parents materialised children of transferred inodes. Round 4: free-before-drop re-evaluated (a node removed from the tree leaves the node cache with its page freed).",
		Run: func(c *Ctx) {
			ruleDescentComparesEveryLevel(c, "C04.R17") // Get / Delete / Bucket() go through the same descent
			ruleEveryCachedChildSpilled(c, "C04.R16") // "its own changes become visible at commit": also those made below a bucket that was only opened
			c04R1R2(c, "C04.R1", "C04.R2")
			c04R3(c, "C04.R3")
			c04R4(c, "C04.R4")
			ruleKeyOrderPredicates(c, "C04.R5")
			c04R6(c, "C04.R6")
			c04R7(c, "C04.R7")
			c04R9(c, "C04.R9")
			c04R11(c, "C04.R11")
			c05R5(c, "C04.R10") // bucket/value clash: Get and the cursor report a nested bucket with a nil value
			ruleRollbackUndoesFrees(c, "C04.R8") // a rolled-back DeleteBucket must not leave the bucket's pages released
			c07R1(c, "C04.R15") // a node removed from the tree leaves the node cache with its page freed: a stale cache entry is rebalanced again and duplicates keys (seed C04d)
			ruleNarrowingConfined(c, "C04.R13")
			ruleArgumentGuardsExact(c, "C04.R14") // "return the documented error": exactly on the documented condition, never on valid arguments
			ruleMovedInodesCarryChildren(c, "C04.R12") // "its own changes": dirty children of merged / collapsed nodes stay attached to the live tree
		},
	})
}

var exportedMutators = []string{
	"bbolt.(*Bucket).CreateBucket", "bbolt.(*Bucket).CreateBucketIfNotExists", "bbolt.(*Bucket).DeleteBucket", "bbolt.(*Bucket).MoveBucket",
	"bbolt.(*Bucket).Put", "bbolt.(*Bucket).Delete", "bbolt.(*Bucket).SetSequence", "bbolt.(*Bucket).NextSequence", "bbolt.(*Cursor).Delete",
}

var effectCallees = map[string]bool{
	"bbolt.(*node).put": true, "bbolt.(*node).del": true, "bbolt.(*Cursor).node": true, "bbolt.(*Bucket).node": true, "bbolt.(*Bucket).free": true,
	"bbolt.(*node).free": true, "freelist.Interface.Free": true, "common.(*InBucket).SetInSequence": true, "common.(*InBucket).IncSequence": true, "common.(*InBucket).SetRootPage": true,
	"bbolt.(*Bucket).DeleteBucket": true,
}

// effectSites lists the state-changing instructions of a mutator.
func effectSites(c *Ctx, fn *ssa.Function) []ssa.Instruction {
	bkF := c.P.lookupField(rootPkg, "Bucket", "buckets")
	ndF := c.P.lookupField(rootPkg, "Bucket", "nodes")
	pgF := c.P.lookupField(rootPkg, "Bucket", "page")
	rnF := c.P.lookupField(rootPkg, "Bucket", "rootNode")
	var out []ssa.Instruction
	eachInstr(fn, func(in ssa.Instruction) {
		switch x := in.(type) {
		case *ssa.Call:
			callee := calleeOf(x)
			if effectCallees[callee.Name()] {
				out = append(out, in)
			}
			if callee.Builtin == "delete" {
				if f := pathOf(x.Call.Args[0]).Last(); f == bkF || f == ndF {
					out = append(out, in)
				}
			}
		case *ssa.MapUpdate:
			if f := pathOf(x.Map).Last(); f == bkF || f == ndF {
				// caching an opened bucket is not a state change of the tree; it is when done by a mutator on another bucket
				out = append(out, in)
			}
		case *ssa.Store:
			if fa, ok := x.Addr.(*ssa.FieldAddr); ok {
				if f := fieldOfAddr(fa); f == pgF || f == rnF {
					if _, isLocal := fa.X.(*ssa.Alloc); !isLocal {
						out = append(out, in)
					}
				}
			}
		}
	})
	return out
}

func c04R1R2(c *Ctx, id1, id2 string) {
	wr := txField(c, "writable")
	dbF := txField(c, "db")
	type res struct {
		fn      *ssa.Function
		effects []ssa.Instruction
	}
	var all []res
	c.rule(id1, "guard-dominates-effect", 9, func() {
		for _, name := range exportedMutators {
			fn := c.fn(name)
			eff := effectSites(c, fn)
			all = append(all, res{fn, eff})
			closed := reach(nil, []*ssa.BasicBlock{fn.Blocks[0]}, nil, cutByEnv(map[*types.Var]bool{dbF: false}))
			readonly := reach(nil, []*ssa.BasicBlock{fn.Blocks[0]}, nil, cutByEnv(map[*types.Var]bool{wr: false}))
			bad := ""
			for _, e := range eff {
				if closed[e] {
					bad = "reachable on a closed transaction: " + c.P.Position(e.Pos())
				}
				if readonly[e] {
					bad = "reachable on a read-only transaction: " + c.P.Position(e.Pos())
				}
			}
			c.check(id1+":"+name+":effects-guarded", fn, fn.Pos(), fmt.Sprintf("all %d effect sites (node put/del, node materialisation, free, sequence/root updates, cache edits) are unreachable when tx.db == nil or the transaction is not writable", len(eff)), bad == "" && len(eff) > 0, "effect "+bad)
		}
	})
	c.rule(id2, "no-error-after-effect", 9, func() {
		for _, r := range all {
			name := shortFn(r.fn)
			after := reach(r.effects, nil, nil, nil)
			bad := ""
			for _, ret := range errorReturns(r.fn) {
				if !after[ret] {
					continue
				}
				// table exception: DeleteBucket returns the error of its own recursive call (the callee obeys the same rule)
				if name == "bbolt.(*Bucket).DeleteBucket" && errorReturnRole(ret) == "DeleteBucket" {
					continue
				}
				bad = fmt.Sprintf("error return [%s] at %s is reachable after an effect", errorReturnRole(ret), c.P.Position(ret.Pos()))
			}
			c.check(id2+":"+name+":no-error-after-effect", r.fn, r.fn.Pos(), "no error return is reachable from an effect site (an error leaves the state unchanged)", bad == "", bad)
		}
	})
}

// validation classes each key-taking mutator has on the pinned tree (read from the code);
// losing one is a violation, gaining one is not.
var frozenValidation = map[string][]string{
	"bbolt.(*Bucket).Put":                     {"ErrTxClosed", "ErrTxNotWritable", "ErrKeyRequired", "ErrKeyTooLarge", "ErrValueTooLarge", "ErrIncompatibleValue"},
	"bbolt.(*Bucket).Delete":                  {"ErrTxClosed", "ErrTxNotWritable", "ErrIncompatibleValue"},
	"bbolt.(*Bucket).CreateBucket":            {"ErrTxClosed", "ErrTxNotWritable", "ErrBucketNameRequired", "ErrBucketExists", "ErrIncompatibleValue"},
	"bbolt.(*Bucket).CreateBucketIfNotExists": {"ErrTxClosed", "ErrTxNotWritable", "ErrBucketNameRequired", "ErrIncompatibleValue"},
	"bbolt.(*Bucket).DeleteBucket":            {"ErrTxClosed", "ErrTxNotWritable", "ErrBucketNotFound", "ErrIncompatibleValue"},
	"bbolt.(*Bucket).MoveBucket":              {"ErrTxClosed", "ErrTxNotWritable", "ErrDifferentDB", "ErrBucketNotFound", "ErrIncompatibleValue", "ErrSameBuckets", "ErrBucketExists"},
	"bbolt.(*Bucket).SetSequence":             {"ErrTxClosed", "ErrTxNotWritable"},
	"bbolt.(*Bucket).NextSequence":            {"ErrTxClosed", "ErrTxNotWritable"},
	"bbolt.(*Cursor).Delete":                  {"ErrTxClosed", "ErrTxNotWritable", "ErrIncompatibleValue"},
}

func c04R3(c *Ctx, id string) {
	c.rule(id, "validation-not-weakened", 9, func() {
		for _, name := range exportedMutators {
			fn := c.fn(name)
			eff := effectSites(c, fn)
			after := reach(eff, nil, nil, nil)
			got := map[string]bool{}
			for _, ret := range returnsOf(fn) {
				if after[ret] {
					continue
				}
				for _, g := range returnedGlobals(ret) {
					got[g] = true
				}
			}
			var missing []string
			for _, w := range frozenValidation[name] {
				if !got[w] {
					missing = append(missing, w)
				}
			}
			sort.Strings(missing)
			c.check(id+":"+name+":validation", fn, fn.Pos(), fmt.Sprintf("before its first effect the method still returns each documented error it returns today %v", frozenValidation[name]), len(missing) == 0,
				"no longer returned before the first effect: "+strings.Join(missing, ", "))
		}
		// the size limits are the published ones
		for _, k := range []struct {
			name string
			val  int64
		}{{"MaxKeySize", 32768}, {"MaxValueSize", (1 << 31) - 2}} {
			v, ok := c.constOf(rootPkg, k.name)
			c.fact(id+":"+k.name, 0, fmt.Sprintf("%s == %d", k.name, k.val), ok && v == k.val, fmt.Sprintf("value %d", v))
		}
	})
}

func c04R4(c *Ctx, id string) {
	c.rule(id, "bucket-cache-coherence", 2, func() {
		bkF := c.P.lookupField(rootPkg, "Bucket", "buckets")
		for _, fn := range c.P.FnsIn(rootPkg) {
			name := shortFn(fn)
			eachInstr(fn, func(in ssa.Instruction) {
				del, ok := in.(*ssa.Call)
				if !ok || calleeOf(del).Builtin != "delete" || pathOf(del.Call.Args[0]).Last() != bkF {
					return
				}
				owner := pathOf(del.Call.Args[0]).Root
				okA, okB := false, false
				// (a) the bucket cached/opened under that key is freed on the same path
				for _, fr := range plainCallsIn(fn, "bbolt.(*Bucket).free") {
					ls := provenance(fr.Call.Args[0], provOpts{})
					fromChild := false
					for _, l := range ls {
						if l.Kind == "call" && l.Name == "bbolt.(*Bucket).Bucket" {
							fromChild = true
						}
						if _, isLk := l.V.(*ssa.Lookup); isLk {
							fromChild = true
						}
					}
					if fromChild && (reach([]ssa.Instruction{del}, nil, nil, nil)[fr] || reach([]ssa.Instruction{fr}, nil, nil, nil)[del]) {
						// must-pass: no return reachable from delete without free (or free dominates delete)
						if dominates(fr, del) {
							okA = true
						} else {
							r := reach([]ssa.Instruction{del}, nil, func(x ssa.Instruction) bool { return x == fr }, nil)
							leak := false
							for x := range r {
								if _, isR := x.(*ssa.Return); isR {
									leak = true
								}
							}
							okA = !leak
						}
					}
				}
				// (b) the cached *Bucket is re-homed into another bucket's cache
				eachInstr(fn, func(in2 ssa.Instruction) {
					mu, ok := in2.(*ssa.MapUpdate)
					if !ok || pathOf(mu.Map).Last() != bkF || pathOf(mu.Map).Root == owner {
						return
					}
					var lk *ssa.Lookup
					for _, l := range provenance(mu.Value, provOpts{}) {
						if x, isLk := l.V.(*ssa.Lookup); isLk && pathOf(x.X).Last() == bkF && pathOf(x.X).Root == owner {
							lk = x
						}
					}
					if lk == nil {
						return
					}
					// the only way from the lookup to the delete that avoids the re-homing is the `child == nil` edge
					cut := func(e edge) bool {
						iff, isIf := e.from.Instrs[len(e.from.Instrs)-1].(*ssa.If)
						if !isIf {
							return false
						}
						bo, isBin := iff.Cond.(*ssa.BinOp)
						if !isBin || !(isNilConst(bo.X) || isNilConst(bo.Y)) {
							return false
						}
						v := bo.X
						if isNilConst(v) {
							v = bo.Y
						}
						isLookup := false
						for _, l := range provenance(v, provOpts{}) {
							if l.V == ssa.Value(lk) {
								isLookup = true
							}
						}
						if !isLookup {
							return false
						}
						nilSucc := 0
						if bo.Op.String() == "!=" {
							nilSucc = 1
						}
						return e.succ == nilSucc
					}
					r := reach([]ssa.Instruction{lk}, nil, func(x ssa.Instruction) bool { return x == mu }, cut)
					if !r[del] {
						okB = true
					}
				})
				c.check(id+":"+name+":delete(buckets)", fn, del.Pos(), "a cached child bucket removed from its parent's cache is either freed (deletion) or re-homed into another bucket's cache (move): its uncommitted nodes are never silently dropped", okA || okB,
					"delete(b.buckets, key) drops the cached child (and its dirty nodes) without child.free() or re-homing: edits made to it earlier in this transaction are lost at spill")
			})
		}
	})
}

// ruleKeyOrderPredicates tabulates every sort.Search predicate over keys (C04.R5, C05.R4).
func ruleKeyOrderPredicates(c *Ctx, id string) {
	c.rule(id, "key-order-predicates", 8, func() {
		n := 0
		for _, fn := range c.P.FnsIn(rootPkg) {
			for _, call := range plainCallsIn(fn, "sort.Search") {
				cl := closureOf(call.Call.Args[1])
				if cl == nil {
					continue
				}
				if len(plainCallsIn(cl, "bytes.Compare")) == 0 {
					continue
				}
				n++
				var rows []string
				bad := ""
				for _, outcome := range []int64{-1, 0, 1} {
					var exactStore *V
					ev := &Evaluator{
						Call: func(call *ssa.Call, args []V) (V, bool) {
							if calleeOf(call).Name() == "bytes.Compare" {
								return iV(outcome), true
							}
							return unkV, false
						},
						OnStore: func(s *ssa.Store, val V) {
							if _, isFV := s.Addr.(*ssa.FreeVar); isFV {
								if _, isB := val.Bool(); isB {
									v := val
									exactStore = &v
								}
							}
						},
					}
					o := ev.Exec(cl, nil)
					if o.Kind != "return" || len(o.Rets) != 1 {
						bad = fmt.Sprintf("compare=%d: %s", outcome, o)
						continue
					}
					got, isB := o.Rets[0].Bool()
					want := outcome != -1
					rows = append(rows, fmt.Sprintf("%d->%v", outcome, got))
					if !isB || got != want {
						bad = fmt.Sprintf("for bytes.Compare == %d the predicate returns %s: not the lower-bound predicate (F,T,T)", outcome, o.Rets[0])
					}
					// searchNode / searchPage: exact is set exactly on outcome 0
					if name := shortFn(fn); name == "bbolt.(*Cursor).searchNode" || name == "bbolt.(*Cursor).searchPage" {
						set := exactStore != nil
						if set {
							b, _ := exactStore.Bool()
							set = b
						}
						if set != (outcome == 0) {
							bad = fmt.Sprintf("`exact` is set=%v for bytes.Compare == %d", set, outcome)
						}
					}
				}
				c.check(fmt.Sprintf("%s:%s:search-predicate", id, shortFn(cl)), fn, call.Pos(), "the sort.Search predicate over keys is the lower-bound predicate on bytes.Compare: (-1,0,1) -> (false,true,true) ["+strings.Join(rows, " ")+"]", bad == "", bad)
			}
		}
		// nodes.Less
		less := c.fn("bbolt.nodes.Less")
		bad := ""
		for _, outcome := range []int64{-1, 0, 1} {
			ev := &Evaluator{Call: func(call *ssa.Call, args []V) (V, bool) {
				if calleeOf(call).Name() == "bytes.Compare" {
					return iV(outcome), true
				}
				return unkV, false
			}}
			o := ev.Exec(less, nil)
			got, isB := false, false
			if o.Kind == "return" && len(o.Rets) == 1 {
				got, isB = o.Rets[0].Bool()
			}
			if !isB || got != (outcome == -1) {
				bad = fmt.Sprintf("compare=%d -> %s", outcome, o)
			}
		}
		c.check(id+":bbolt.nodes.Less:table", less, less.Pos(), "nodes.Less is strict byte order: (-1,0,1) -> (true,false,false)", bad == "", bad)
		// the index-- adjustment in searchNode / searchPage (C05.R4)
		for _, name := range []string{"bbolt.(*Cursor).searchNode", "bbolt.(*Cursor).searchPage"} {
			fn := c.fn(name)
			bad := ""
			for _, exact := range []bool{true, false} {
				for _, idx := range []int64{0, 1, 3} {
					var stored *V
					ev := &Evaluator{
						Call: func(call *ssa.Call, args []V) (V, bool) {
							if calleeOf(call).Name() == "sort.Search" {
								return iV(idx), true
							}
							return unkV, false
						},
						Load: func(u *ssa.UnOp) (V, bool) {
							// the "exact match" flag: the bool cell shared with the sort.Search predicate closure
							if a, ok := u.X.(*ssa.Alloc); ok && searchFlagCell(fn) == ssa.Value(a) {
								return bV(exact), true
							}
							return unkV, false
						},
						OnStore: func(s *ssa.Store, val V) {
							if fa, ok := s.Addr.(*ssa.FieldAddr); ok && fieldOfAddr(fa).Name() == "index" {
								v := val
								stored = &v
							}
						},
					}
					o := ev.Exec(fn, nil)
					want := idx
					if !exact && idx > 0 {
						want = idx - 1
					}
					if stored == nil {
						bad = fmt.Sprintf("exact=%v index=%d: no index stored (%s)", exact, idx, o)
						continue
					}
					if got, ok := stored.Int(); !ok || got != want {
						bad = fmt.Sprintf("exact=%v search=%d: stack index %s, want %d", exact, idx, *stored, want)
					}
				}
			}
			c.check(id+":"+name+":index-adjust", fn, fn.Pos(), "a branch search without an exact match steps back one element (`!exact && index > 0 => index--`): the child whose range contains the key", bad == "", bad)
		}
		_ = n
	})
}

func c04R6(c *Ctx, id string) {
	c.rule(id, "remap-dereferences-writer", 3, func() {
		mm := c.fn("bbolt.(*DB).mmap")
		rwtxF := c.dbField("rwtx")
		derefs := plainCallsIn(mm, "bbolt.(*Bucket).dereference")
		unmaps := plainCallsIn(mm, "bbolt.(*DB).munmap")
		ok := len(derefs) == 1 && len(unmaps) >= 1
		detail := fmt.Sprintf("%d dereference, %d munmap calls", len(derefs), len(unmaps))
		if ok {
			// receiver is db.rwtx.root
			rp := pathOf(derefs[0].Call.Args[0])
			if !rp.Has(rwtxF) || rp.Last().Name() != "root" {
				ok = false
				detail = "dereference is not applied to db.rwtx.root"
			}
			// under env rwtx != nil, the first munmap is reached only through dereference
			first := unmaps[0]
			r := reach(nil, []*ssa.BasicBlock{mm.Blocks[0]}, func(in ssa.Instruction) bool { return in == derefs[0] }, cutByEnv(map[*types.Var]bool{rwtxF: true}))
			if r[first] {
				ok = false
				detail = "with a writer open, db.munmap() is reachable without dereferencing its nodes (they keep pointing into the unmapped region)"
			}
		}
		c.check(id+":(*DB).mmap:dereference<munmap", mm, mm.Pos(), "when a write transaction is open, rwtx.root.dereference() runs before the old mapping is unmapped", ok, detail)
		bd := c.fn("bbolt.(*Bucket).dereference")
		okB := len(plainCallsIn(bd, "bbolt.(*node).dereference")) == 1 && len(plainCallsIn(bd, "bbolt.(*Bucket).dereference")) == 1 && len(plainCallsIn(bd, "bbolt.(*node).root")) == 1
		c.check(id+":(*Bucket).dereference:recursion", bd, bd.Pos(), "Bucket.dereference covers the root node's whole tree and every cached child bucket", okB, "a branch of the recursion is missing")
		nd := c.fn("bbolt.(*node).dereference")
		okN := len(plainCallsIn(nd, "bbolt.(*node).dereference")) == 1
		// keys and values are copied
		copies := 0
		eachInstr(nd, func(in ssa.Instruction) {
			if call, ok := in.(*ssa.Call); ok && (calleeOf(call).Builtin == "copy" || calleeOf(call).Name() == "common.(*Inode).SetKey" || calleeOf(call).Name() == "common.(*Inode).SetValue") {
				copies++
			}
			if st, ok := in.(*ssa.Store); ok {
				if fa, isFA := st.Addr.(*ssa.FieldAddr); isFA && fieldOfAddr(fa).Name() == "key" {
					copies++ // the node key is replaced (C04.R11 decides by what)
				}
			}
		})
		c.check(id+":(*node).dereference:recursion", nd, nd.Pos(), "node.dereference copies its key, every inode key and value to the heap and recurses into its children", okN && copies >= 3, fmt.Sprintf("recursion=%v copies/setters=%d", okN, copies))
	})
}

// c04R7: who may replace a bucket's header (root page + sequence) and who may change the sequence.
func c04R7(c *Ctx, id string) {
	c.rule(id, "bucket-header-ownership", 3, func() {
		inbF := c.P.lookupField(rootPkg, "Bucket", "InBucket")
		allowedPtr := map[string]bool{"bbolt.(*Tx).init": true, "bbolt.(*Bucket).openBucket": true}
		n := 0
		for _, st := range storesToField(c.P.FnsIn(rootPkg), inbF) {
			if _, isLocal := st.Addr.X.(*ssa.Alloc); isLocal {
				continue // a composite literal building a brand-new Bucket value
			}
			n++
			name := shortFn(st.Fn)
			c.check(fmt.Sprintf("%s:%s:stores-Bucket.InBucket#%d", id, name, n), st.Fn, st.Instr.Pos(), "an existing bucket's header pointer is (re)assigned only where the bucket is opened (tx.init, openBucket)", allowedPtr[name],
				name+" replaces the header of an existing bucket: its sequence (and root) are discarded")
		}
		// whole-struct stores through a *InBucket
		allowedVal := map[string]bool{"bbolt.(*Tx).init": true, "bbolt.(*Bucket).openBucket": true, "bbolt.(*Bucket).write": true, "bbolt.(*Bucket).spill": true}
		k := 0
		for _, fn := range c.P.FnsIn(rootPkg) {
			name := shortFn(fn)
			eachInstr(fn, func(in ssa.Instruction) {
				st, ok := in.(*ssa.Store)
				if !ok {
					return
				}
				pt, ok := st.Addr.Type().(*types.Pointer)
				if !ok {
					return
				}
				nt, ok := pt.Elem().(*types.Named)
				if !ok || nt.Obj().Name() != "InBucket" {
					return
				}
				if _, isLocal := st.Addr.(*ssa.Alloc); isLocal {
					return
				}
				k++
				c.check(fmt.Sprintf("%s:%s:overwrites-InBucket#%d", id, name, k), fn, in.Pos(), "a bucket header is overwritten as a whole only when opening a bucket or serialising it (init, openBucket, write, spill)", allowedVal[name], name+" overwrites a bucket header")
			})
		}
		// a sequence update on a bucket without a materialised root first materialises it (otherwise spill skips the bucket and the update is lost)
		rnF := c.P.lookupField(rootPkg, "Bucket", "rootNode")
		for _, spec := range []struct{ fn, upd string }{{"bbolt.(*Bucket).SetSequence", "common.(*InBucket).SetInSequence"}, {"bbolt.(*Bucket).NextSequence", "common.(*InBucket).IncSequence"}} {
			fn := c.fn(spec.fn)
			upds := callsIn(fn, spec.upd)
			ok := len(upds) == 1
			if ok {
				r := reach(nil, []*ssa.BasicBlock{fn.Blocks[0]}, func(in ssa.Instruction) bool { return isCallTo(in, "bbolt.(*Bucket).node") }, cutByEnv(map[*types.Var]bool{rnF: false}))
				ok = !r[upds[0].(ssa.Instruction)]
			}
			c.check(id+":"+spec.fn+":materialise-before-update", fn, fn.Pos(), "with no materialised root node the bucket's root is materialised before the sequence changes, so the bucket is rewritten at commit", ok, "the sequence can change on a bucket that spill will skip")
		}
		// the sequence changes only through SetSequence / NextSequence
		for _, spec := range []struct {
			callee  string
			allowed map[string]bool
		}{
			{"common.(*InBucket).SetInSequence", map[string]bool{"bbolt.(*Bucket).SetSequence": true}},
			{"common.(*InBucket).IncSequence", map[string]bool{"bbolt.(*Bucket).NextSequence": true}},
		} {
			bad := ""
			cnt := 0
			for _, fn := range c.P.Subjects {
				if strings.Contains(fnPkg(fn).Path(), "/cmd/") {
					continue
				}
				for range callsIn(fn, spec.callee) {
					cnt++
					if !spec.allowed[shortFn(fn)] {
						bad = shortFn(fn)
					}
				}
			}
			c.check(id+":"+spec.callee+":callers", nil, 0, fmt.Sprintf("%s is called only from %v", spec.callee, sortedKeys(spec.allowed)), bad == "" && cnt > 0, "also called from "+bad)
		}
	})
}

// c04R9: keys stored into a node are private copies. The B+tree keeps the key slice it is given until
// commit; if that slice is the caller's buffer, a caller that reuses the buffer after Put/CreateBucket
// re-orders (or corrupts) the node behind the tree's back. Every node.put call must therefore receive keys
// whose provenance holds no parameter of the enclosing function (cloneBytes / make+copy / tree-owned keys are fine).
func c04R9(c *Ctx, id string) {
	c.rule(id, "stored-keys-are-private-copies", 5, func() {
		put := c.fn("bbolt.(*node).put")
		for _, cs := range c.callersOf(put) {
			fn := cs.Caller
			call, ok := cs.Site.(*ssa.Call)
			if !ok {
				continue
			}
			bad := ""
			for _, ai := range []int{1, 2} {
				for _, l := range provenance(call.Call.Args[ai], provOpts{}) {
					if l.Kind == "param" {
						if p, isP := l.V.(*ssa.Parameter); isP {
							if sl, isSl := p.Type().Underlying().(*types.Slice); !isSl || !types.Identical(sl.Elem(), types.Typ[types.Byte]) {
								continue // only caller-supplied byte slices can alias (a string converted to []byte is a fresh copy; receivers own their keys)
							}
						}
						bad = fmt.Sprintf("argument %d of node.put derives from parameter %s of %s without a copy", ai, l.Name, shortFn(fn))
					}
				}
			}
			c.check(fmt.Sprintf("%s:%s:put-keys", id, strings.TrimPrefix(shortFn(fn), "bbolt.")), fn, call.Pos(), "the keys handed to node.put do not alias a caller-supplied slice (they are cloned, or owned by the tree)", bad == "", bad)
		}
	})
}

// c04R11: before the mapping is replaced, node.dereference must move every key and value of the write
// transaction's nodes onto the heap: each make([]byte, len(x)) is filled by copy(dst, x) from the very
// source it replaces (n.key / inode.Key() / inode.Value()) and then installed in that same slot.
func c04R11(c *Ctx, id string) {
	c.rule(id, "dereference-copies-bytes", 3, func() {
		fn := c.fn("bbolt.(*node).dereference")
		kindOf := func(v ssa.Value) string {
			for _, l := range provenance(v, provOpts{}) {
				switch {
				case l.Kind == "call" && strings.HasSuffix(l.Name, "(*Inode).Key"):
					return "inode-key"
				case l.Kind == "call" && strings.HasSuffix(l.Name, "(*Inode).Value"):
					return "inode-value"
				case l.Kind == "field" && strings.HasSuffix(l.Name, "key"):
					return "node-key"
				}
			}
			return ""
		}
		// freshCopyOf: v is a heap copy of a byte slice; returns the slice it copies ("" if v is not recognisably a
		// fresh copy): make+copy in place, a module helper whose body is make(len(p)) + copy(_, p) + return, or
		// bytes.Clone / slices.Clone / append([]byte(nil), src...)
		var freshCopyOf func(v ssa.Value, before ssa.Instruction, depth int) (ssa.Value, string)
		freshCopyOf = func(v ssa.Value, before ssa.Instruction, depth int) (ssa.Value, string) {
			switch x := v.(type) {
			case *ssa.MakeSlice:
				var sized ssa.Value
				if call, isC := stripConv(x.Len).(*ssa.Call); isC && calleeOf(call).Name() == "builtin:len" {
					sized = call.Call.Args[0]
				}
				if sized == nil {
					return nil, "a make whose size is not len(<the slot's content>)"
				}
				var cp *ssa.Call
				for _, r := range *x.Referrers() {
					if call, isC := r.(*ssa.Call); isC && calleeOf(call).Name() == "builtin:copy" && call.Call.Args[0] == ssa.Value(x) {
						cp = call
					}
				}
				if cp == nil {
					return nil, "the new buffer is never filled: copy(dst, src) is missing, the slot would be replaced by zero bytes"
				}
				if before != nil && !dominates(cp, before) {
					return nil, "the buffer is installed before it is filled"
				}
				if depth == 0 {
					// the size source and the copy source must be the same thing (compared by the caller through kindOf)
					return cp.Call.Args[1], "sized-by:" + fmt.Sprint(sized.Name())
				}
				if cp.Call.Args[1] != sized {
					if pa, ok := cp.Call.Args[1].(*ssa.Parameter); !ok || pa != sized {
						return nil, "copy fills the buffer from a different source than the one that sized it"
					}
				}
				return cp.Call.Args[1], ""
			case *ssa.Call:
				n := calleeOf(x).Name()
				if (n == "bytes.Clone" || n == "slices.Clone") && len(x.Call.Args) == 1 {
					return x.Call.Args[0], ""
				}
				if calleeOf(x).Builtin == "append" && len(x.Call.Args) == 2 {
					if isNilConst(stripConv(x.Call.Args[0])) {
						return x.Call.Args[1], ""
					}
				}
				f := calleeOf(x).Static
				if f != nil && inModule(f) && depth < 2 && len(f.Params) == 1 && len(x.Call.Args) == 1 && f.Signature.Results().Len() == 1 {
					// a cloner: every return is a fresh copy of the parameter
					okAll := len(returnsOf(f)) > 0
					for _, ret := range returnsOf(f) {
						src, why := freshCopyOf(ret.Results[0], ret, depth+1)
						if why != "" || src != ssa.Value(f.Params[0]) {
							okAll = false
						}
					}
					if okAll {
						return x.Call.Args[0], ""
					}
				}
			}
			return nil, "not a fresh copy"
		}
		type slot struct {
			kind string
			at   ssa.Instruction
			val  ssa.Value
		}
		var slots []slot
		eachInstr(fn, func(in ssa.Instruction) {
			switch x := in.(type) {
			case *ssa.Store:
				if fa, isFA := x.Addr.(*ssa.FieldAddr); isFA && fieldOfAddr(fa).Name() == "key" && fieldOfAddr(fa).Pkg() != nil && fieldOfAddr(fa).Pkg().Path() == rootPkg {
					slots = append(slots, slot{"node-key", in, x.Val})
				}
			case *ssa.Call:
				n := calleeOf(x).Name()
				if strings.HasSuffix(n, "(*Inode).SetKey") && len(x.Call.Args) == 2 {
					slots = append(slots, slot{"inode-key", in, x.Call.Args[1]})
				}
				if strings.HasSuffix(n, "(*Inode).SetValue") && len(x.Call.Args) == 2 {
					slots = append(slots, slot{"inode-value", in, x.Call.Args[1]})
				}
			}
		})
		seen := map[string]bool{}
		for _, sl := range slots {
			seen[sl.kind] = true
			bad := ""
			src, why := freshCopyOf(sl.val, sl.at, 0)
			switch {
			case src == nil:
				bad = "the value installed into the slot is " + why
			case kindOf(src) != sl.kind:
				bad = "the slot is replaced by a copy of something else (" + kindOf(src) + ")"
			default:
				if mk, isMk := sl.val.(*ssa.MakeSlice); isMk {
					if call, isC := stripConv(mk.Len).(*ssa.Call); isC && kindOf(call.Call.Args[0]) != sl.kind {
						bad = "copy fills the buffer from a different source than the one that sized it"
					}
				}
			}
			c.check(fmt.Sprintf("%s:(*node).dereference:%s", id, sl.kind), fn, sl.at.Pos(), "the slot is replaced by a heap copy of its own current content (same length, filled before it is installed)", bad == "", bad)
		}
		for _, k := range []string{"node-key", "inode-key", "inode-value"} {
			if !seen[k] {
				c.check(id+":(*node).dereference:"+k, fn, fn.Pos(), "dereference replaces "+k, false, "no buffer is made for "+k+": it keeps pointing into the mapping that is about to be unmapped")
			}
		}
		// no other make in dereference (a buffer that is made but not installed hints at a slot that is skipped)
		eachInstr(fn, func(in ssa.Instruction) {
			if mk, ok := in.(*ssa.MakeSlice); ok {
				used := false
				for _, sl := range slots {
					if sl.val == ssa.Value(mk) {
						used = true
					}
				}
				if !used {
					c.check(id+":(*node).dereference:make@unused", fn, mk.Pos(), "every buffer made in dereference is installed into a slot", false, "a buffer is made but installed nowhere")
				}
			}
		})
	})
}

// searchFlagCell: the *bool cell bound into the closure handed to sort.Search (set by the predicate on an exact hit).
func searchFlagCell(fn *ssa.Function) ssa.Value {
	for _, call := range plainCallsIn(fn, "sort.Search") {
		if mc, ok := call.Call.Args[1].(*ssa.MakeClosure); ok {
			for _, b := range mc.Bindings {
				if pt, isP := b.Type().Underlying().(*types.Pointer); isP {
					if bt, isB := pt.Elem().Underlying().(*types.Basic); isB && bt.Kind() == types.Bool {
						return b
					}
				}
			}
		}
	}
	return nil
}
