package main

import (
	"fmt"
	"go/token"
	"go/types"
	"os"
	"sort"
	"strings"

	"golang.org/x/tools/go/ssa"
)

// narrowingConverts lists every integer conversion in the subject packages that can lose bits
// (destination narrower than the source under the analysed word size).
type narrowing struct {
	fn   *ssa.Function
	conv *ssa.Convert
	from string
	to   string
}

func intWidth(t types.Type, sizes types.Sizes) (int64, bool, bool) {
	b, ok := t.Underlying().(*types.Basic)
	if !ok || b.Info()&types.IsInteger == 0 {
		return 0, false, false
	}
	return sizes.Sizeof(t) * 8, b.Info()&types.IsUnsigned != 0, true
}

func narrowingConverts(c *Ctx, pkgs ...string) []narrowing {
	sizes := types.SizesFor("gc", "amd64")
	var out []narrowing
	for _, pk := range pkgs {
		for _, fn := range c.P.FnsIn(pk) {
			for _, f := range withAnons(fn) {
				eachInstr(f, func(in ssa.Instruction) {
					cv, ok := in.(*ssa.Convert)
					if !ok {
						return
					}
					if _, isC := cv.X.(*ssa.Const); isC {
						return
					}
					fw, _, ok1 := intWidth(cv.X.Type(), sizes)
					tw, _, ok2 := intWidth(cv.Type(), sizes)
					if !ok1 || !ok2 || tw >= fw {
						return
					}
					out = append(out, narrowing{f, cv, cv.X.Type().String(), cv.Type().String()})
				})
			}
		}
	}
	sort.Slice(out, func(i, j int) bool { return out[i].conv.Pos() < out[j].conv.Pos() })
	return out
}

// ruleNarrowingConfined: a lossy integer conversion (int -> uint16, uintptr -> uint32, ...) is legitimate only where
// the on-disk format fixes the width: as an argument of a page / page-element / meta accessor, or as a returned
// on-disk quantity. In memory, a node holds any number of inodes until it is split at commit (far more than 65535 in
// one bulk-loading transaction) and sizes exceed 32 bits; so a narrowed value must never (transitively, through
// arithmetic, phis and re-widening) index or slice an in-memory collection, bound a loop over one, or be stored into a
// tree/cursor structure. Otherwise the cursor / node code silently addresses element (i mod 65536).
func ruleNarrowingConfined(c *Ctx, id string) {
	c.rule(id, "narrowing-confined-to-page-format", 20, func() {
		formatRecv := func(callee Callee) bool {
			n := callee.Name()
			for _, p := range []string{"common.(*Page).", "common.(*leafPageElement).", "common.(*branchPageElement).", "common.(*Meta).", "common.(*InBucket).", "common.(*Inode)."} {
				if strings.HasPrefix(n, p) {
					return true
				}
			}
			return false
		}
		perFn := map[string]int{}
		for _, n := range narrowingConverts(c, rootPkg, commonPath, freelistPath) {
			perFn[shortFn(n.fn)]++
			i := perFn[shortFn(n.fn)] - 1
			bad := ""
			var visit func(user ssa.Instruction, alias ssa.Value)
			seenVal := map[ssa.Value]bool{}
			follow := func(v ssa.Value) {
				if !seenVal[v] {
					seenVal[v] = true
					useClosure(v, visit)
				}
			}
			visit = func(user ssa.Instruction, alias ssa.Value) {
				if bad != "" {
					return
				}
				switch u := user.(type) {
				case *ssa.IndexAddr:
					if u.Index == alias {
						bad = "indexes " + types.TypeString(u.X.Type(), nil) + " at " + c.P.Position(u.Pos())
					}
				case *ssa.Index:
					if u.Index == alias {
						bad = "indexes " + types.TypeString(u.X.Type(), nil) + " at " + c.P.Position(u.Pos())
					}
				case *ssa.Lookup:
					if u.Index == alias {
						if _, isMap := u.X.Type().Underlying().(*types.Map); !isMap {
							bad = "indexes a string at " + c.P.Position(u.Pos())
						}
					}
				case *ssa.Slice:
					if u.Low == alias || u.High == alias || u.Max == alias {
						bad = "bounds a slice expression at " + c.P.Position(u.Pos())
					}
				case *ssa.BinOp:
					switch u.Op {
					case token.ADD, token.SUB, token.MUL, token.QUO, token.REM, token.SHL, token.SHR, token.AND, token.OR, token.XOR:
						follow(u) // arithmetic keeps the truncated value
					}
				case *ssa.Store:
					// stored into a structure (not a local cell: useClosure already looked through those)
					if fa, ok := u.Addr.(*ssa.FieldAddr); ok && u.Val == alias {
						f := fieldOfAddr(fa)
						if f != nil && f.Pkg() != nil && f.Pkg().Path() == rootPkg {
							bad = "is stored into the in-memory field " + f.Name() + " at " + c.P.Position(u.Pos())
						}
					}
				case *ssa.MakeSlice:
					bad = "sizes a make() at " + c.P.Position(u.Pos())
				case *ssa.Call:
					if calleeOf(u).Builtin == "" && !formatRecv(calleeOf(u)) && calleeOf(u).Static != nil && inModule(calleeOf(u).Static) {
						// passed on to module code that is not a page-format accessor: follow the parameter
						for k, a := range u.Call.Args {
							if a == alias && k < len(calleeOf(u).Static.Params) {
								follow(calleeOf(u).Static.Params[k])
							}
						}
					}
				}
			}
			follow(n.conv)
			c.check(fmt.Sprintf("%s:%s:narrow#%d(%s->%s)", id, shortFn(n.fn), i+1, n.from, n.to), n.fn, n.conv.Pos(),
				"a value truncated to an on-disk field width is used only as a page-format quantity: it never indexes, slices or sizes an in-memory collection (a materialised node may hold more than 65535 inodes before it is split)", bad == "",
				"the truncated value "+bad)
		}
	})
}

func debugNarrowing(c *Ctx) {
	if os.Getenv("VERIF_DEBUG_NARROW") == "" {
		return
	}
	for _, n := range narrowingConverts(c, rootPkg, commonPath, freelistPath) {
		var uses []string
		for _, r := range *n.conv.Referrers() {
			uses = append(uses, strings.TrimSpace(fmt.Sprintf("%T %s", r, r.String())))
		}
		fmt.Fprintf(os.Stderr, "NARROW %s %s: %s -> %s  uses=%v\n", c.P.Position(n.conv.Pos()), shortFn(n.fn), n.from, n.to, uses)
	}
}
