package main

// Pre-inlining of NEW helper functions.
//
// The rules are anchored on the functions that exist on the confirmed tree (Commit, rollback, write, writeMeta,
// init, WriteTo, ...). "Extract a block into a new unexported helper" is the most common behaviour-preserving edit
// and would otherwise move the events a rule looks for (the writeAt, the Reload, the SetTxid) out of the anchored
// function. Before the program is built, every function that is NOT in the frozen list of functions known on the
// confirmed tree (known_funcs.txt), is unexported, non-recursive, only ever called directly and has a body of a
// supported shape is substituted, at source level, into its callers:
//
//	x, err := h(a, b)      =>   var r1 T1; var r2 error
//	                            { p, q := a, b
//	                              L: for { <body, `return e1, e2` -> `r1, r2 = e1, e2; break L`> ; break L }
//	                              <deferred calls, in reverse order> }
//	                            x, err := r1, r2
//
// and its declaration is dropped when no use remains. The result is handed to go/packages as an overlay; /repo is
// not touched. A helper or call site outside the supported shapes is left alone (the rules then see the helper as
// what it is: a new function). If the overlay does not type-check it is discarded. Nothing is inlined on a tree that
// has no new functions, so the unchanged tree is analysed exactly as it is.

import (
	"bytes"
	_ "embed"
	"fmt"
	"go/ast"
	"go/parser"
	"go/printer"
	"go/token"
	"go/types"
	"os"
	"path/filepath"
	"sort"
	"strings"

	"golang.org/x/tools/go/ast/astutil"
	"golang.org/x/tools/go/packages"
)

//go:embed known_funcs.txt
var knownFuncsTxt string

// knownBags: key -> multiset of the names called / selected in the body (comma separated, sorted)
var knownBags = map[string]string{}

// funcBag: the multiset of identifiers a body calls or selects — a cheap fingerprint that survives renaming the
// function, changing its receiver into a parameter, reordering parameters or renaming locals.
func funcBag(fd *ast.FuncDecl) string {
	if fd.Body == nil {
		return ""
	}
	var names []string
	ast.Inspect(fd.Body, func(n ast.Node) bool {
		switch x := n.(type) {
		case *ast.SelectorExpr:
			names = append(names, x.Sel.Name)
		case *ast.CallExpr:
			if id, ok := x.Fun.(*ast.Ident); ok {
				names = append(names, id.Name)
			}
		}
		return true
	})
	sort.Strings(names)
	return strings.Join(names, ",")
}

func bagSimilarity(a, b string) float64 {
	if a == "" || b == "" {
		return 0
	}
	ca, cb := map[string]int{}, map[string]int{}
	for _, x := range strings.Split(a, ",") {
		ca[x]++
	}
	for _, x := range strings.Split(b, ",") {
		cb[x]++
	}
	inter, union := 0, 0
	for k, v := range ca {
		w := cb[k]
		if w < v {
			inter += w
			union += v
		} else {
			inter += v
			union += w
		}
	}
	for k, w := range cb {
		if _, ok := ca[k]; !ok {
			union += w
		}
	}
	if union == 0 {
		return 0
	}
	return float64(inter) / float64(union)
}

// knownFuncs: key -> signature ("(T1,T2)(R1)") as printed from the syntax
var knownSigs = func() map[string]string {
	m := map[string]string{}
	for _, l := range strings.Split(knownFuncsTxt, "\n") {
		l = strings.TrimSpace(l)
		if l != "" && !strings.HasPrefix(l, "#") {
			parts := strings.SplitN(l, "\t", 3)
			if len(parts) >= 2 {
				m[parts[0]] = parts[1]
			}
			if len(parts) == 3 {
				knownBags[parts[0]] = parts[2]
			}
		}
	}
	return m
}()

var knownFuncs = func() map[string]bool {
	m := map[string]bool{}
	for k := range knownSigs {
		m[k] = true
	}
	return m
}()

// funcSig prints parameter and result types of a declaration (no names), from the syntax.
func funcSig(fd *ast.FuncDecl) string {
	var b strings.Builder
	list := func(fl *ast.FieldList) {
		b.WriteString("(")
		if fl != nil {
			first := true
			for _, f := range fl.List {
				n := len(f.Names)
				if n == 0 {
					n = 1
				}
				for i := 0; i < n; i++ {
					if !first {
						b.WriteString(",")
					}
					first = false
					var tb bytes.Buffer
					_ = printer.Fprint(&tb, token.NewFileSet(), f.Type)
					b.WriteString(strings.Join(strings.Fields(tb.String()), ""))
				}
			}
		}
		b.WriteString(")")
	}
	ptr := ""
	if fd.Recv != nil && len(fd.Recv.List) > 0 {
		if _, ok := fd.Recv.List[0].Type.(*ast.StarExpr); ok {
			ptr = "*"
		}
	}
	b.WriteString(ptr)
	list(fd.Type.Params)
	list(fd.Type.Results)
	return b.String()
}

// renamedFuncs: "<dir>:<recv>.<newName>" -> old name, for every function of the confirmed tree that is gone while
// exactly one new function with the same receiver type and the same signature appeared in the same directory — a
// rename. The rules keep addressing it by its confirmed name (see typeFuncName); it is not a new helper.
type oldName struct {
	recv string // receiver type name ("" for a plain function)
	ptr  bool
	name string
}

var renamedFuncs = map[string]oldName{}

func detectRenames(repo string) []string {
	cur, err := dumpKnownFuncs(repo)
	if err != nil {
		return nil
	}
	curSig := map[string]string{}
	curBag := map[string]string{}
	for _, l := range cur {
		parts := strings.SplitN(l, "\t", 3)
		curSig[parts[0]] = parts[1]
		if len(parts) == 3 {
			curBag[parts[0]] = parts[2]
		}
	}
	split := func(k string) (dir, recv, name string) {
		i := strings.Index(k, ":")
		dir, rest := k[:i], k[i+1:]
		j := strings.LastIndex(rest, ".")
		return dir, rest[:j], rest[j+1:]
	}
	var log []string
	used := map[string]bool{}
	matched := map[string]bool{}
	var missing []string
	for k := range knownSigs {
		if _, ok := curSig[k]; !ok {
			missing = append(missing, k)
		}
	}
	sort.Strings(missing)
	for _, m := range missing {
		md, mr, mn := split(m)
		var cands []string
		for k, sig := range curSig {
			if knownFuncs[k] || used[k] {
				continue
			}
			d, r, _ := split(k)
			if d == md && r == mr && sig == knownSigs[m] {
				cands = append(cands, k)
			}
		}
		if len(cands) == 1 {
			used[cands[0]] = true
			renamedFuncs[cands[0]] = oldName{mr, strings.HasPrefix(knownSigs[m], "*"), mn}
			_, _, nn := split(cands[0])
			log = append(log, fmt.Sprintf("function %s is taken for the renamed %s (same receiver and signature, the old name is gone); rules address it by its confirmed name", nn, m))
			matched[m] = true
		}
	}
	// second pass: a confirmed function that is gone and whose BODY lives on in exactly one new function of the same
	// directory (method turned into a function, parameters added or reordered, renamed at the same time)
	for _, m := range missing {
		if matched[m] || len(strings.Split(knownBags[m], ",")) < 5 {
			continue
		}
		md, mr, mn := split(m)
		best, second, bestK := 0.0, 0.0, ""
		for k := range curSig {
			if knownFuncs[k] || used[k] {
				continue
			}
			d, _, _ := split(k)
			if d != md {
				continue
			}
			sim := bagSimilarity(knownBags[m], curBag[k])
			if sim > best {
				best, second, bestK = sim, best, k
			} else if sim > second {
				second = sim
			}
		}
		if bestK != "" && best >= 0.75 && (best-second >= 0.15 || (best >= 0.999 && second < 0.999)) {
			used[bestK] = true
			renamedFuncs[bestK] = oldName{mr, strings.HasPrefix(knownSigs[m], "*"), mn}
			_, _, nn := split(bestK)
			log = append(log, fmt.Sprintf("function %s is taken for the reshaped %s (its body matches %.0f%%, the old function is gone); rules address it by its confirmed name", nn, m, best*100))
		}
	}
	return log
}

// funcKey: "<dir relative to the module root>:<receiver type>.<name>" — computed from syntax only.
func funcKey(relDir string, fd *ast.FuncDecl) string {
	recv := ""
	if fd.Recv != nil && len(fd.Recv.List) > 0 {
		t := fd.Recv.List[0].Type
		for {
			switch x := t.(type) {
			case *ast.StarExpr:
				t = x.X
				continue
			case *ast.ParenExpr:
				t = x.X
				continue
			case *ast.IndexExpr:
				t = x.X
				continue
			case *ast.IndexListExpr:
				t = x.X
				continue
			}
			break
		}
		if id, ok := t.(*ast.Ident); ok {
			recv = id.Name
		}
	}
	return relDir + ":" + recv + "." + fd.Name.Name
}

// dumpKnownFuncs lists every non-test function of the module (all build configurations) by funcKey.
func dumpKnownFuncs(repo string) ([]string, error) {
	var out []string
	err := filepath.Walk(repo, func(path string, info os.FileInfo, err error) error {
		if err != nil {
			return err
		}
		if info.IsDir() {
			if n := info.Name(); n == ".git" || n == "testdata" || n == "vendor" {
				return filepath.SkipDir
			}
			return nil
		}
		if !strings.HasSuffix(path, ".go") || strings.HasSuffix(path, "_test.go") {
			return nil
		}
		f, err := parser.ParseFile(token.NewFileSet(), path, nil, parser.SkipObjectResolution)
		if err != nil {
			return nil
		}
		rel, _ := filepath.Rel(repo, filepath.Dir(path))
		for _, d := range f.Decls {
			if fd, ok := d.(*ast.FuncDecl); ok {
				out = append(out, funcKey(rel, fd)+"\t"+funcSig(fd)+"\t"+funcBag(fd))
			}
		}
		return nil
	})
	sort.Strings(out)
	return out, err
}

// hasNewFuncs: a syntax-only scan — is there any function outside the known list? (cheap; decides whether the
// pre-inlining pass runs at all)
func hasNewFuncs(repo string) bool {
	ks, err := dumpKnownFuncs(repo)
	if err != nil {
		return false
	}
	for _, l := range ks {
		k, _, _ := strings.Cut(l, "\t")
		if !knownFuncs[k] {
			return true
		}
	}
	return false
}

type inlHelper struct {
	key     string
	obj     *types.Func
	decl    *ast.FuncDecl
	file    *ast.File
	pkg     *packages.Package
	bodySrc string
	defers  []string // source of the supported deferred calls, in order of appearance
	uses    int
	inlined int
}

type preInliner struct {
	repo    string
	env     []string
	overlay map[string][]byte
	Log     []string
	seq     int
}

func (pi *preInliner) logf(format string, a ...any) {
	pi.Log = append(pi.Log, fmt.Sprintf(format, a...))
}

// preInline returns an overlay (absolute file name -> content) in which new helpers are substituted into their
// callers, or nil when there is nothing to do / nothing could be done.
func preInline(repo string, env []string) (map[string][]byte, []string) {
	if os.Getenv("VERIF_NO_PREINLINE") != "" {
		return nil, nil
	}
	if fr, _ := detectFieldRenames(repo); !hasNewFuncs(repo) && len(fr) == 0 {
		return nil, nil
	}
	pi := &preInliner{repo: repo, env: env, overlay: map[string][]byte{}}
	pi.Log = append(pi.Log, detectRenames(repo)...)
	pi.undoFieldRenames()
	for round := 0; round < 4; round++ {
		changed, err := pi.round()
		if err != nil {
			pi.logf("pre-inline round %d abandoned: %v", round+1, err)
			break
		}
		if !changed {
			break
		}
	}
	if len(pi.overlay) == 0 {
		return nil, pi.Log
	}
	// the overlay must type-check; otherwise analyse the tree as it is
	if err := pi.verify(); err != nil {
		pi.logf("pre-inline overlay discarded: %v", err)
		return nil, pi.Log
	}
	return pi.overlay, pi.Log
}

func (pi *preInliner) load() ([]*packages.Package, error) {
	cfg := &packages.Config{
		Mode:    packages.NeedName | packages.NeedFiles | packages.NeedCompiledGoFiles | packages.NeedImports | packages.NeedTypes | packages.NeedTypesSizes | packages.NeedSyntax | packages.NeedTypesInfo | packages.NeedDeps,
		Dir:     pi.repo,
		Env:     pi.env,
		Tests:   false,
		Overlay: pi.overlay,
	}
	pkgs, err := packages.Load(cfg, "./...")
	if err != nil {
		return nil, err
	}
	var mod []*packages.Package
	for _, p := range pkgs {
		if len(p.Errors) > 0 {
			return nil, fmt.Errorf("%s: %v", p.PkgPath, p.Errors[0])
		}
		if p.PkgPath == modulePath || strings.HasPrefix(p.PkgPath, modulePath+"/") {
			mod = append(mod, p)
		}
	}
	return mod, nil
}

func (pi *preInliner) verify() error {
	_, err := pi.load()
	return err
}

func (pi *preInliner) round() (bool, error) {
	pkgs, err := pi.load()
	if err != nil {
		return false, err
	}
	changedAny := false
	for _, pkg := range pkgs {
		if len(pkg.Syntax) == 0 {
			continue
		}
		relDir := "."
		if len(pkg.CompiledGoFiles) > 0 {
			if r, err := filepath.Rel(pi.repo, filepath.Dir(pkg.CompiledGoFiles[0])); err == nil {
				relDir = r
			}
		}
		// candidate helpers of this package
		helpers := map[*types.Func]*inlHelper{}
		for _, f := range pkg.Syntax {
			for _, d := range f.Decls {
				fd, ok := d.(*ast.FuncDecl)
				if !ok || fd.Body == nil {
					continue
				}
				key := funcKey(relDir, fd)
				if _, renamed := renamedFuncs[key]; renamed {
					continue
				}
				if knownFuncs[key] || ast.IsExported(fd.Name.Name) || fd.Name.Name == "init" || fd.Name.Name == "main" || fd.Name.Name == "_" {
					continue
				}
				obj, _ := pkg.TypesInfo.Defs[fd.Name].(*types.Func)
				if obj == nil {
					continue
				}
				h := &inlHelper{key: key, obj: obj, decl: fd, file: f, pkg: pkg}
				if why := pi.eligible(h); why != "" {
					pi.logf("helper %s not inlined: %s", key, why)
					continue
				}
				helpers[obj] = h
			}
		}
		if len(helpers) == 0 {
			continue
		}
		// uses: every use must be the callee of a call; leaf-first (a helper whose body calls another candidate waits)
		callsCandidate := map[*types.Func]bool{}
		for id, o := range pkg.TypesInfo.Uses {
			fn, ok := o.(*types.Func)
			if !ok || helpers[fn] == nil {
				continue
			}
			helpers[fn].uses++
			for _, h := range helpers {
				if h.decl.Body.Pos() <= id.Pos() && id.Pos() < h.decl.Body.End() {
					if h.obj == fn {
						h.uses = -1 << 20 // recursive
					} else {
						callsCandidate[h.obj] = true
					}
				}
			}
		}
		changedFiles := map[*ast.File]bool{}
		for _, f := range pkg.Syntax {
			pi.inlineInFile(pkg, f, helpers, callsCandidate, changedFiles)
		}
		// drop declarations that have no use left
		for _, h := range helpers {
			if h.uses > 0 && h.inlined == h.uses {
				var keep []ast.Decl
				for _, d := range h.file.Decls {
					if d != ast.Decl(h.decl) {
						keep = append(keep, d)
					}
				}
				h.file.Decls = keep
				changedFiles[h.file] = true
				pi.logf("helper %s substituted into its %d call site(s); declaration dropped", h.key, h.uses)
			} else if h.inlined > 0 {
				pi.logf("helper %s substituted at %d of %d uses; declaration kept", h.key, h.inlined, h.uses)
			}
		}
		for f := range changedFiles {
			name := pkg.Fset.Position(f.Package).Filename
			src, err := pi.printFile(pkg.Fset, f)
			if err != nil {
				return false, fmt.Errorf("printing %s: %v", name, err)
			}
			pi.overlay[name] = src
			changedAny = true
		}
	}
	return changedAny, nil
}

// printFile prints the file without comments (their positions are meaningless after the edit), keeping the
// comments above the package clause (build constraints).
func (pi *preInliner) printFile(fset *token.FileSet, f *ast.File) ([]byte, error) {
	var keep []*ast.CommentGroup
	for _, cg := range f.Comments {
		if cg.End() < f.Package {
			keep = append(keep, cg)
		}
	}
	f.Comments = keep
	f.Doc = nil
	ast.Inspect(f, func(n ast.Node) bool {
		switch x := n.(type) {
		case *ast.FuncDecl:
			x.Doc = nil
		case *ast.GenDecl:
			x.Doc = nil
		case *ast.Field:
			x.Doc, x.Comment = nil, nil
		case *ast.ValueSpec:
			x.Doc, x.Comment = nil, nil
		case *ast.TypeSpec:
			x.Doc, x.Comment = nil, nil
		case *ast.ImportSpec:
			x.Doc, x.Comment = nil, nil
		}
		return true
	})
	var b bytes.Buffer
	if err := (&printer.Config{Mode: printer.UseSpaces | printer.TabIndent, Tabwidth: 8}).Fprint(&b, fset, f); err != nil {
		return nil, err
	}
	// must parse
	if _, err := parser.ParseFile(token.NewFileSet(), "x.go", b.Bytes(), 0); err != nil {
		return nil, err
	}
	return b.Bytes(), nil
}

// eligible: "" if the helper's shape is supported.
func (pi *preInliner) eligible(h *inlHelper) string {
	fd := h.decl
	sig := h.obj.Type().(*types.Signature)
	if sig.Variadic() {
		return "variadic"
	}
	if sig.TypeParams() != nil || sig.RecvTypeParams() != nil {
		return "generic"
	}
	named := false
	if fd.Type.Results != nil {
		for _, r := range fd.Type.Results.List {
			if len(r.Names) > 0 {
				named = true
			}
		}
	}
	why := ""
	sawReturn := false
	for _, st := range fd.Body.List {
		if d, ok := st.(*ast.DeferStmt); ok {
			if sawReturn {
				return "defer after a return"
			}
			if named {
				return "defer with named results"
			}
			if len(d.Call.Args) != 0 {
				return "deferred call with arguments"
			}
			okFun := true
			ast.Inspect(d.Call.Fun, func(n ast.Node) bool {
				switch n.(type) {
				case *ast.CallExpr, *ast.FuncLit:
					okFun = false
				}
				return true
			})
			if !okFun {
				return "deferred call of unsupported shape"
			}
			var b bytes.Buffer
			_ = printer.Fprint(&b, h.pkg.Fset, d.Call)
			h.defers = append(h.defers, b.String())
			continue
		}
		ast.Inspect(st, func(n ast.Node) bool {
			switch x := n.(type) {
			case *ast.FuncLit:
				return false
			case *ast.ReturnStmt:
				sawReturn = true
			case *ast.DeferStmt:
				why = "nested defer"
			case *ast.LabeledStmt:
				why = "label"
			case *ast.BranchStmt:
				if x.Tok == token.GOTO {
					why = "goto"
				}
			case *ast.CallExpr:
				if id, ok := x.Fun.(*ast.Ident); ok && id.Name == "recover" {
					why = "recover"
				}
			}
			return true
		})
	}
	if why != "" {
		return why
	}
	// body source without the supported top-level defers
	var stmts []ast.Stmt
	for _, st := range fd.Body.List {
		if _, ok := st.(*ast.DeferStmt); !ok {
			stmts = append(stmts, st)
		}
	}
	var b bytes.Buffer
	if err := printer.Fprint(&b, h.pkg.Fset, &ast.BlockStmt{List: stmts}); err != nil {
		return "unprintable body"
	}
	h.bodySrc = b.String()
	return ""
}

// callOf returns the call to a candidate helper that sits at a supported position of stmt.
func soleCall(stmt ast.Stmt) (*ast.CallExpr, func(repl []ast.Expr) ast.Stmt) {
	switch s := stmt.(type) {
	case *ast.ExprStmt:
		if c, ok := s.X.(*ast.CallExpr); ok {
			return c, func(repl []ast.Expr) ast.Stmt { return nil }
		}
	case *ast.AssignStmt:
		if len(s.Rhs) == 1 {
			if c, ok := s.Rhs[0].(*ast.CallExpr); ok {
				return c, func(repl []ast.Expr) ast.Stmt { s.Rhs = repl; return s }
			}
		}
	case *ast.ReturnStmt:
		if len(s.Results) == 1 {
			if c, ok := s.Results[0].(*ast.CallExpr); ok {
				return c, func(repl []ast.Expr) ast.Stmt { s.Results = repl; return s }
			}
		}
	}
	return nil, nil
}

func (pi *preInliner) inlineInFile(pkg *packages.Package, f *ast.File, helpers map[*types.Func]*inlHelper, waits map[*types.Func]bool, changed map[*ast.File]bool) {
	info := pkg.TypesInfo
	calleeOfCall := func(c *ast.CallExpr) (*inlHelper, ast.Expr) {
		switch fun := c.Fun.(type) {
		case *ast.Ident:
			if fn, ok := info.Uses[fun].(*types.Func); ok && helpers[fn] != nil {
				return helpers[fn], nil
			}
		case *ast.SelectorExpr:
			if fn, ok := info.Uses[fun.Sel].(*types.Func); ok && helpers[fn] != nil {
				if sel := info.Selections[fun]; sel != nil && sel.Kind() == types.MethodVal && len(sel.Index()) == 1 {
					return helpers[fn], fun.X
				}
			}
		}
		return nil, nil
	}
	// a new helper without parameters and results that is used as a VALUE (b.start.Do(b.runOnce), time.AfterFunc(d,
	// h), `go`/`defer` of a method value) is first turned into the closure form `func() { x.h() }`, whose call is
	// then substituted like any other
	astutil.Apply(f, func(cur *astutil.Cursor) bool {
		var id *ast.Ident
		switch e := cur.Node().(type) {
		case *ast.SelectorExpr:
			id = e.Sel
		case *ast.Ident:
			if _, isSel := cur.Parent().(*ast.SelectorExpr); isSel {
				return true
			}
			id = e
		default:
			return true
		}
		fn, ok := info.Uses[id].(*types.Func)
		if !ok || helpers[fn] == nil || waits[fn] || helpers[fn].uses < 0 {
			return true
		}
		if call, isCall := cur.Parent().(*ast.CallExpr); isCall && call.Fun == cur.Node() {
			return true // an ordinary call
		}
		sig := fn.Type().(*types.Signature)
		if sig.Variadic() {
			return true
		}
		if sel, isSel := cur.Node().(*ast.SelectorExpr); isSel {
			if s := info.Selections[sel]; s == nil || s.Kind() != types.MethodVal || len(s.Index()) != 1 {
				return true
			}
			// the receiver expression must be free of calls (it is evaluated later in the closure form)
			pure := true
			ast.Inspect(sel.X, func(n ast.Node) bool {
				if _, isC := n.(*ast.CallExpr); isC {
					pure = false
				}
				return true
			})
			if !pure {
				return true
			}
		}
		qualOK := true
		qual := func(p *types.Package) string {
			if p == pkg.Types {
				return ""
			}
			for _, imp := range f.Imports {
				if strings.Trim(imp.Path.Value, `"`) == p.Path() {
					if imp.Name != nil {
						if imp.Name.Name == "_" || imp.Name.Name == "." {
							break
						}
						return imp.Name.Name
					}
					return p.Name()
				}
			}
			qualOK = false
			return p.Name()
		}
		params := &ast.FieldList{}
		inner := &ast.CallExpr{Fun: cur.Node().(ast.Expr)}
		for i := 0; i < sig.Params().Len(); i++ {
			te, err := parser.ParseExpr(types.TypeString(sig.Params().At(i).Type(), qual))
			if err != nil || !qualOK {
				return true
			}
			name := fmt.Sprintf("__p%d", i)
			params.List = append(params.List, &ast.Field{Names: []*ast.Ident{ast.NewIdent(name)}, Type: te})
			inner.Args = append(inner.Args, ast.NewIdent(name))
		}
		var results *ast.FieldList
		if sig.Results().Len() > 0 {
			results = &ast.FieldList{}
			for i := 0; i < sig.Results().Len(); i++ {
				te, err := parser.ParseExpr(types.TypeString(sig.Results().At(i).Type(), qual))
				if err != nil || !qualOK {
					return true
				}
				results.List = append(results.List, &ast.Field{Type: te})
			}
		}
		var bodyStmt ast.Stmt = &ast.ExprStmt{X: inner}
		if results != nil {
			bodyStmt = &ast.ReturnStmt{Results: []ast.Expr{inner}}
		}
		lit := &ast.FuncLit{Type: &ast.FuncType{Params: params, Results: results}, Body: &ast.BlockStmt{List: []ast.Stmt{bodyStmt}}}
		cur.Replace(lit)
		changed[f] = true
		pi.logf("value use of helper %s at %s rewritten as func() { … }", helpers[fn].key, pkg.Fset.Position(id.Pos()))
		return false
	}, nil)
	astutil.Apply(f, nil, func(cur *astutil.Cursor) bool {
		stmt, ok := cur.Node().(ast.Stmt)
		if !ok || cur.Index() < 0 {
			return true
		}
		var call *ast.CallExpr
		var put func([]ast.Expr) ast.Stmt
		inInit := false
		if ifs, isIf := stmt.(*ast.IfStmt); isIf && ifs.Init != nil {
			call, put = soleCall(ifs.Init)
			inInit = true
		} else {
			call, put = soleCall(stmt)
		}
		if call == nil {
			return true
		}
		h, recvExpr := calleeOfCall(call)
		if h == nil || waits[h.obj] || h.uses < 0 {
			return true
		}
		// not inside the helper itself (recursion was excluded) — and not inside another candidate's body is fine
		pre, results, why := pi.expand(pkg, f, h, call, recvExpr)
		if why != "" {
			pi.logf("call of %s at %s not substituted: %s", h.key, pkg.Fset.Position(call.Pos()), why)
			return true
		}
		for _, s := range pre {
			cur.InsertBefore(s)
		}
		if inInit {
			ifs := stmt.(*ast.IfStmt)
			if ns := put(results); ns == nil {
				ifs.Init = nil
				for _, r := range results {
					cur.InsertBefore(&ast.AssignStmt{Lhs: []ast.Expr{ast.NewIdent("_")}, Tok: token.ASSIGN, Rhs: []ast.Expr{r}})
				}
			}
		} else if ns := put(results); ns == nil {
			// an expression statement: results are discarded
			for _, r := range results {
				cur.InsertBefore(&ast.AssignStmt{Lhs: []ast.Expr{ast.NewIdent("_")}, Tok: token.ASSIGN, Rhs: []ast.Expr{r}})
			}
			cur.Delete()
		}
		h.inlined++
		changed[f] = true
		return true
	})
}

// expand builds the statements that replace one call of h.
func (pi *preInliner) expand(pkg *packages.Package, file *ast.File, h *inlHelper, call *ast.CallExpr, recvExpr ast.Expr) (pre []ast.Stmt, results []ast.Expr, why string) {
	info := pkg.TypesInfo
	sig := h.obj.Type().(*types.Signature)
	pi.seq++
	tag := fmt.Sprintf("inl%d", pi.seq)

	// 1. names the body resolves at package / file level must resolve identically at the call site
	callerScope := pkg.Types.Scope().Innermost(call.Pos())
	if callerScope == nil {
		return nil, nil, "no scope at the call site"
	}
	bad := ""
	ast.Inspect(h.decl.Body, func(n ast.Node) bool {
		id, ok := n.(*ast.Ident)
		if !ok || bad != "" {
			return true
		}
		obj := info.Uses[id]
		if obj == nil {
			return true
		}
		_, isPkgName := obj.(*types.PkgName)
		if !isPkgName && (obj.Parent() != pkg.Types.Scope() && obj.Parent() != types.Universe) {
			return true
		}
		if _, o2 := callerScope.LookupParent(id.Name, call.Pos()); o2 != obj {
			if pn, ok := obj.(*types.PkgName); ok {
				if pn2, ok2 := o2.(*types.PkgName); ok2 && pn2.Imported() == pn.Imported() {
					return true
				}
			}
			bad = "the name " + id.Name + " means something else at the call site"
		}
		return true
	})
	if bad != "" {
		return nil, nil, bad
	}
	qual := func(p *types.Package) string {
		if p == pkg.Types {
			return ""
		}
		for _, imp := range file.Imports {
			path := strings.Trim(imp.Path.Value, `"`)
			if path == p.Path() {
				if imp.Name != nil {
					if imp.Name.Name == "_" || imp.Name.Name == "." {
						break
					}
					return imp.Name.Name
				}
				return p.Name()
			}
		}
		bad = "the caller's file does not import " + p.Path()
		return p.Name()
	}
	typeExpr := func(t types.Type) (ast.Expr, bool) {
		s := types.TypeString(t, qual)
		if bad != "" {
			return nil, false
		}
		e, err := parser.ParseExpr(s)
		return e, err == nil
	}

	// 2. result variables
	for i := 0; i < sig.Results().Len(); i++ {
		te, ok := typeExpr(sig.Results().At(i).Type())
		if !ok {
			return nil, nil, "result type not expressible in the caller's file: " + bad
		}
		name := fmt.Sprintf("__%s_r%d", tag, i)
		pre = append(pre, &ast.DeclStmt{Decl: &ast.GenDecl{Tok: token.VAR, Specs: []ast.Spec{&ast.ValueSpec{Names: []*ast.Ident{ast.NewIdent(name)}, Type: te}}}})
		results = append(results, ast.NewIdent(name))
	}

	// 3. parameter binding
	block := &ast.BlockStmt{}
	type bind struct {
		name string
		typ  types.Type
		arg  ast.Expr
	}
	var binds []bind
	if sig.Recv() != nil {
		name := "_"
		if len(h.decl.Recv.List) > 0 && len(h.decl.Recv.List[0].Names) > 0 {
			name = h.decl.Recv.List[0].Names[0].Name
		}
		if recvExpr == nil {
			return nil, nil, "method expression call"
		}
		arg := recvExpr
		at := info.TypeOf(recvExpr)
		rt := sig.Recv().Type()
		if !types.Identical(at, rt) {
			if pt, ok := rt.(*types.Pointer); ok && types.Identical(pt.Elem(), at) {
				arg = &ast.UnaryExpr{Op: token.AND, X: recvExpr}
			} else if pa, ok := at.(*types.Pointer); ok && types.Identical(pa.Elem(), rt) {
				arg = &ast.StarExpr{X: recvExpr}
			} else {
				return nil, nil, "receiver type mismatch"
			}
		}
		binds = append(binds, bind{name, rt, arg})
	}
	k := 0
	for _, fld := range h.decl.Type.Params.List {
		names := fld.Names
		if len(names) == 0 {
			names = []*ast.Ident{ast.NewIdent("_")}
		}
		for _, nm := range names {
			if k >= len(call.Args) {
				return nil, nil, "argument count"
			}
			binds = append(binds, bind{nm.Name, sig.Params().At(k).Type(), call.Args[k]})
			k++
		}
	}
	if k != len(call.Args) {
		return nil, nil, "argument count (multi-value argument)"
	}
	// temporaries evaluated in the caller's scope, in order; constants and nil go straight into the typed variable
	var lhs, rhs []ast.Expr
	type late struct {
		name string
		typ  types.Type
		val  ast.Expr
	}
	var lates []late
	for i, b := range binds {
		tv := info.Types[b.arg]
		at := info.TypeOf(b.arg)
		if u, ok := b.arg.(*ast.UnaryExpr); ok && u.Op == token.AND {
			at = types.NewPointer(info.TypeOf(u.X))
		}
		if st, ok := b.arg.(*ast.StarExpr); ok && at == nil {
			if pt, ok := info.TypeOf(st.X).(*types.Pointer); ok {
				at = pt.Elem()
			}
		}
		direct := tv.IsNil() || tv.Value != nil
		if direct {
			lates = append(lates, late{b.name, b.typ, b.arg})
			continue
		}
		tmp := fmt.Sprintf("__%s_a%d", tag, i)
		lhs = append(lhs, ast.NewIdent(tmp))
		rhs = append(rhs, b.arg)
		if at != nil && types.Identical(at, b.typ) {
			lates = append(lates, late{b.name, nil, ast.NewIdent(tmp)})
		} else {
			lates = append(lates, late{b.name, b.typ, ast.NewIdent(tmp)})
		}
	}
	if len(lhs) > 0 {
		block.List = append(block.List, &ast.AssignStmt{Lhs: lhs, Tok: token.DEFINE, Rhs: rhs})
	}
	for _, l := range lates {
		if l.name == "_" {
			block.List = append(block.List, &ast.AssignStmt{Lhs: []ast.Expr{ast.NewIdent("_")}, Tok: token.ASSIGN, Rhs: []ast.Expr{l.val}})
			continue
		}
		if l.typ == nil {
			block.List = append(block.List, &ast.AssignStmt{Lhs: []ast.Expr{ast.NewIdent(l.name)}, Tok: token.DEFINE, Rhs: []ast.Expr{l.val}})
		} else {
			te, ok := typeExpr(l.typ)
			if !ok {
				return nil, nil, "parameter type not expressible in the caller's file: " + bad
			}
			block.List = append(block.List, &ast.DeclStmt{Decl: &ast.GenDecl{Tok: token.VAR, Specs: []ast.Spec{&ast.ValueSpec{Names: []*ast.Ident{ast.NewIdent(l.name)}, Type: te, Values: []ast.Expr{l.val}}}}})
		}
		block.List = append(block.List, &ast.AssignStmt{Lhs: []ast.Expr{ast.NewIdent("_")}, Tok: token.ASSIGN, Rhs: []ast.Expr{ast.NewIdent(l.name)}})
	}
	// named results are ordinary variables of the body
	var namedRes []string
	if h.decl.Type.Results != nil {
		i := 0
		for _, fld := range h.decl.Type.Results.List {
			for _, nm := range fld.Names {
				te, ok := typeExpr(sig.Results().At(i).Type())
				if !ok {
					return nil, nil, "result type not expressible in the caller's file: " + bad
				}
				if nm.Name != "_" {
					block.List = append(block.List, &ast.DeclStmt{Decl: &ast.GenDecl{Tok: token.VAR, Specs: []ast.Spec{&ast.ValueSpec{Names: []*ast.Ident{ast.NewIdent(nm.Name)}, Type: te}}}})
					block.List = append(block.List, &ast.AssignStmt{Lhs: []ast.Expr{ast.NewIdent("_")}, Tok: token.ASSIGN, Rhs: []ast.Expr{ast.NewIdent(nm.Name)}})
				}
				namedRes = append(namedRes, nm.Name)
				i++
			}
		}
	}

	// 4. the body, re-parsed so that every call site gets its own copy
	label := "__" + tag
	src := "package p\nfunc _() " + h.bodySrc + "\n"
	pf, err := parser.ParseFile(pkg.Fset, "", src, parser.SkipObjectResolution)
	if err != nil {
		return nil, nil, "body does not re-parse: " + err.Error()
	}
	body := pf.Decls[0].(*ast.FuncDecl).Body
	brk := func() ast.Stmt { return &ast.BranchStmt{Tok: token.BREAK, Label: ast.NewIdent(label)} }
	failed := ""
	astutil.Apply(body, func(cur *astutil.Cursor) bool {
		if _, isLit := cur.Node().(*ast.FuncLit); isLit {
			return false
		}
		ret, ok := cur.Node().(*ast.ReturnStmt)
		if !ok {
			return true
		}
		repl := &ast.BlockStmt{}
		switch {
		case len(results) == 0:
		case len(ret.Results) == 0:
			// bare return with named results
			if len(namedRes) != len(results) {
				failed = "bare return without named results"
				return false
			}
			var rv []ast.Expr
			for _, n := range namedRes {
				if n == "_" {
					failed = "bare return with a blank named result"
					return false
				}
				rv = append(rv, ast.NewIdent(n))
			}
			repl.List = append(repl.List, &ast.AssignStmt{Lhs: cloneIdents(results), Tok: token.ASSIGN, Rhs: rv})
		default:
			repl.List = append(repl.List, &ast.AssignStmt{Lhs: cloneIdents(results), Tok: token.ASSIGN, Rhs: ret.Results})
		}
		repl.List = append(repl.List, brk())
		cur.Replace(repl)
		return false
	}, nil)
	if failed != "" {
		return nil, nil, failed
	}
	body.List = append(body.List, brk())
	block.List = append(block.List, &ast.LabeledStmt{Label: ast.NewIdent(label), Stmt: &ast.ForStmt{Body: body}})
	for i := len(h.defers) - 1; i >= 0; i-- {
		e, err := parser.ParseExpr(h.defers[i])
		if err != nil {
			return nil, nil, "deferred call does not re-parse"
		}
		block.List = append(block.List, &ast.ExprStmt{X: e})
	}
	pre = append(pre, block)
	return pre, results, ""
}

func cloneIdents(es []ast.Expr) []ast.Expr {
	var out []ast.Expr
	for _, e := range es {
		out = append(out, ast.NewIdent(e.(*ast.Ident).Name))
	}
	return out
}

// ---------------------------------------------------------------------------------------------
// Renamed unexported struct fields: a field of the confirmed tree that is gone while exactly one new field of the
// same declared type appeared in the same struct is a rename; it is renamed BACK in the overlay (every identifier
// that resolves to the field object), so the rules keep finding `rwlock`, `pages`, `alloctx` ... by their
// confirmed names.

//go:embed known_fields.txt
var knownFieldsTxt string

func dumpKnownFields(repo string) ([]string, error) {
	var out []string
	err := filepath.Walk(repo, func(path string, info os.FileInfo, err error) error {
		if err != nil {
			return err
		}
		if info.IsDir() {
			if n := info.Name(); n == ".git" || n == "testdata" || n == "vendor" {
				return filepath.SkipDir
			}
			return nil
		}
		if !strings.HasSuffix(path, ".go") || strings.HasSuffix(path, "_test.go") {
			return nil
		}
		f, err := parser.ParseFile(token.NewFileSet(), path, nil, parser.SkipObjectResolution)
		if err != nil {
			return nil
		}
		rel, _ := filepath.Rel(repo, filepath.Dir(path))
		ast.Inspect(f, func(n ast.Node) bool {
			ts, ok := n.(*ast.TypeSpec)
			if !ok {
				return true
			}
			st, ok := ts.Type.(*ast.StructType)
			if !ok {
				return true
			}
			idx := 0
			for _, fld := range st.Fields.List {
				var tb bytes.Buffer
				_ = printer.Fprint(&tb, token.NewFileSet(), fld.Type)
				typ := strings.Join(strings.Fields(tb.String()), "")
				for _, nm := range fld.Names {
					out = append(out, fmt.Sprintf("%s:%s.%s\t%s#%d", rel, ts.Name.Name, nm.Name, typ, idx))
					idx++
				}
				if len(fld.Names) == 0 {
					idx++
				}
			}
			return true
		})
		return nil
	})
	sort.Strings(out)
	// the same struct may be declared once per platform file: keep one line per key
	var uniq []string
	for i, l := range out {
		if i == 0 || l != out[i-1] {
			uniq = append(uniq, l)
		}
	}
	return uniq, err
}

func typeOnly(s string) string {
	if i := strings.LastIndex(s, "#"); i >= 0 {
		return s[:i]
	}
	return s
}

// typeAliases: "dir:NewType" -> "dir:OldType" for renamed struct types (filled by detectFieldRenames)
var typeAliases = map[string]string{}

// detectFieldRenames returns (dir -> type -> newName -> oldName).
func detectFieldRenames(repo string) (map[string]map[string]map[string]string, []string) {
	known := map[string]string{}
	for _, l := range strings.Split(knownFieldsTxt, "\n") {
		l = strings.TrimSpace(l)
		if l != "" && !strings.HasPrefix(l, "#") {
			k, t, _ := strings.Cut(l, "\t")
			known[k] = t
		}
	}
	cur := map[string]string{}
	ls, err := dumpKnownFields(repo)
	if err != nil {
		return nil, nil
	}
	for _, l := range ls {
		k, t, _ := strings.Cut(l, "\t")
		cur[k] = t
	}
	// renamed struct types: a confirmed struct that is gone while exactly one new struct with the same sequence of
	// field types exists in the same directory
	structSeq := func(m map[string]string) map[string][]string {
		tmp := map[string]map[int]string{}
		for k, t := range m {
			j := strings.LastIndex(k, ".")
			dt := k[:j]
			i := strings.LastIndex(t, "#")
			idx := 0
			fmt.Sscanf(t[i+1:], "%d", &idx)
			if tmp[dt] == nil {
				tmp[dt] = map[int]string{}
			}
			tmp[dt][idx] = t[:i]
		}
		out := map[string][]string{}
		for dt, mm := range tmp {
			seq := make([]string, len(mm)+8)
			for i, t := range mm {
				if i < len(seq) {
					seq[i] = t
				}
			}
			out[dt] = seq
		}
		return out
	}
	knownSeq, curSeq := structSeq(known), structSeq(cur)
	typeAliases = map[string]string{}
	for kdt, kseq := range knownSeq {
		if _, still := curSeq[kdt]; still {
			continue
		}
		kdir := kdt[:strings.Index(kdt, ":")]
		var cands []string
		for cdt, cseq := range curSeq {
			if _, isKnown := knownSeq[cdt]; isKnown || cdt[:strings.Index(cdt, ":")] != kdir {
				continue
			}
			if strings.Join(cseq, "|") == strings.Join(kseq, "|") {
				cands = append(cands, cdt)
			}
		}
		if len(cands) == 1 {
			typeAliases[cands[0]] = kdt
		}
	}
	if len(typeAliases) > 0 {
		translated := map[string]string{}
		for k, t := range cur {
			j := strings.LastIndex(k, ".")
			if old, ok := typeAliases[k[:j]]; ok {
				translated[old+k[j:]] = t
			} else {
				translated[k] = t
			}
		}
		cur = translated
	}
	split := func(k string) (dirType, name string) {
		j := strings.LastIndex(k, ".")
		return k[:j], k[j+1:]
	}
	res := map[string]map[string]map[string]string{}
	var log []string
	used := map[string]bool{}
	var missing []string
	for k := range known {
		if _, ok := cur[k]; !ok {
			missing = append(missing, k)
		}
	}
	sort.Strings(missing)
	for _, m := range missing {
		mdt, mn := split(m)
		if ast.IsExported(mn) {
			continue
		}
		var cands []string
		for k, t := range cur {
			if _, isKnown := known[k]; isKnown || used[k] {
				continue
			}
			dt, n := split(k)
			if dt == mdt && typeOnly(t) == typeOnly(known[m]) && !ast.IsExported(n) {
				cands = append(cands, k)
			}
		}
		if len(cands) > 1 {
			// several new fields of that type: the one at the same position in the struct
			var same []string
			for _, k := range cands {
				if cur[k] == known[m] {
					same = append(same, k)
				}
			}
			cands = same
		}
		if len(cands) != 1 {
			continue
		}
		used[cands[0]] = true
		_, nn := split(cands[0])
		i := strings.Index(mdt, ":")
		dir, typ := mdt[:i], mdt[i+1:]
		if res[dir] == nil {
			res[dir] = map[string]map[string]string{}
		}
		if res[dir][typ] == nil {
			res[dir][typ] = map[string]string{}
		}
		res[dir][typ][nn] = mn
		log = append(log, fmt.Sprintf("field %s.%s is taken for the renamed %s (same struct, same type, the old name is gone); it is analysed under its confirmed name", typ, nn, m))
	}
	for nw, old := range typeAliases {
		i := strings.Index(old, ":")
		dir, typ := old[:i], old[i+1:]
		if res[dir] == nil {
			res[dir] = map[string]map[string]string{}
		}
		if res[dir][typ] == nil {
			res[dir][typ] = map[string]string{}
		}
		log = append(log, fmt.Sprintf("struct type %s is taken for the renamed %s (same field types in the same order, the old type is gone); it is analysed under its confirmed name", nw[strings.Index(nw, ":")+1:], old))
	}
	return res, log
}

// undoFieldRenames rewrites the identifiers of renamed fields back to their confirmed names (overlay only).
func (pi *preInliner) undoFieldRenames() {
	ren, log := detectFieldRenames(pi.repo)
	if len(ren) == 0 {
		return
	}
	pkgs, err := pi.load()
	if err != nil {
		pi.logf("field renames not undone: %v", err)
		return
	}
	for _, pkg := range pkgs {
		if len(pkg.CompiledGoFiles) == 0 {
			continue
		}
		relDir, err := filepath.Rel(pi.repo, filepath.Dir(pkg.CompiledGoFiles[0]))
		if err != nil || ren[relDir] == nil {
			continue
		}
		objs := map[types.Object]string{}
		for typ, m := range ren[relDir] {
			curName := typ
			for nw, old := range typeAliases {
				if old == relDir+":"+typ {
					curName = nw[strings.Index(nw, ":")+1:]
				}
			}
			tn, _ := pkg.Types.Scope().Lookup(curName).(*types.TypeName)
			if tn == nil {
				continue
			}
			if curName != typ {
				objs[tn] = typ
			}
			st, ok := tn.Type().Underlying().(*types.Struct)
			if !ok {
				continue
			}
			for i := 0; i < st.NumFields(); i++ {
				if old, ok := m[st.Field(i).Name()]; ok {
					objs[st.Field(i)] = old
				}
			}
		}
		if len(objs) == 0 {
			continue
		}
		for _, f := range pkg.Syntax {
			changed := false
			ast.Inspect(f, func(n ast.Node) bool {
				id, ok := n.(*ast.Ident)
				if !ok {
					return true
				}
				var o types.Object
				if d := pkg.TypesInfo.Defs[id]; d != nil {
					o = d
				} else if u := pkg.TypesInfo.Uses[id]; u != nil {
					o = u
				}
				if old, ok := objs[o]; ok && o != nil {
					id.Name = old
					changed = true
				}
				return true
			})
			if changed {
				name := pkg.Fset.Position(f.Package).Filename
				if src, err := pi.printFile(pkg.Fset, f); err == nil {
					pi.overlay[name] = src
				} else {
					pi.logf("field renames not undone in %s: %v", name, err)
				}
			}
		}
	}
	pi.Log = append(pi.Log, log...)
}
