package main

import (
	"fmt"
	"strings"

	"golang.org/x/tools/go/ssa"
)

const cmdPath = modulePath + "/cmd/bbolt/command"

func init() {
	register(&propDef{
		ID: "C20",
		Explanation: "Decided: each surgery command writes ONLY its output file — every writer call takes a path derived from the --output option, is dominated by the success of common.CopyFile(source, output), and the source path flows only into existence checks, the copy's source argument and read-only readers; " +
			"CopyFile refuses an existing destination (so output != source); raw page writers are reachable only from the surgery code; metas rewritten by surgery get a fresh checksum and `freelist abandon` rewrites BOTH metas; " +
			"revert-meta-page copies the OTHER meta over the active one (tabulated) and sets the target page id before writing. " +
			"NOT decided: that the output's free pages equal the unreachable pages, that the reverted file opens at the previous state and passes Check (dynamic; rests on C06). Round 3: the free list that `freelist rebuild` persists comes from the integrity check's reachability walk (C13.R1 re-evaluated).",
		Run: func(c *Ctx) {
			c20R1(c, "C20.R1")
			c20R2(c, "C20.R2")
			c20R3(c, "C20.R3")
			c20R4(c, "C20.R4")
			c13R1(c, "C20.R9") // "freelist rebuild restores exactly the unreachable pages": abandon + rebuild persists what db.freepages() computes
			ruleTestedErrorsPropagate(c, "C20.R7", []string{modulePath + "/internal/guts_cli", modulePath + "/internal/surgeon", cmdPath, commonPath}, 30, func(n string) bool {
				return !strings.HasPrefix(n, "command.") || strings.Contains(strings.ToLower(n), "surgery") || strings.Contains(n, "MetaPageAt")
			}) // a repair step that failed is not reported as success
			ruleWriteErrorsKept(c, "C20.R8", []string{modulePath + "/internal/guts_cli", modulePath + "/internal/surgeon", cmdPath, commonPath}, 4, func(n string) bool {
				return !strings.HasPrefix(n, "command.") || strings.Contains(strings.ToLower(n), "surgery") || strings.Contains(n, "MetaPageAt")
			})
			ruleMetaSlot(c, "C20.R6") // "reverting the meta page immediately after a commit yields the previously committed state": commits alternate slots, so the other page IS the previous state
			ruleChecksumAfterMutation(c, "C20.R5", 5) // revert copies the OTHER meta page: it restores a valid state only if every writer of meta pages (commit, init, backup, surgery) leaves both pages checksummed after their last change
		},
	})
}

var surgeryWriters = map[string]int{ // callee -> index of the path argument
	"surgeon.RevertMetaPage": 0, "surgeon.CopyPage": 0, "surgeon.ClearPage": 0, "surgeon.ClearPageElements": 0, "surgeon.ClearFreelist": 0,
	"command.writeMetaPageAt": 0, "guts_cli.WritePage": 0, "bbolt.Open": 0,
}

func c20R1(c *Ctx, id string) {
	c.rule(id, "surgery-writes-only-output", 7, func() {
		srcReaders := map[string]int{"command.checkSourceDBPath": 0, "common.CopyFile": 0, "command.readMetaPage": 0, "command.ReadMetaPageAt": 0, "guts_cli.ReadPageAndHWMSize": 0, "guts_cli.ReadPage": 0}
		optRO := c.P.lookupField(rootPkg, "Options", "ReadOnly")
		nFns := 0
		for _, fn := range c.P.FnsIn(cmdPath) {
			if fn.Parent() != nil {
				continue
			}
			name := shortFn(fn)
			if !strings.HasPrefix(name, "command.surgery") {
				continue
			}
			var writers []*ssa.Call
			for callee := range surgeryWriters {
				for _, call := range plainCallsIn(fn, callee) {
					if callee == "bbolt.Open" && optionsLiteralField(call.Call.Args[2], optRO) == "true" {
						continue
					}
					writers = append(writers, call)
				}
			}
			if len(writers) == 0 {
				continue
			}
			nFns++
			copies := plainCallsIn(fn, "common.CopyFile")
			var srcParam *ssa.Parameter
			for _, p := range fn.Params {
				if strings.Contains(strings.ToLower(p.Name()), "src") {
					srcParam = p
				}
			}
			okCopy := len(copies) == 1 && srcParam != nil
			detail := fmt.Sprintf("%d CopyFile calls", len(copies))
			var okSucc, errSucc []*ssa.BasicBlock
			if okCopy {
				cp := copies[0]
				a0 := provenance(cp.Call.Args[0], provOpts{})
				a1 := provenance(cp.Call.Args[1], provOpts{})
				okCopy = hasLeaf(a0, "param", srcParam.Name()) && hasFieldLeaf(a1, "outputDBFilePath") && !hasLeaf(a1, "param", srcParam.Name())
				detail = "CopyFile must copy the source argument to the --output path"
				for _, t := range errTests(cp) {
					okSucc = append(okSucc, t.Nil)
					errSucc = append(errSucc, t.NonNil)
				}
				if len(okSucc) == 0 {
					okCopy = false
					detail = "CopyFile's error is not tested"
				}
			}
			c.check(id+":"+name+":copy-first", fn, fn.Pos(), "the command first copies <source> to the --output path with common.CopyFile and tests its error", okCopy, detail)
			fromErr := reach(nil, errSucc, nil, nil)
			for i, w := range writers {
				cn := calleeOf(w).Name()
				ls := provenance(w.Call.Args[surgeryWriters[cn]], provOpts{})
				bad := ""
				if !hasFieldLeaf(ls, "outputDBFilePath") {
					bad = "the path written does not derive from the --output option"
				}
				if srcParam != nil && hasLeaf(ls, "param", srcParam.Name()) {
					bad = "the SOURCE path is handed to " + cn
				}
				if len(copies) == 1 && (!dominates(copies[0], w) || fromErr[w]) {
					bad = cn + " can run without a successful copy of the source"
				}
				c.check(fmt.Sprintf("%s:%s:%s#%d", id, name, cn, i+1), fn, w.Pos(), cn+" receives the --output path and runs only after the source was copied there successfully", bad == "" && okCopy, bad)
			}
			// the source path is only read
			if srcParam != nil {
				bad := ""
				useClosure(srcParam, func(user ssa.Instruction, alias ssa.Value) {
					switch u := user.(type) {
					case ssa.CallInstruction:
						cn := calleeOf(u).Name()
						if idx, ok := srcReaders[cn]; ok && idx < len(u.Common().Args) && u.Common().Args[idx] == alias {
							return
						}
						bad = "the source path is passed to " + cn
					case *ssa.DebugRef:
					case *ssa.MakeInterface:
						// printing the path
					default:
						bad = fmt.Sprintf("the source path is used by %T", user)
					}
				})
				c.check(id+":"+name+":source-only-read", fn, fn.Pos(), "the source path flows only into the existence check, CopyFile's source argument and read-only readers", bad == "", bad)
			}
		}
		c.check(id+":functions", nil, 0, fmt.Sprintf("%d mutating surgery functions analysed", nFns), nFns >= 7, "expected the 7 mutating surgery commands")
		// the helpers below the commands write the path they were given, nothing else
		surgeonPath := modulePath + "/internal/surgeon"
		gutsPath := modulePath + "/internal/guts_cli"
		k := 0
		for _, fn := range append(c.P.FnsIn(surgeonPath), c.P.FnsIn(gutsPath)...) {
			if fn.Parent() != nil || len(fn.Params) == 0 {
				continue
			}
			for _, callee := range []string{"guts_cli.WritePage", "surgeon.CopyPage", "surgeon.ClearFreelist", "surgeon.clearFreelistInMetaPage", "surgeon.ClearPageElements", "os.OpenFile", "os.Create"} {
				for _, call := range plainCallsIn(fn, callee) {
					k++
					p, isP := call.Call.Args[0].(*ssa.Parameter)
					ok := isP && p == fn.Params[0] && strings.Contains(strings.ToLower(p.Name()), "path")
					c.check(fmt.Sprintf("%s:%s:%s#%d-same-path", id, shortFn(fn), callee, k), fn, call.Pos(), shortFn(fn)+" hands exactly its own path parameter to "+callee, ok, "a different path is written")
				}
			}
		}
	})
}

func c20R2(c *Ctx, id string) {
	c.rule(id, "raw-writers-confined", 3, func() {
		for _, name := range []string{"guts_cli.WritePage", "command.writeMetaPageAt"} {
			f := c.fn(name)
			bad := ""
			n := 0
			for _, cs := range c.callersOf(f) {
				n++
				top := shortFn(topLevel(cs.Caller))
				if !(strings.HasPrefix(top, "surgeon.") || strings.HasPrefix(top, "command.surgery")) {
					bad = top
				}
			}
			c.check(id+":"+name+":callers", f, f.Pos(), name+" is called only from internal/surgeon and the surgery commands", bad == "" && n > 0, "also called from "+bad)
		}
		// CopyFile refuses an existing destination
		cf := c.fn("common.CopyFile")
		creates := plainCallsIn(cf, "os.Create")
		var dstStat *ssa.Call
		for _, st := range plainCallsIn(cf, "os.Stat") {
			if p, ok := st.Call.Args[0].(*ssa.Parameter); ok && p == cf.Params[1] {
				dstStat = st
			}
		}
		ok := len(creates) == 1 && dstStat != nil
		detail := "no os.Stat(dstPath) / os.Create(dstPath)"
		if ok {
			cr := creates[0]
			if p, isP := cr.Call.Args[0].(*ssa.Parameter); !isP || p != cf.Params[1] {
				ok = false
				detail = "os.Create is not applied to the destination parameter"
			}
			if !dominates(dstStat, cr) {
				ok = false
				detail = "the destination is created before it was checked"
			}
			for _, t := range errTests(dstStat) {
				if reach(nil, []*ssa.BasicBlock{t.Nil}, nil, nil)[cr] {
					ok = false
					detail = "os.Create is reachable although Stat(dst) succeeded (the destination exists): an existing file — possibly the source — is truncated"
				}
			}
			if len(errTests(dstStat)) == 0 {
				ok = false
				detail = "Stat(dst)'s result is not tested"
			}
			// other Stat errors than not-exist are returned
			if len(plainCallsIn(cf, "os.IsNotExist")) < 2 {
				ok = false
				detail = "Stat errors other than not-exist are not distinguished"
			}
		}
		c.check(id+":common.CopyFile:refuses-existing-destination", cf, cf.Pos(), "CopyFile creates the destination only if Stat(dst) failed with not-exist (so the output can never be the source or any existing file)", ok, detail)
		// the copy is COMPLETE: io.Copy reads the source file itself and the verified size is the file's size
		okFull := false
		detailFull := "no io.Copy(dst, src)"
		for _, cp := range plainCallsIn(cf, "io.Copy") {
			okFull = true
			for _, l := range provenance(cp.Call.Args[1], provOpts{ThroughCall: throughAll}) {
				if l.Kind == "call" && l.Name != "os.Open" {
					okFull = false
					detailFull = "the reader handed to io.Copy is derived through " + l.Name + ": only part of the source may be copied"
				}
			}
			if !hasLeaf(provenance(cp.Call.Args[1], provOpts{}), "call", "os.Open") {
				okFull = false
				detailFull = "io.Copy does not read the file opened from srcPath"
			}
			// written is compared with Stat().Size() of the source, nothing else
			cmpOK := false
			ev := (*ssa.Extract)(nil)
			for _, r := range *cp.Referrers() {
				if ex, ok := r.(*ssa.Extract); ok && ex.Index == 0 {
					ev = ex
				}
			}
			if ev != nil {
				for _, r := range *ev.Referrers() {
					bo, ok := r.(*ssa.BinOp)
					if !ok {
						continue
					}
					other := bo.X
					if other == ssa.Value(ev) {
						other = bo.Y
					}
					cmpOK = true
					for _, l := range provenance(other, provOpts{ThroughCall: throughAll}) {
						if l.Kind == "call" && !(l.Name == "fs.FileInfo.Size" || l.Name == "os.(*File).Stat" || l.Name == "os.Open") {
							cmpOK = false
							detailFull = "the size the copy is verified against depends on " + l.Name
						}
						if l.Kind == "const" {
							cmpOK = false
						}
					}
				}
			}
			if !cmpOK && okFull {
				okFull = false
				if detailFull == "no io.Copy(dst, src)" {
					detailFull = "the number of bytes copied is not verified against the source's size"
				}
			}
		}
		c.check(id+":common.CopyFile:complete-copy", cf, cf.Pos(), "CopyFile copies the source file itself with io.Copy (no length-limited reader) and verifies the byte count against the source's Stat().Size()", okFull, detailFull)
		// and the source is opened read-only
		okOpen := len(plainCallsIn(cf, "os.Open")) == 1 && len(plainCallsIn(cf, "os.OpenFile")) == 0
		c.check(id+":common.CopyFile:source-read-only", cf, cf.Pos(), "CopyFile opens the source with os.Open (O_RDONLY)", okOpen, "the source is opened differently")
	})
}

func c20R3(c *Ctx, id string) {
	c.rule(id, "surgery-metas-checksummed", 3, func() {
		// checksum after mutation in the surgery code
		sub := newCtx(c.Prop, c.P)
		ruleChecksumAfterMutation(sub, id+"c", 1)
		n := 0
		for _, o := range sub.Obs {
			if strings.Contains(o.Key, "surgeon.") || strings.Contains(o.Key, "command.") {
				n++
				c.add(strings.Replace(o.Key, id+"c", id, 1), o.Fn, 0, o.Fact, o.OK, true, o.Detail)
			}
		}
		if n < 2 {
			c.check(id+":checksum-sites", nil, 0, "the two surgery functions that rewrite a meta were found", false, fmt.Sprintf("only %d found", n))
		}
		cf := c.fn("surgeon.ClearFreelist")
		calls := plainCallsIn(cf, "surgeon.clearFreelistInMetaPage")
		ids := map[int64]bool{}
		bad := ""
		for _, call := range calls {
			if v, ok := constInt(call.Call.Args[1]); ok {
				ids[v] = true
			}
			if m := errorHandled(call); m != "" {
				bad = m
			}
		}
		c.check(id+":surgeon.ClearFreelist:both-metas", cf, cf.Pos(), "ClearFreelist rewrites meta page 0 AND meta page 1, returning either error", len(calls) == 2 && ids[0] && ids[1] && bad == "", fmt.Sprintf("%d calls, ids %v, %s", len(calls), ids, bad))
		// clearFreelistInMetaPage sets PgidNoFreelist
		cm := c.fn("surgeon.clearFreelistInMetaPage")
		ok := false
		for _, call := range plainCallsIn(cm, "common.(*Meta).SetFreelist") {
			if v, isC := constUint(call.Call.Args[1]); isC && v == ^uint64(0) {
				ok = true
			}
		}
		c.check(id+":surgeon.clearFreelistInMetaPage:no-freelist", cm, cm.Pos(), "the freelist pointer is set to PgidNoFreelist", ok, "a different value is stored")
	})
}

func c20R4(c *Ctx, id string) {
	c.rule(id, "revert-copies-the-other-meta", 3, func() {
		rv := c.fn("surgeon.RevertMetaPage")
		bad := ""
		for _, active := range []int64{0, 1} {
			var got []V
			ev := &Evaluator{
				CallN: func(call *ssa.Call, args []V) ([]V, bool) {
					if calleeOf(call).Name() == "guts_cli.GetRootPage" {
						return []V{uV(3), uV(uint64(active)), nilV}, true
					}
					return nil, false
				},
				Call: func(call *ssa.Call, args []V) (V, bool) {
					if calleeOf(call).Name() == "surgeon.CopyPage" {
						got = args
						return nilV, true
					}
					return unkV, false
				},
			}
			o := ev.Exec(rv, nil)
			if o.Kind != "return" || len(got) != 3 {
				bad = fmt.Sprintf("active=%d: %s", active, o)
				continue
			}
			src, _ := got[1].Int()
			dst, _ := got[2].Int()
			if src != 1-active || dst != active {
				bad = fmt.Sprintf("active meta %d: CopyPage(%d -> %d), want (%d -> %d)", active, src, dst, 1-active, active)
			}
		}
		c.check(id+":surgeon.RevertMetaPage:table", rv, rv.Pos(), "the OTHER (older) meta page is copied over the active one: active 0 => CopyPage(1->0), active 1 => CopyPage(0->1)", bad == "", bad)
		// an error of GetRootPage aborts
		okErr := true
		for _, call := range plainCallsIn(rv, "guts_cli.GetRootPage") {
			if errorHandled(call) != "" {
				okErr = false
			}
		}
		c.check(id+":surgeon.RevertMetaPage:error", rv, rv.Pos(), "a failure to determine the active meta aborts the command", okErr, "error dropped")
		// which meta is active: the one with the larger txid
		ga := c.fn("guts_cli.GetActiveMetaPage")
		bad = ""
		for _, newer1 := range []bool{true, false} {
			k := 0
			ev := &Evaluator{
				CallN: func(call *ssa.Call, args []V) ([]V, bool) {
					if calleeOf(call).Name() == "guts_cli.ReadPage" {
						pid, _ := args[1].Int()
						return []V{symV(fmt.Sprintf("p%d", pid)), symV(fmt.Sprintf("buf%d", pid)), nilV}, true
					}
					return nil, false
				},
				Call: func(call *ssa.Call, args []V) (V, bool) {
					switch calleeOf(call).Name() {
					case "common.LoadPageMeta":
						if len(args) == 1 && args[0].K == vSym {
							return symV("m" + strings.TrimPrefix(args[0].S, "buf")), true
						}
					case "common.(*Meta).Txid":
						k++
						if len(args) == 1 && args[0].K == vSym {
							is1 := args[0].S == "m1"
							if is1 == newer1 {
								return uV(9), true
							}
							return uV(8), true
						}
					}
					return unkV, false
				},
			}
			o := ev.Exec(ga, nil)
			want, wantID := "m0", int64(0)
			if newer1 {
				want, wantID = "m1", 1
			}
			if o.Kind != "return" || len(o.Rets) != 3 || o.Rets[0].K != vSym || o.Rets[0].S != want {
				bad = fmt.Sprintf("txid1>txid0=%v: %s, want %s", newer1, o, want)
				continue
			}
			if gid, _ := o.Rets[1].Int(); gid != wantID {
				bad = fmt.Sprintf("txid1>txid0=%v: id %d, want %d", newer1, gid, wantID)
			}
		}
		c.check(id+":guts_cli.GetActiveMetaPage:table", ga, ga.Pos(), "the active meta is the one with the larger txid, reported with its own page id", bad == "", bad)
		// CopyPage: set the target id, then write the buffer that was read
		cp := c.fn("surgeon.CopyPage")
		sets := plainCallsIn(cp, "common.(*Page).SetId")
		wr := plainCallsIn(cp, "guts_cli.WritePage")
		rd := plainCallsIn(cp, "guts_cli.ReadPage")
		ok := len(sets) == 1 && len(wr) == 1 && len(rd) == 1
		if ok {
			ok = dominates(sets[0], wr[0]) && sets[0].Call.Args[1] == ssa.Value(cp.Params[2])
			// the buffer written is the one read; the page whose id is set is the one read
			bufOK, pgOK := false, false
			for _, l := range provenance(wr[0].Call.Args[1], provOpts{}) {
				if l.V == ssa.Value(rd[0]) {
					bufOK = true
				}
			}
			for _, l := range provenance(sets[0].Call.Args[0], provOpts{}) {
				if l.V == ssa.Value(rd[0]) {
					pgOK = true
				}
			}
			ok = ok && bufOK && pgOK && rd[0].Call.Args[1] != nil
			// the page read is the SOURCE page
			srcOK := false
			for _, l := range provenance(rd[0].Call.Args[1], provOpts{}) {
				if l.V == ssa.Value(cp.Params[1]) {
					srcOK = true
				}
			}
			ok = ok && srcOK
		}
		c.check(id+":surgeon.CopyPage:retarget-then-write", cp, cp.Pos(), "CopyPage reads the source page, sets its id to the target, then writes that same buffer", ok, "order / buffer / id differ")
	})
}
