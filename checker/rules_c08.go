package main

import (
	"fmt"
	"go/token"
	"strings"

	"golang.org/x/tools/go/ssa"
)

func init() {
	register(&propDef{
		ID: "C08",
		Explanation: "Decided: every error exit of the commit path performs the PHYSICAL rollback (freelist.Rollback, reload of the free list from the committed state, close — which also releases the writer lock); " +
			"db.allocate has no error exit after it moved the high-water mark or took pages from the freelist and raises the size-limit error before remapping; no I/O-layer error is dropped; " +
			"and the rollback — which declares the transaction absent — is never taken once the meta write has been issued (this last rule has one KNOWN finding on the current tree: the fdatasync error after the meta writeAt). " +
			"NOT decided: that the reloaded free list equals the committed one, reader snapshots across the failure, behaviour after reopen (value-level / dynamic).",
		Run: func(c *Ctx) {
			ruleReloadGoesThroughRead(c, "C08.R10") // "leaves the database usable": the free list after a failed commit is the committed one, read the way Open reads it
			c09R5(c, "C08.R9") // the reload after a failed commit re-initialises a POPULATED free list: Init must forget every span (seed C08d)
			c08R1(c, "C08.R1")
			c08R2(c, "C08.R2")
			c08R3(c, "C08.R3")
			c08R4(c, "C08.R4")
			ruleIOErrorDiscipline(c, "C08.R5")
			ruleTestedErrorsPropagate(c, "C08.R8", []string{rootPkg, freelistPath}, 60, nil) // a failing step must surface as an error: no tested error in the library leads to a success return
			c03R1(c, "C08.R6") // "later transactions — including the next writer — proceed without blocking": the writer lock is released on every exit
			ruleFreeSetEntry(c, "C08.R7") // "read transactions that were open during the failure keep their snapshot"
		},
	})
}

// errorish returns of fn: classified error or pass-through of a callee's error.
func errorReturns(fn *ssa.Function) []*ssa.Return {
	var out []*ssa.Return
	for _, r := range returnsOf(fn) {
		if cl := classifyReturn(r); cl == retError || cl == retPass {
			out = append(out, r)
		}
	}
	return out
}

// rollsBackOnError: every error return of fn passes through a call to tx.rollback().
func rollsBackBeforeErrorReturns(fn *ssa.Function) (bool, string) {
	r := reach(nil, []*ssa.BasicBlock{fn.Blocks[0]}, func(in ssa.Instruction) bool { return isCallTo(in, "bbolt.(*Tx).rollback") }, nil)
	for _, ret := range errorReturns(fn) {
		if r[ret] {
			return false, fmt.Sprintf("error return in %s reachable without tx.rollback()", shortFn(fn))
		}
	}
	return len(errorReturns(fn)) > 0, "no error return"
}

func c08R1(c *Ctx, id string) {
	c.rule(id, "rollback-on-every-error-exit", 5, func() {
		commit := c.fn("bbolt.(*Tx).Commit")
		cf := c.fn("bbolt.(*Tx).commitFreelist")
		okSummary, why := rollsBackBeforeErrorReturns(cf)
		c.check(id+":(*Tx).commitFreelist:summary", cf, cf.Pos(), "callee summary: commitFreelist calls tx.rollback() before every error return", okSummary, why)

		rebal := c.theCall(id, commit, "bbolt.(*Bucket).rebalance")
		if rebal == nil {
			return
		}
		// edges considered handled: the error edge of a callee with the summary
		handled := map[*ssa.BasicBlock]bool{}
		if okSummary {
			for _, call := range plainCallsIn(commit, "bbolt.(*Tx).commitFreelist") {
				for _, t := range errTests(call) {
					handled[t.NonNil] = true
				}
			}
		}
		cut := func(e edge) bool { return handled[e.from.Succs[e.succ]] && len(e.from.Succs[e.succ].Preds) == 1 }
		stop := func(in ssa.Instruction) bool { return isCallTo(in, "bbolt.(*Tx).rollback") }
		after := reach([]ssa.Instruction{rebal}, nil, nil, nil)
		unrolled := reach([]ssa.Instruction{rebal}, nil, stop, cut)
		n := 0
		for _, ret := range errorReturns(commit) {
			if !after[ret] {
				continue // guard returns (closed / read-only): nothing to roll back
			}
			n++
			role := errorReturnRole(ret)
			c.check(fmt.Sprintf("%s:(*Tx).Commit:error-exit[%s]", id, role), commit, ret.Pos(), "this error exit of Commit is reached only after tx.rollback() (physical), directly or through commitFreelist", !unrolled[ret],
				"Commit can return this error with the transaction neither committed nor physically rolled back (writer lock held, free list not restored)")
		}
		// and the rollback used on these exits is the physical one
		for _, ci := range callsIn(commit, "bbolt.(*Tx).nonPhysicalRollback", "bbolt.(*Tx).Rollback") {
			c.check(id+":(*Tx).Commit:physical-rollback", commit, ci.Pos(), "Commit never uses the non-physical rollback", false, "a failed commit must reload the free list from the committed state")
		}
		_ = n
	})
}

// errorReturnRole names an error return by the call whose failure leads to it.
func errorReturnRole(ret *ssa.Return) string {
	fn := ret.Parent()
	best := ""
	var bestIf ssa.Instruction
	eachInstr(fn, func(in ssa.Instruction) {
		call, ok := in.(*ssa.Call)
		if !ok {
			return
		}
		for _, t := range errTests(call) {
			if blockDominatedByEdge(t.If.Block(), t.NonNil, ret.Block()) {
				if bestIf == nil || dominates(bestIf, t.If) {
					bestIf = t.If
					best = calleeOf(call).Name()
				}
			}
		}
	})
	if best == "" {
		return "unconditional"
	}
	if i := strings.LastIndex(best, "."); i >= 0 {
		best = best[i+1:]
	}
	return best
}

func c08R2(c *Ctx, id string) {
	c.rule(id, "physical-rollback-shape", 4, func() {
		rb := c.fn("bbolt.(*Tx).rollback")
		closeC := c.theCall(id, rb, "bbolt.(*Tx).close")
		if closeC == nil {
			return
		}
		flrb := callsIn(rb, "freelist.Interface.Rollback")
		reload := callsIn(rb, "freelist.Interface.Reload")
		nsreload := callsIn(rb, "freelist.Interface.NoSyncReload")
		// (1) every return except the closed-tx guard passes through close
		r := reach(nil, []*ssa.BasicBlock{rb.Blocks[0]}, func(in ssa.Instruction) bool { return in == closeC }, nil)
		bad := ""
		for _, ret := range returnsOf(rb) {
			if r[ret] && !dominatedByNilFieldTest(ret, "db") {
				bad = c.P.Position(ret.Pos())
			}
		}
		c.check(id+":(*Tx).rollback:close-on-every-path", rb, closeC.Pos(), "every return of rollback (except the already-closed guard) passes through tx.close()", bad == "", "return at "+bad+" skips close")
		// (2) writable branch: freelist.Rollback before close
		ok2 := len(flrb) == 1 && dominatesOnBranch(rb, "writable", flrb, closeC)
		c.check(id+":(*Tx).rollback:freelist-rollback", rb, rb.Pos(), "on the writable branch freelist.Rollback(txid) precedes close on every path", ok2, "close reachable on the writable branch without freelist.Rollback")
		// (3) reload from the committed state, source chosen by hasSyncedFreelist
		ok3 := len(reload) == 1 && len(nsreload) == 1 && len(flrb) == 1
		detail := fmt.Sprintf("%d Reload, %d NoSyncReload", len(reload), len(nsreload))
		if ok3 {
			rl, ns := reload[0].(ssa.Instruction), nsreload[0].(ssa.Instruction)
			ok3 = dominates(flrb[0].(ssa.Instruction), rl) && dominates(flrb[0].(ssa.Instruction), ns)
			if !ok3 {
				detail = "reload must follow freelist.Rollback"
			}
			// the selecting branch
			sel := false
			for b := rl.Block(); b != nil && !sel; b = b.Idom() {
				iff, isIf := b.Instrs[len(b.Instrs)-1].(*ssa.If)
				if !isIf {
					continue
				}
				cond := iff.Cond
				neg := false
				if u, ok := cond.(*ssa.UnOp); ok && u.Op == token.NOT {
					neg = true
					cond = u.X
				}
				isTest, inv := syncedFreelistTest(cond)
				if !isTest {
					continue
				}
				if inv {
					neg = !neg
				}
				synced, unsynced := b.Succs[0], b.Succs[1]
				if neg {
					synced, unsynced = unsynced, synced
				}
				sel = blockDominatedByEdge(b, synced, rl.Block()) && blockDominatedByEdge(b, unsynced, ns.Block())
			}
			if ok3 && !sel {
				ok3 = false
				detail = "Reload must be on the hasSyncedFreelist()==true arm and NoSyncReload on the other"
			}
			// both arms reach close; when db.data != nil one of them is must-pass
			if ok3 {
				dataF := c.dbField("data")
				found := false
				for b := rl.Block(); b != nil; b = b.Idom() {
					iff, isIf := b.Instrs[len(b.Instrs)-1].(*ssa.If)
					if !isIf {
						continue
					}
					bo, isBin := iff.Cond.(*ssa.BinOp)
					if !isBin || !pathOf(bo.X).Has(dataF) {
						continue
					}
					found = true
					nonNil := b.Succs[0]
					if bo.Op == token.EQL {
						nonNil = b.Succs[1]
					}
					rr := reach(nil, []*ssa.BasicBlock{nonNil}, func(in ssa.Instruction) bool { return in == rl || in == ns }, nil)
					if rr[closeC] {
						ok3 = false
						detail = "with a valid mapping, close is reachable without reloading the free list"
					}
				}
				if !found {
					ok3 = false
					detail = "the reload is not guarded by db.data != nil"
				}
			}
			// sources: Reload(page(meta().Freelist())), NoSyncReload(freepages())
			if ok3 {
				a := provenance(reload[0].Common().Args[0], provOpts{ThroughCall: throughAll})
				b := provenance(nsreload[0].Common().Args[0], provOpts{ThroughCall: throughAll})
				if !(hasLeaf(a, "call", "bbolt.(*DB).page") && hasLeaf(a, "call", "bbolt.(*DB).meta") && hasLeaf(a, "call", "common.(*Meta).Freelist")) {
					ok3 = false
					detail = "Reload must read the committed freelist page db.page(db.meta().Freelist())"
				}
				if !hasLeaf(b, "call", "bbolt.(*DB).freepages") {
					ok3 = false
					detail = "NoSyncReload must scan the committed state (db.freepages())"
				}
			}
		}
		c.check(id+":(*Tx).rollback:reload", rb, rb.Pos(), "with a valid mapping the free list is reloaded between freelist.Rollback and close: Reload(committed freelist page) if synced, NoSyncReload(freepages()) otherwise", ok3, detail)
		// (4) the txid handed to freelist.Rollback is the writer's (shared with C06.R4) — here: Update/Batch/Commit error paths call the physical rollback
		up := c.fn("bbolt.(*DB).Update")
		okU := false
		for _, d := range deferredCalls(up) {
			if f := closureOf(d.Call.Value); f != nil && len(callsIn(f, "bbolt.(*Tx).rollback")) > 0 {
				okU = true
			}
		}
		c.check(id+":(*DB).Update:deferred-physical-rollback", up, up.Pos(), "Update's panic path performs the physical rollback", okU, "no deferred tx.rollback() in Update")
	})
}

// dominatedByNilFieldTest: ret lies on the `== nil` side of a test of field `name`.
func dominatedByNilFieldTest(ret *ssa.Return, name string) bool {
	for b := ret.Block(); b != nil; b = b.Idom() {
		if len(b.Instrs) == 0 {
			continue
		}
		iff, ok := b.Instrs[len(b.Instrs)-1].(*ssa.If)
		if !ok {
			continue
		}
		bo, ok := iff.Cond.(*ssa.BinOp)
		if !ok || !(isNilConst(bo.Y) || isNilConst(bo.X)) {
			continue
		}
		x := bo.X
		if isNilConst(x) {
			x = bo.Y
		}
		fp := pathOf(x)
		if fp.Last() == nil || fp.Last().Name() != name {
			continue
		}
		nilSucc := b.Succs[0]
		if bo.Op == token.NEQ {
			nilSucc = b.Succs[1]
		}
		if blockDominatedByEdge(b, nilSucc, ret.Block()) {
			return true
		}
	}
	return false
}

// dominatesOnBranch: on the true edge of `if <recv>.<field>` every path to
// target passes one of the given calls.
func dominatesOnBranch(fn *ssa.Function, field string, via []ssa.CallInstruction, target ssa.Instruction) bool {
	found := false
	okAll := true
	for _, b := range fn.Blocks {
		if len(b.Instrs) == 0 {
			continue
		}
		iff, ok := b.Instrs[len(b.Instrs)-1].(*ssa.If)
		if !ok {
			continue
		}
		fp := pathOf(iff.Cond)
		if fp.Last() == nil || fp.Last().Name() != field {
			continue
		}
		if _, isLoad := iff.Cond.(*ssa.UnOp); !isLoad {
			continue
		}
		found = true
		isVia := func(in ssa.Instruction) bool {
			for _, v := range via {
				if v == in {
					return true
				}
			}
			return false
		}
		r := reach(nil, []*ssa.BasicBlock{b.Succs[0]}, isVia, nil)
		if r[target] {
			okAll = false
		}
	}
	return found && okAll
}

func c08R3(c *Ctx, id string) {
	c.rule(id, "allocate-no-error-after-effect", 3, func() { c08R3body(c, id) })
}

func c08R3body(c *Ctx, id string) {
	{
		da := c.fn("bbolt.(*DB).allocate")
		sp := plainCallsIn(da, "common.(*Meta).SetPgid")
		bad := ""
		for _, s := range sp {
			r := reach([]ssa.Instruction{s}, nil, nil, nil)
			for _, ret := range errorReturns(da) {
				if r[ret] {
					bad = c.P.Position(ret.Pos())
				}
			}
		}
		c.check(id+":(*DB).allocate:no-error-after-SetPgid", da, da.Pos(), "no error return is reachable after the high-water mark was moved", bad == "" && len(sp) > 0, "error return at "+bad+" leaves the mark advanced")
		// non-zero freelist.Allocate → only success
		var idTest *ssa.If
		eachInstr(da, func(in ssa.Instruction) {
			iff, ok := in.(*ssa.If)
			if !ok {
				return
			}
			bo, ok := iff.Cond.(*ssa.BinOp)
			if !ok || bo.Op != token.NEQ {
				return
			}
			if call, ok := bo.X.(*ssa.Call); ok && calleeOf(call).Name() == "common.(*Page).Id" {
				if v, isC := constInt(bo.Y); isC && v == 0 && idTest == nil {
					idTest = iff
				}
			}
		})
		ok2 := idTest != nil
		detail := "no `p.Id() != 0` test after freelist.Allocate"
		if ok2 {
			r := reach(nil, []*ssa.BasicBlock{idTest.Block().Succs[0]}, nil, nil)
			for _, ret := range errorReturns(da) {
				if r[ret] {
					ok2 = false
					detail = "an error return follows a successful allocation from the free list"
				}
			}
			sawSuccess := false
			for _, ret := range successReturns(da) {
				if blockDominatedByEdge(idTest.Block(), idTest.Block().Succs[0], ret.Block()) {
					sawSuccess = true
				}
			}
			if !sawSuccess {
				ok2 = false
				detail = "a non-zero freelist.Allocate does not return immediately"
			}
		}
		c.check(id+":(*DB).allocate:freelist-hit-returns", da, da.Pos(), "a non-zero freelist.Allocate result is returned at once (no error exit after pages were taken from the free list)", ok2, detail)
		// ErrMaxSizeReached precedes db.mmap
		mm := plainCallsIn(da, "bbolt.(*DB).mmap")
		var maxRet *ssa.Return
		for _, ret := range returnsOf(da) {
			idx := errResultIndex(da.Signature)
			if ld, ok := returnedValue(ret, idx).(*ssa.UnOp); ok {
				if g, ok := ld.X.(*ssa.Global); ok && g.Name() == "ErrMaxSizeReached" {
					maxRet = ret
				}
			}
		}
		ok3 := maxRet != nil && len(mm) == 1
		detail = "no direct `return ErrMaxSizeReached` / db.mmap call"
		if ok3 {
			if reach([]ssa.Instruction{mm[0]}, nil, nil, nil)[maxRet] {
				ok3 = false
				detail = "the size-limit error is raised after the remap"
			}
			for _, s := range sp {
				if reach([]ssa.Instruction{s}, nil, nil, nil)[maxRet] {
					ok3 = false
					detail = "the size-limit error is raised after SetPgid"
				}
			}
			// the check is must-pass before mmap when MaxSize > 0
			maxF := c.dbField("MaxSize")
			guard := false
			for b := maxRet.Block(); b != nil; b = b.Idom() {
				if iff, isIf := b.Instrs[len(b.Instrs)-1].(*ssa.If); isIf && fieldsReadIn(iff.Cond)[maxF] {
					guard = true
				}
			}
			if !guard {
				ok3 = false
				detail = "the size-limit return is not controlled by a comparison with db.MaxSize"
			}
		}
		c.check(id+":(*DB).allocate:maxsize-before-mmap", da, da.Pos(), "ErrMaxSizeReached is returned before db.mmap and before SetPgid, under a comparison with db.MaxSize", ok3, detail)
	}
}

func c08R4(c *Ctx, id string) {
	c.rule(id, "no-rollback-after-meta-issued", 2, func() {
		wm := c.fn("bbolt.(*Tx).writeMeta")
		commit := c.fn("bbolt.(*Tx).Commit")
		wf := c.dbField("ops.writeAt")
		ws := fieldCallsIn(wm, wf)
		if len(ws) != 1 {
			c.check(id+":(*Tx).writeMeta:writeAt", wm, wm.Pos(), "one meta writeAt", false, fmt.Sprintf("%d writeAt calls", len(ws)))
			return
		}
		w := ws[0].(*ssa.Call)
		var issued []*ssa.BasicBlock
		for _, t := range errTests(w) {
			issued = append(issued, t.Nil)
		}
		post := reach(nil, issued, nil, nil)
		// error returns of writeMeta: before or after the meta write was issued
		wmCall := c.theCall(id, commit, "bbolt.(*Tx).writeMeta")
		if wmCall == nil {
			return
		}
		rollbackOnErr := false
		for _, t := range errTests(wmCall) {
			r := reach(nil, []*ssa.BasicBlock{t.NonNil}, nil, nil)
			for in := range r {
				if isCallTo(in, "bbolt.(*Tx).rollback", "bbolt.(*Tx).nonPhysicalRollback") {
					rollbackOnErr = true
				}
			}
		}
		for _, ret := range errorReturns(wm) {
			role := errorReturnRole(ret)
			if !post[ret] {
				c.check(fmt.Sprintf("%s:(*Tx).writeMeta[%s-error]:pre-issue", id, role), wm, ret.Pos(), "this error return of writeMeta precedes the meta writeAt's success: rolling back is correct", true, "")
				continue
			}
			c.check(fmt.Sprintf("%s:(*Tx).writeMeta[%s-error]->(*Tx).Commit[rollback]", id, role), commit, ret.Pos(),
				"an error returned by writeMeta AFTER the meta page write was issued does not lead Commit to tx.rollback() (the new meta may already be visible through the shared mapping)", !rollbackOnErr,
				"writeMeta returns this error after its writeAt succeeded; Commit then calls tx.rollback(): db.meta() already sees the new meta, freelist.Rollback discards pending[txid] and Reload of the NEW freelist page turns the pages this transaction freed into free pages — the next writer may overwrite pages an open reader or the previous meta still references")
		}
	})
}


// syncedFreelistTest: cond is the predicate "the file has a persisted free list" — a call of hasSyncedFreelist() or the
// comparison it stands for, `<meta>.Freelist() != PgidNoFreelist` (inverted reports the `==` form).
func syncedFreelistTest(cond ssa.Value) (isTest bool, inverted bool) {
	switch x := cond.(type) {
	case *ssa.Call:
		return calleeOf(x).Name() == "bbolt.(*DB).hasSyncedFreelist", false
	case *ssa.BinOp:
		if x.Op != token.NEQ && x.Op != token.EQL {
			return false, false
		}
		a, b := x.X, x.Y
		if _, isC := constUint(a); isC {
			a, b = b, a
		}
		v, isC := constUint(b)
		call, isCall := a.(*ssa.Call)
		if isC && v == ^uint64(0) && isCall && calleeOf(call).Name() == "common.(*Meta).Freelist" {
			return true, x.Op == token.EQL
		}
	}
	return false, false
}
