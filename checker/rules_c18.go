package main

import (
	"fmt"
	"go/token"
	"go/types"
	"strings"

	"golang.org/x/tools/go/ssa"
)

func init() {
	register(&propDef{
		ID: "C18",
		Explanation: "Decided: every call that can lengthen the data file (file.Truncate in grow; on windows in the platform mmap) receives a size that is bounded by db.MaxSize on that very path — compared with MaxSize and rejected, or clamped to it — whenever a limit is configured; " +
			"the size-limit error is raised in allocate before the remap and before the high-water mark moves, and is propagated unchanged up to Commit's rollback; Options.MaxSize is the only source of DB.MaxSize. " +
			"Writes cannot extend the file past the truncated size because Commit grows the file to the high-water mark before writing (C01.R1). " +
			"NOT decided: the arithmetic of mmapSize/growSize for arbitrary limits beyond 'the value that is compared is the value that is used'.",
		Run: func(c *Ctx) {
			ruleTruncateBound(c, "C18.R1")
			c.rule("C18.R2", "limit-error-before-effects", 3, func() { c18R2(c, "C18.R2") })
			c18R3(c, "C18.R3")
			ruleAllocateLimitTable(c, "C18.R5")
			c03R1(c, "C18.R6") // "the database can still be read, written within the limit, closed": no exit keeps the writer lock
			c08R1(c, "C18.R4") // a size-limit failure of Commit performs the PHYSICAL rollback: pages already taken from the free list are given back
		},
		Platform: func(c *Ctx) {
			ruleTruncateBound(c, "C18.R1")
		},
		Platforms: []platform{{"windows", "amd64"}, {"darwin", "arm64"}, {"linux", "386"}},
	})
}

// boundedByMax: is value v, as it arrives over an edge from block `from`,
// known to be <= db.MaxSize, or is no limit configured on that path?
func boundedByMax(c *Ctx, v ssa.Value, from *ssa.BasicBlock, maxF *types.Var, depth int) (bool, string) {
	return boundedByMaxEdge(c, v, from, nil, maxF, depth)
}

// boundedByMaxEdge: as boundedByMax, for a value flowing over the CFG edge from -> to (to may be nil).
func boundedByMaxEdge(c *Ctx, v ssa.Value, from, to *ssa.BasicBlock, maxF *types.Var, depth int) (bool, string) {
	v = stripConv(v)
	if depth > 6 {
		return false, "too deep"
	}
	// the value IS the limit (clamp)
	if ld, ok := v.(*ssa.UnOp); ok && ld.Op == token.MUL && pathOf(ld).Last() == maxF {
		return true, "clamped to MaxSize"
	}
	// a phi: every incoming edge must be bounded
	if phi, ok := v.(*ssa.Phi); ok {
		for i, e := range phi.Edges {
			pred := phi.Block().Preds[i]
			// the comparison may also be on the phi itself further down: try the edge value at its predecessor
			if ok2, why := boundedByMaxEdge(c, e, pred, phi.Block(), maxF, depth+1); !ok2 {
				return false, fmt.Sprintf("incoming value from block %d: %s", pred.Index, why)
			}
		}
		return true, "all incoming values bounded"
	}
	// a dominating comparison of this very value with MaxSize, on whose passing side `from` lies,
	// or a dominating `MaxSize > 0` test on whose false side `from` lies (no limit configured)
	for b := from; b != nil; b = b.Idom() {
		if len(b.Instrs) == 0 {
			continue
		}
		iff, ok := b.Instrs[len(b.Instrs)-1].(*ssa.If)
		if !ok {
			continue
		}
		bo, ok := iff.Cond.(*ssa.BinOp)
		if !ok {
			continue
		}
		x, y := stripConv(bo.X), stripConv(bo.Y)
		isMax := func(z ssa.Value) bool {
			ld, ok := z.(*ssa.UnOp)
			return ok && ld.Op == token.MUL && pathOf(ld).Last() == maxF
		}
		inTrue := from == b.Succs[0] && len(b.Succs[0].Preds) == 1 || (len(b.Succs[0].Preds) == 1 && b.Succs[0].Dominates(from))
		inFalse := from == b.Succs[1] && len(b.Succs[1].Preds) == 1 || (len(b.Succs[1].Preds) == 1 && b.Succs[1].Dominates(from))
		if b == from && to != nil && b.Succs[0] != b.Succs[1] {
			// the branch that ends `from` itself decides the edge from -> to
			inTrue, inFalse = b.Succs[0] == to, b.Succs[1] == to
		}
		switch {
		case x == v && isMax(y): // v OP MaxSize
			if (bo.Op == token.GTR || bo.Op == token.GEQ) && inFalse {
				return true, "on the false side of `size > MaxSize`"
			}
			if (bo.Op == token.LEQ || bo.Op == token.LSS) && inTrue {
				return true, "on the true side of `size <= MaxSize`"
			}
		case y == v && isMax(x): // MaxSize OP v
			if (bo.Op == token.LSS || bo.Op == token.LEQ) && inFalse {
				return true, "on the false side of `MaxSize < size`"
			}
			if (bo.Op == token.GEQ || bo.Op == token.GTR) && inTrue {
				return true, "on the true side of `MaxSize >= size`"
			}
		case isMax(x): // MaxSize > 0
			if k, isC := constInt(y); isC && k == 0 {
				if bo.Op == token.GTR && inFalse {
					return true, "no limit configured (MaxSize <= 0)"
				}
				if (bo.Op == token.LEQ || bo.Op == token.EQL) && inTrue {
					return true, "no limit configured (MaxSize <= 0)"
				}
			}
		}
	}
	return false, "no dominating comparison of this value with db.MaxSize (and not clamped)"
}

func ruleTruncateBound(c *Ctx, id string) {
	c.rule(id, "truncate-bounded-by-MaxSize", 1, func() {
		maxF := c.dbField("MaxSize")
		n := 0
		for _, fn := range c.P.FnsIn(rootPkg) {
			for _, call := range plainCallsIn(fn, "os.(*File).Truncate") {
				n++
				name := shortFn(fn)
				arg := stripConv(call.Call.Args[1])
				if name == "bbolt.mmap" {
					// windows: the platform mmap truncates to the size its only caller db.mmap computed;
					// the bound is established there, on the value passed down
					p, isP := arg.(*ssa.Parameter)
					dm := c.fn("bbolt.(*DB).mmap")
					ok := false
					detail := "Truncate's size is not the sz parameter"
					if isP {
						for _, pc := range plainCallsIn(dm, "bbolt.mmap") {
							idx := -1
							for i, fp := range fn.Params {
								if fp == p {
									idx = i
								}
							}
							sz := stripConv(pc.Call.Args[idx])
							// a comparison of that value with MaxSize guards a return of ErrMaxSizeReached that dominates... (reject path exists before the call)
							detail = "db.mmap does not compare the size it maps with db.MaxSize before mapping"
							eachInstr(dm, func(in ssa.Instruction) {
								bo, isBin := in.(*ssa.BinOp)
								if !isBin || bo.Op != token.GTR {
									return
								}
								if stripConv(bo.X) != sz {
									return
								}
								if ld, isLd := stripConv(bo.Y).(*ssa.UnOp); !isLd || pathOf(ld).Last() != maxF {
									return
								}
								if !reach([]ssa.Instruction{bo}, nil, nil, nil)[pc] || reach([]ssa.Instruction{pc}, nil, nil, nil)[bo] {
									return // the comparison must come before the mapping call
								}
								// some ErrMaxSizeReached return is control-dependent on it and precedes the call
								for _, ret := range returnsOf(dm) {
									if g, isG := returnedGlobal(ret); isG && g == "ErrMaxSizeReached" && dominates(bo, ret) && !reach([]ssa.Instruction{pc}, nil, nil, nil)[ret] {
										ok = true
									}
								}
							})
						}
					}
					c.check(id+":"+name+":Truncate-bounded", fn, call.Pos(), "windows: the size the platform mmap truncates to is compared with db.MaxSize in db.mmap, which rejects a growing map beyond the limit before mapping", ok, detail)
					continue
				}
				ok, why := boundedByMax(c, arg, call.Block(), maxF, 0)
				c.check(id+":"+name+":Truncate-bounded", fn, call.Pos(), "the size passed to file.Truncate is, on every path, compared with db.MaxSize (and rejected) or clamped to it, or no limit is configured", ok,
					"the file can be grown beyond MaxSize: "+why)
			}
		}
		if n == 0 && c.P.GOOS != "windows" {
			c.check(id+":Truncate:none", nil, 0, "a Truncate site exists", false, "no Truncate call found")
		}
	})
}

// returnedGlobals: every package-level error the return can carry (looks through a result variable / phi).
func returnedGlobals(ret *ssa.Return) []string {
	idx := errResultIndex(ret.Parent().Signature)
	if idx < 0 {
		return nil
	}
	var out []string
	seen := map[ssa.Value]bool{}
	var walk func(v ssa.Value, d int)
	walk = func(v ssa.Value, d int) {
		if v == nil || seen[v] || d > 4 {
			return
		}
		seen[v] = true
		switch x := v.(type) {
		case *ssa.Phi:
			for _, e := range x.Edges {
				walk(e, d+1)
			}
		case *ssa.UnOp:
			if x.Op == token.MUL {
				if g, ok := x.X.(*ssa.Global); ok {
					out = append(out, g.Name())
				}
			}
		}
	}
	walk(returnedValue(ret, idx), 0)
	return out
}

func returnedGlobal(ret *ssa.Return) (string, bool) {
	idx := errResultIndex(ret.Parent().Signature)
	if idx < 0 {
		return "", false
	}
	if ld, ok := returnedValue(ret, idx).(*ssa.UnOp); ok && ld.Op == token.MUL {
		if g, ok := ld.X.(*ssa.Global); ok {
			return g.Name(), true
		}
	}
	return "", false
}

func c18R2(c *Ctx, id string) {
	c08R3body(c, id)
	// db.allocate: a size-limit error coming back from db.mmap is returned as is (only other mmap errors are wrapped)
	{
		da := c.fn("bbolt.(*DB).allocate")
		ok := false
		detail := "no `err == ErrMaxSizeReached` test on db.mmap's error"
		isLimitGlobal := func(v ssa.Value) bool {
			ld, isLd := v.(*ssa.UnOp)
			if !isLd {
				return false
			}
			g, isG := ld.X.(*ssa.Global)
			return isG && g.Name() == "ErrMaxSizeReached"
		}
		for _, mm := range plainCallsIn(da, "bbolt.(*DB).mmap") {
			eachInstr(da, func(in ssa.Instruction) {
				// the test "is it the size-limit error": err == E, E == err, err != E, errors.Is(err, E), possibly negated
				var cond ssa.Value
				limitEdge := 0
				switch x := in.(type) {
				case *ssa.BinOp:
					if x.Op != token.EQL && x.Op != token.NEQ {
						return
					}
					if !((x.X == ssa.Value(mm) && isLimitGlobal(x.Y)) || (x.Y == ssa.Value(mm) && isLimitGlobal(x.X))) {
						return
					}
					cond = x
					if x.Op == token.NEQ {
						limitEdge = 1
					}
				case *ssa.Call:
					if calleeOf(x).Name() != "errors.Is" || len(x.Call.Args) != 2 || x.Call.Args[0] != ssa.Value(mm) || !isLimitGlobal(x.Call.Args[1]) {
						return
					}
					cond = x
				default:
					return
				}
				// look through negations
				for changed := true; changed; {
					changed = false
					for _, r := range *cond.Referrers() {
						if u, ok := r.(*ssa.UnOp); ok && u.Op == token.NOT {
							cond = u
							limitEdge = 1 - limitEdge
							changed = true
							break
						}
					}
				}
				for _, r := range *cond.Referrers() {
					iff, isIf := r.(*ssa.If)
					if !isIf {
						continue
					}
					for _, ret := range returnsOf(da) {
						if blockDominatedByEdge(iff.Block(), iff.Block().Succs[limitEdge], ret.Block()) {
							ok = returnedValue(ret, 1) == ssa.Value(mm)
							if !ok {
								detail = "on `err == ErrMaxSizeReached` a different (wrapped) error is returned"
							}
						}
					}
				}
			})
		}
		c.check(id+":(*DB).allocate:mmap-limit-error-unwrapped", da, da.Pos(), "when db.mmap reports ErrMaxSizeReached, allocate returns that very error (callers recognise it)", ok, detail)
	}
	// propagation: the callers between allocate and Commit return the error unchanged
	for _, spec := range []struct{ fn, callee string }{
		{"bbolt.(*Tx).allocate", "bbolt.(*DB).allocate"},
		{"bbolt.(*node).spill", "bbolt.(*Tx).allocate"},
		{"bbolt.(*Tx).commitFreelist", "bbolt.(*Tx).allocate"},
		{"bbolt.(*Bucket).spill", "bbolt.(*node).spill"},
		{"bbolt.(*Tx).Commit", "bbolt.(*Bucket).spill"},
		{"bbolt.(*Tx).Commit", "bbolt.(*Tx).commitFreelist"},
	} {
		fn := c.fn(spec.fn)
		for i, call := range plainCallsIn(fn, spec.callee) {
			bad := errorHandled(call)
			if bad == "" {
				// unchanged: the error returned on the non-nil edge is the callee's value itself (not wrapped: callers test with errors.Is / ==)
				ev := errValueOf(call)
				for _, t := range errTests(call) {
					for in := range reach(nil, []*ssa.BasicBlock{t.NonNil}, nil, nil) {
						ret, isR := in.(*ssa.Return)
						if !isR || !blockDominatedByEdge(t.If.Block(), t.NonNil, ret.Block()) {
							continue
						}
						rv := returnedValue(ret, errResultIndex(fn.Signature))
						same := false
						for _, l := range provenance(rv, provOpts{}) {
							if l.V == ev || l.V == ssa.Value(call) {
								same = true
							}
							if l.Kind == "call" && (l.Name == "fmt.Errorf" || l.Name == "errors.New") {
								same = false
								bad = "the error is replaced by " + l.Name + " (ErrMaxSizeReached is lost)"
							}
						}
						if !same && bad == "" {
							bad = "a different error is returned"
						}
					}
				}
			}
			c.check(fmt.Sprintf("%s:%s:propagates-%s#%d", id, spec.fn, spec.callee, i+1), fn, call.Pos(), "the size-limit error travels unchanged from "+spec.callee+" through "+spec.fn, bad == "", bad)
		}
	}
}

func c18R3(c *Ctx, id string) {
	c.rule(id, "MaxSize-source", 1, func() {
		maxF := c.dbField("MaxSize")
		optMax := c.P.lookupField(rootPkg, "Options", "MaxSize")
		open := c.fn("bbolt.Open")
		mm := c.theCall(id, open, "bbolt.(*DB).mmap")
		stores := storesToField(c.P.FnsIn(rootPkg), maxF)
		ok := len(stores) == 1 && mm != nil
		detail := fmt.Sprintf("%d stores to DB.MaxSize", len(stores))
		if ok {
			st := stores[0]
			ok = shortFn(st.Fn) == "bbolt.Open" && pathOf(st.Val).Last() == optMax && dominates(st.Instr, mm)
			detail = "DB.MaxSize must be options.MaxSize, stored in Open before db.mmap"
			if strings.Contains(fmt.Sprint(st.Val), "BinOp") {
				ok = false
			}
		}
		c.check(id+":bbolt.Open:MaxSize", open, open.Pos(), "DB.MaxSize is assigned exactly once, from Options.MaxSize, in Open before the first mapping", ok, detail)
	})
}
