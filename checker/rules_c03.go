package main

import (
	"fmt"
	"go/types"
	"sort"
	"strings"

	"golang.org/x/tools/go/ssa"
)

func init() {
	register(&propDef{
		ID: "C03",
		Explanation: "Decided: the writer lock is taken once per write transaction (only in beginRWTx, held exactly on its success return) and released on every non-panicking exit of Commit / Rollback / rollback; managed transactions (Update, View) are rolled back on error and on panic and are lock-balanced; " +
			"the lock acquisition order over {rwlock, metalock, mmaplock, statlock, batchMu} is acyclic and consistent with rwlock < metalock < mmaplock < statlock; the shared fields DB.rwtx, DB.stats.*, DB.batch, DB.opened/freelist/file/path are written only under their lock / by their owner; " +
			"a transaction id is incremented exactly once, privately (C01.R7b); after the meta write Commit cannot fail and runs the commit handlers only after the locks were released. " +
			"NOT decided: race freedom in general (only the listed fields, only lock-set reasoning), serial equivalence of read-modify-write, lost wake-ups of the batch timer, panicking exits of unmanaged transactions. Round 3/4: the database's own file handle is closed only by (*DB).close (flow-sensitive through locals and deferred closures).",
		Run: func(c *Ctx) {
			ruleDataFileClosedOnlyByClose(c, "C03.R12") // a committed-looking database that cannot write any more: the writer handle is closed only by Close
			c03R1(c, "C03.R1")
			c03R2(c, "C03.R2")
			c03R3(c, "C03.R3")
			c03R4(c, "C03.R4")
			c03R5(c, "C03.R5")
			c03R6(c, "C03.R6")
			c03R8(c, "C03.R8")
			ruleOncePublication(c, "C03.R9") // "entry points may be called from any number of goroutines without data races": lazy free-list load of read-only databases
			c08R2(c, "C03.R10") // "or never": a failed commit restores the allocator from the committed state before the next writer starts
			ruleMetaSlot(c, "C03.R11") // "committed write transactions carry consecutive increasing ids": txid advances by exactly one, only when a writer starts; readers take the committed meta's id
			ruleRollbackUndoesFrees(c, "C03.R7") // "or never, if it is rolled back": an aborted writer leaves no trace in the free list
		},
	})
}

func c03R1(c *Ctx, id string) {
	c.rule(id, "writer-lock-pairing", 9, func() {
		wr := txField(c, "writable")
		la := newLockAnalysis(c, map[*types.Var]bool{}).forTx(true) // an open write transaction
		// who locks / unlocks rwlock
		lockers, unlockers := map[string]bool{}, map[string]bool{}
		for _, fn := range c.P.FnsIn(rootPkg) {
			eachInstr(fn, func(in ssa.Instruction) {
				if ci, ok := in.(ssa.CallInstruction); ok {
					if l, dir := la.lockOp(ci); l == "rwlock:W" {
						if dir > 0 {
							lockers[shortFn(fn)] = true
						} else {
							unlockers[shortFn(fn)] = true
						}
					}
				}
			})
		}
		okL := len(lockers) == 2 && lockers["bbolt.(*DB).beginRWTx"] && lockers["bbolt.(*DB).Close"]
		c.check(id+":rwlock:lock-sites", nil, 0, "rwlock is acquired only in beginRWTx and Close", okL, fmt.Sprintf("lock sites: %v", sortedKeys(lockers)))
		okU := len(unlockers) == 3 && unlockers["bbolt.(*DB).beginRWTx"] && unlockers["bbolt.(*DB).Close"] && unlockers["bbolt.(*Tx).close"]
		c.check(id+":rwlock:unlock-sites", nil, 0, "rwlock is released only in (*Tx).close, on beginRWTx's error exits and by Close's defer", okU, fmt.Sprintf("unlock sites: %v", sortedKeys(unlockers)))

		brw := c.fn("bbolt.(*DB).beginRWTx")
		sum := la.summary(brw)
		okS := sum != nil && !sum.success.bottom && sum.success.must["rwlock:W"] && len(sum.success.may) == 1 && len(sum.success.relMay) == 0
		c.check(id+":(*DB).beginRWTx:success-holds-rwlock", brw, brw.Pos(), "beginRWTx returns success holding exactly rwlock", okS, exitState(sum, "success"))
		okF := sum != nil && !sum.failure.bottom && len(sum.failure.may) == 0 && len(sum.failure.relMay) == 0
		c.check(id+":(*DB).beginRWTx:error-holds-nothing", brw, brw.Pos(), "beginRWTx's error returns hold no lock", okF, exitState(sum, "failure"))

		// every non-guard exit of the closing functions releases the writer lock
		for _, name := range []string{"bbolt.(*Tx).Commit", "bbolt.(*Tx).Rollback", "bbolt.(*Tx).rollback", "bbolt.(*Tx).nonPhysicalRollback", "bbolt.(*Tx).close"} {
			fn := c.fn(name)
			la.summary(fn)
			seen := map[string]int{}
			for _, ret := range returnsOf(fn) {
				st := la.before(ret)
				if st == nil {
					continue // unreachable for a writable transaction
				}
				if dominatedByNilFieldTest(ret, "db") {
					continue // already closed
				}
				role := errorReturnRole(ret)
				if classifyReturn(ret) == retSuccess || classifyReturn(ret) == retNone {
					role = "success"
				}
				seen[role]++
				ok := st.relMust["rwlock:W"] && len(st.may) == 0
				c.check(fmt.Sprintf("%s:%s:exit[%s#%d]-releases-rwlock", id, name, role, seen[role]), fn, ret.Pos(), "for a write transaction this exit is reached only after rwlock was released (through (*Tx).close) and holds no other lock", ok,
					fmt.Sprintf("state at return: released(must)=%v released(may)=%v held(may)=%v — the writer lock is leaked: every later Begin(true)/Update/Close blocks forever", st.relMust, st.relMay, st.may))
			}
		}
		// managed entry points are balanced
		top := newLockAnalysis(c, map[*types.Var]bool{})
		up := c.fn("bbolt.(*DB).Update")
		su := top.summary(up)
		okUp := su != nil && len(su.all.may) == 0 && len(su.all.relMust) == 0 && !su.all.bottom
		c.check(id+":(*DB).Update:balanced", up, up.Pos(), "Update returns holding no lock on every non-panicking path", okUp, exitState(su, "all"))
		_ = wr
		vw := c.fn("bbolt.(*DB).View")
		sv := top.summary(vw)
		okV := sv != nil && len(sv.all.may) == 0 && len(sv.all.relMust) == 0 && !sv.all.bottom
		c.check(id+":(*DB).View:balanced", vw, vw.Pos(), "View returns holding no lock on every non-panicking path", okV, exitState(sv, "all"))
	})
}

func c03R2(c *Ctx, id string) {
	c.rule(id, "managed-tx-discipline", 8, func() {
		managedF := txField(c, "managed")
		for _, spec := range []struct{ name, final string }{{"bbolt.(*DB).Update", "bbolt.(*Tx).Commit"}, {"bbolt.(*DB).View", "bbolt.(*Tx).Rollback"}} {
			fn := c.fn(spec.name)
			// the user function call
			var user *ssa.Call
			eachInstr(fn, func(in ssa.Instruction) {
				if call, ok := in.(*ssa.Call); ok {
					if p, isP := call.Call.Value.(*ssa.Parameter); isP && isFuncTyped(p) {
						user = call
					}
				}
			})
			if user == nil {
				c.check(id+":"+spec.name+":fn-call", fn, fn.Pos(), "the user function is invoked", false, "no call of parameter fn")
				continue
			}
			// (1) deferred rollback guarded by t.db != nil, registered before fn(t)
			okD := false
			for _, d := range deferredCalls(fn) {
				cl := closureOf(d.Call.Value)
				if cl == nil || !dominates(d, user) {
					continue
				}
				for _, rb := range plainCallsIn(cl, "bbolt.(*Tx).rollback") {
					guarded := false
					for b := rb.Block(); b != nil; b = b.Idom() {
						if iff, isIf := b.Instrs[len(b.Instrs)-1].(*ssa.If); isIf {
							if bo, isBin := iff.Cond.(*ssa.BinOp); isBin && strings.HasSuffix(pathOf(bo.X).Names(), "db") && isNilConst(bo.Y) {
								guarded = true
							}
						}
					}
					if guarded {
						okD = true
					}
				}
			}
			c.check(id+":"+spec.name+":deferred-rollback", fn, user.Pos(), "a deferred `if t.db != nil { t.rollback() }` is registered before fn(t) runs (a panic in fn rolls the transaction back and releases its lock)", okD, "no such defer dominates the call of fn")
			// (2) managed flag set around fn
			var setT, setF ssa.Instruction
			for _, st := range storesToField([]*ssa.Function{fn}, managedF) {
				if b, isC := constBool(st.Val); isC {
					if b {
						setT = st.Instr
					} else {
						setF = st.Instr
					}
				}
			}
			okM := setT != nil && setF != nil && dominates(setT, user) && dominates(user, setF)
			c.check(id+":"+spec.name+":managed-flag", fn, user.Pos(), "t.managed is true exactly while fn runs (fn cannot commit / roll back the managed transaction)", okM, "managed flag not set around fn")
			// (3) error path rolls back and returns the error
			okE := false
			detail := "fn's error is not tested"
			for _, t := range errTests(user) {
				r := reach(nil, []*ssa.BasicBlock{t.NonNil}, nil, nil)
				sawRB := false
				for in := range r {
					if isCallTo(in, "bbolt.(*Tx).Rollback", "bbolt.(*Tx).rollback") {
						sawRB = true
					}
				}
				noCommit := true
				for in := range r {
					if isCallTo(in, "bbolt.(*Tx).Commit") {
						noCommit = false
					}
				}
				okE = sawRB && noCommit
				detail = fmt.Sprintf("rollback on error edge: %v, commit reachable on error edge: %v", sawRB, !noCommit)
				if setF != nil && !dominates(setF, firstCallIn(t.NonNil, "bbolt.(*Tx).Rollback")) {
					okE = false
					detail = "Rollback is called while the transaction is still marked managed"
				}
				// the error edge does not return success
				for in := range r {
					if ret, isR := in.(*ssa.Return); isR && classifyReturn(ret) == retSuccess && blockDominatedByEdge(t.If.Block(), t.NonNil, ret.Block()) {
						okE = false
						detail = "fn's error is swallowed"
					}
				}
			}
			c.check(id+":"+spec.name+":error-path", fn, user.Pos(), "if fn returns an error the transaction is rolled back (never committed) and the error returned", okE, detail)
			// (4) success path returns the final call
			okS := false
			for _, t := range errTests(user) {
				r := reach(nil, []*ssa.BasicBlock{t.Nil}, nil, nil)
				for in := range r {
					if ret, isR := in.(*ssa.Return); isR {
						if call, isCall := returnedValue(ret, 0).(*ssa.Call); isCall && calleeOf(call).Name() == spec.final {
							okS = true
						}
					}
				}
			}
			c.check(id+":"+spec.name+":success-path", fn, user.Pos(), "on success the result of "+spec.final+"() is returned", okS, "the success path does not end in "+spec.final)
		}
	})
}

func firstCallIn(b *ssa.BasicBlock, name string) ssa.Instruction {
	r := reach(nil, []*ssa.BasicBlock{b}, nil, nil)
	var best ssa.Instruction
	for in := range r {
		if isCallTo(in, name) {
			if best == nil || in.Pos() < best.Pos() {
				best = in
			}
		}
	}
	if best == nil {
		return b.Instrs[0]
	}
	return best
}

func c03R3(c *Ctx, id string) {
	c.rule(id, "rwtx-ownership", 3, func() {
		wr := txField(c, "writable")
		la := newLockAnalysis(c, map[*types.Var]bool{wr: true})
		rwtxF := c.dbField("rwtx")
		n := 0
		for _, st := range storesToField(c.P.FnsIn(rootPkg), rwtxF) {
			n++
			name := shortFn(st.Fn)
			switch name {
			case "bbolt.(*DB).beginRWTx":
				s := la.before(st.Instr)
				ok := s != nil && s.must["rwlock:W"] && s.must["metalock:W"]
				c.check(id+":"+name+":stores-rwtx", st.Fn, st.Instr.Pos(), "db.rwtx is set in beginRWTx with rwlock and metalock held", ok, fmt.Sprintf("locks: %v", s))
			case "bbolt.(*Tx).close":
				ok := isNilConst(st.Val)
				for _, ci := range callsIn(st.Fn, "sync.(*Mutex).Unlock") {
					if l, _ := la.lockOp(ci); l == "rwlock:W" {
						if !dominates(st.Instr, ci.(ssa.Instruction)) {
							ok = false
						}
					}
				}
				c.check(id+":"+name+":clears-rwtx-before-unlock", st.Fn, st.Instr.Pos(), "db.rwtx is cleared before rwlock is released (the next writer never sees a stale rwtx)", ok, "rwtx cleared after the unlock / not nil")
			default:
				c.check(id+":"+name+":stores-rwtx", st.Fn, st.Instr.Pos(), "db.rwtx is written only by beginRWTx and (*Tx).close", false, name+" writes db.rwtx")
			}
		}
		bad := ""
		k := 0
		for _, st := range storesToField(c.P.FnsIn(rootPkg), wr) {
			k++
			if shortFn(st.Fn) != "bbolt.(*DB).beginRWTx" {
				bad = shortFn(st.Fn)
			}
		}
		c.check(id+":Tx.writable:stores", nil, 0, "Tx.writable is set only in beginRWTx (after rwlock was taken)", bad == "" && k == 1, fmt.Sprintf("%d stores, offender %s", k, bad))
		_ = n
	})
}

var lockRank = map[string]int{"rwlock": 0, "metalock": 1, "mmaplock": 2, "statlock": 3}

func c03R4(c *Ctx, id string) {
	c.rule(id, "lock-order", 8, func() {
		wr := txField(c, "writable")
		type edgeInfo struct {
			site, fn string
			local    bool // the held lock was acquired in the same function (not inherited from a caller)
		}
		edges := map[string]edgeInfo{}
		sites := 0
		for _, writable := range []bool{true, false} {
			la := newLockAnalysis(c, map[*types.Var]bool{wr: writable})
			ambient := func(fn *ssa.Function) lset {
				// API entry points on a live transaction carry the transaction's lock
				if fn.Signature.Recv() == nil {
					return lset{}
				}
				rt := fn.Signature.Recv().Type().String()
				if strings.HasSuffix(rt, "bbolt.Tx") || strings.HasSuffix(rt, "bbolt.Bucket") || strings.HasSuffix(rt, "bbolt.Cursor") {
					if writable {
						return lset{"rwlock:W": true}
					}
					return lset{"mmaplock:R": true}
				}
				return lset{}
			}
			ctx := la.context(ambient)
			for _, fn := range c.P.FnsIn(rootPkg) {
				eachInstr(fn, func(in ssa.Instruction) {
					ci, ok := in.(ssa.CallInstruction)
					if !ok {
						return
					}
					if _, isDefer := in.(*ssa.Defer); isDefer {
						return
					}
					l, dir := la.lockOp(ci)
					if dir <= 0 {
						return
					}
					if la.before(in) == nil {
						return
					}
					sites++
					local := la.before(in).may
					for h := range la.heldMay(ctx, in) {
						k := h + " -> " + l
						if old, ok := edges[k]; !ok || (local[h] && !old.local) {
							edges[k] = edgeInfo{c.P.Position(in.Pos()), shortFn(fn), local[h]}
						}
					}
				})
			}
		}
		keys := make([]string, 0, len(edges))
		for k := range edges {
			keys = append(keys, k)
		}
		sort.Strings(keys)
		for _, k := range keys {
			parts := strings.Split(k, " -> ")
			hn, ln := strings.Split(parts[0], ":")[0], strings.Split(parts[1], ":")[0]
			info := edges[k]
			bad := ""
			switch {
			case hn == "batchMu" || ln == "batchMu":
				bad = "batchMu must stay isolated: nothing is acquired while it is held and it is not acquired under another lock"
			case hn == "statlock":
				bad = "statlock is a leaf lock: nothing is acquired while it is held"
			case hn == ln:
				// re-acquiring a lock the transaction may already hold. Table exception (one line of reason each):
				if k == "mmaplock:R -> mmaplock:R" && info.fn == "bbolt.(*DB).beginTx" && !info.local {
					// a read transaction calling tx.Check()/db.freepages() opens a nested read transaction: documented as
					// unsafe with concurrent writers (tx_check.go); shared re-acquisition is not an order cycle by itself.
					bad = ""
				} else {
					bad = "the same lock is acquired while possibly held"
				}
			case lockRank[hn] > lockRank[ln]:
				if parts[0] == "mmaplock:R" && ln == "metalock" && (info.fn == "bbolt.(*DB).beginTx" || info.fn == "bbolt.(*DB).removeTx") && !info.local {
					// same documented nested-read-transaction path (Tx.Check on a read transaction -> freepages -> beginTx/Rollback)
					bad = ""
				} else {
					bad = fmt.Sprintf("order inversion: %s (rank %d) held while acquiring %s (rank %d)", hn, lockRank[hn], ln, lockRank[ln])
				}
			}
			c.check(id+":order:"+k, nil, 0, fmt.Sprintf("acquisition %s (first seen in %s at %s) respects rwlock < metalock < mmaplock < statlock; batchMu and statlock are leaves", k, info.fn, info.site), bad == "", bad)
		}
		c.check(id+":sites", nil, 0, fmt.Sprintf("%d reachable acquire sites examined under both transaction kinds", sites), sites >= 12, "too few acquire sites")
	})
}

func c03R5(c *Ctx, id string) {
	c.rule(id, "guarded-by", 8, func() {
		la := newLockAnalysis(c, map[*types.Var]bool{})
		ctx := la.context(func(*ssa.Function) lset { return lset{} })
		statsF := c.dbField("stats")
		batchF := c.dbField("batch")
		fns := c.P.FnsIn(rootPkg)
		perFn := map[string]int{}
		for _, fn := range fns {
			name := shortFn(fn)
			eachInstr(fn, func(in ssa.Instruction) {
				st, ok := in.(*ssa.Store)
				if !ok {
					return
				}
				fp := pathOf(st.Addr)
				if len(fp.Fields) >= 2 && fp.Fields[0] == statsF || (len(fp.Fields) >= 2 && fp.Has(statsF) && fp.Last() != statsF) {
					perFn[name]++
					held := la.heldMust(ctx, in)
					ok := held["statlock:W"]
					exc := ""
					if name == "bbolt.(*DB).loadFreelist$1" {
						ok, exc = true, " [exception: runs inside sync.Once during Open / first Check, before concurrent use]"
					}
					c.check(fmt.Sprintf("%s:%s:stores-stats.%s#%d", id, name, fp.Last().Name(), perFn[name]), fn, in.Pos(), "DB.stats fields are written under statlock"+exc, ok, fmt.Sprintf("locks held: %v", held))
				}
				if fp.Last() == batchF {
					perFn[name]++
					held := la.heldMust(ctx, in)
					c.check(fmt.Sprintf("%s:%s:stores-batch#%d", id, name, perFn[name]), fn, in.Pos(), "DB.batch is written under batchMu", held["batchMu:W"], fmt.Sprintf("locks held: %v", held))
				}
			})
		}
		// TxStats.add on db.stats.TxStats: call under statlock
		for _, fn := range fns {
			for i, call := range plainCallsIn(fn, "bbolt.(*TxStats).add") {
				if !pathOf(call.Call.Args[0]).Has(statsF) {
					continue
				}
				held := la.heldMust(ctx, call)
				c.check(fmt.Sprintf("%s:%s:stats.TxStats.add#%d", id, shortFn(fn), i+1), fn, call.Pos(), "transaction statistics are merged into DB.stats under statlock", held["statlock:W"], fmt.Sprintf("locks held: %v", held))
			}
		}
		// lifecycle fields: owner functions only
		for _, fname := range []string{"opened", "freelist", "file", "path"} {
			f := c.dbField(fname)
			allowed := map[string]bool{"bbolt.Open": true, "bbolt.(*DB).close": true}
			if fname == "freelist" {
				allowed["bbolt.(*DB).loadFreelist$1"] = true
			}
			bad := ""
			n := 0
			for _, st := range storesToField(fns, f) {
				n++
				if !allowed[shortFn(st.Fn)] {
					bad = shortFn(st.Fn)
				}
			}
			c.check(id+":DB."+fname+":owners", nil, 0, fmt.Sprintf("DB.%s is written only by %v (Open: unpublished DB; close: under Close's three locks, C02.R4)", fname, sortedKeys(allowed)), bad == "" && n > 0, "also written by "+bad)
		}
	})
}

func c03R6(c *Ctx, id string) {
	c.rule(id, "visibility-point", 2, func() {
		commit := c.fn("bbolt.(*Tx).Commit")
		wm := c.theCall(id, commit, "bbolt.(*Tx).writeMeta")
		cl := c.theCall(id, commit, "bbolt.(*Tx).close")
		if wm == nil || cl == nil {
			return
		}
		var okSucc []*ssa.BasicBlock
		for _, t := range errTests(wm) {
			okSucc = append(okSucc, t.Nil)
		}
		r := reach(nil, okSucc, nil, nil)
		bad := ""
		for in := range r {
			if ret, isR := in.(*ssa.Return); isR {
				if cls := classifyReturn(ret); cls != retSuccess {
					bad = "an error can be returned after the meta page was written, at " + c.P.Position(ret.Pos())
				}
			}
			if isCallTo(in, "bbolt.(*Tx).rollback", "bbolt.(*Tx).nonPhysicalRollback") {
				bad = "rollback reachable after a successful meta write"
			}
		}
		noClose := reach(nil, okSucc, func(in ssa.Instruction) bool { return in == cl }, nil)
		for in := range noClose {
			if _, isR := in.(*ssa.Return); isR {
				bad = "Commit can return success without closing the transaction"
			}
		}
		c.check(id+":(*Tx).Commit:after-meta-only-success", commit, wm.Pos(), "after a successful writeMeta, Commit can only close the transaction and return success", bad == "" && len(okSucc) > 0, bad)
		// commit handlers run after close
		handlersF := txField(c, "commitHandlers")
		n := 0
		badH := ""
		eachInstr(commit, func(in ssa.Instruction) {
			call, ok := in.(*ssa.Call)
			if !ok || calleeOf(call).Dyn == nil {
				return
			}
			ls := provenance(call.Call.Value, provOpts{})
			isH := false
			for _, l := range ls {
				if l.Kind == "field" && pathOf(l.V).Has(handlersF) {
					isH = true
				}
			}
			if !isH {
				return
			}
			n++
			if !dominates(cl, call) {
				badH = c.P.Position(call.Pos())
			}
		})
		c.check(id+":(*Tx).Commit:handlers-after-close", commit, cl.Pos(), "commit handlers run only after tx.close() released the locks", n > 0 && badH == "", "handler invoked before close at "+badH)
	})
}

var freelistMutators = map[string]bool{
	"freelist.Interface.Free": true, "freelist.Interface.Rollback": true, "freelist.Interface.Reload": true, "freelist.Interface.NoSyncReload": true,
	"freelist.Interface.Allocate": true, "freelist.Interface.ReleasePendingPages": true, "freelist.Interface.Init": true, "freelist.ReadWriter.Read": true,
}

// c03R8: the in-memory free list belongs to the writer: every mutation of it happens while rwlock is held
// (the reader registry inside it is the exception: Add/RemoveReadonlyTXID run under metalock, C02.R1/R3).
func c03R8(c *Ctx, id string) {
	c.rule(id, "freelist-mutated-under-writer-lock", 8, func() {
		la := newLockAnalysis(c, map[*types.Var]bool{}).forTx(true)
		isTxSide := func(fn *ssa.Function) bool {
			if fn.Signature.Recv() == nil {
				return false
			}
			rt := fn.Signature.Recv().Type().String()
			return strings.HasSuffix(rt, "bbolt.Tx") || strings.HasSuffix(rt, "bbolt.Bucket") || strings.HasSuffix(rt, "bbolt.Cursor") || strings.HasSuffix(rt, "bbolt.node")
		}
		amb := func(fn *ssa.Function) lset {
			if isTxSide(fn) {
				return lset{"rwlock:W": true} // an open write transaction holds the writer lock between its API calls
			}
			return lset{}
		}
		ctx := la.contextM(amb, amb)
		perFn := map[string]int{}
		for _, fn := range c.P.FnsIn(rootPkg) {
			name := shortFn(fn)
			eachInstr(fn, func(in ssa.Instruction) {
				ci, ok := in.(ssa.CallInstruction)
				if !ok || !freelistMutators[calleeOf(ci).Name()] {
					return
				}
				if la.before(in) == nil {
					return // unreachable for a write transaction
				}
				perFn[name]++
				held := la.heldMust(ctx, in)
				okH := held["rwlock:W"]
				exc := ""
				if name == "bbolt.(*DB).loadFreelist$1" {
					okH, exc = true, " [exception: first load inside sync.Once — during Open before the DB is published, or from Tx.Check on a read-only DB, which is documented as unsafe with concurrent writers]"
				}
				cn := calleeOf(ci).Name()
				c.check(fmt.Sprintf("%s:%s:%s#%d", id, name, cn[strings.LastIndex(cn, ".")+1:], perFn[name]), fn, in.Pos(), "the free list is mutated ("+cn+") only while the writer lock is held"+exc, okH,
					fmt.Sprintf("locks definitely held here: %v — another writer can already be allocating from / freeing into the same free list", held))
			})
		}
	})
}
