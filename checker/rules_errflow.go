package main

import (
	"fmt"
	"strings"

	"golang.org/x/tools/go/ssa"
)

// ruleTestedErrorsPropagate: contradiction rule — wherever the module tests an error for non-nil, the
// non-nil edge must not run into a success return of the enclosing function (returning nil after `if err
// != nil` claims success for an operation that failed). Accepted idioms are listed in errflowExceptions,
// one reason each. Scope: the packages in pkgs.
var errflowExceptions = map[string]string{
	"bbolt.flock:syscall.Flock#1":                                                 "retry loop: EWOULDBLOCK leads to another attempt until the timeout (C17.R1 tabulates the request; every other errno is returned)",
	"bbolt.mmap:unix.Madvise#1":                                                   "advisory call: ENOSYS is tolerated, every other errno is returned",
	"bbolt.(*DB).getPageSize:bbolt.(*DB).getPageSizeFromFirstMeta#1":              "fallback: a damaged first meta page sends the probe to the second one (C11.R3/R4 decide the table)",
	"bbolt.(*DB).getPageSize:bbolt.(*DB).getPageSizeFromSecondMeta#1":             "fallback: when both probes fail the first probe's error (non-nil) is returned",
	"bbolt.(*DB).getPageSizeFromSecondMeta:os.(*File).ReadAt#1":                   "probing loop over candidate page sizes: a failed read moves to the next candidate",
	"bbolt.(*DB).getPageSizeFromSecondMeta:common.(*Meta).Validate#1":             "probing loop over candidate page sizes: an invalid candidate moves to the next one",
	"bbolt.(*DB).mmap:common.(*Meta).Validate#1":                                  "one valid meta page suffices; both invalid returns the error (C11.R4 decides the table)",
	"bbolt.(*Tx).WriteTo:os.(*File).Close#1":                                      "closing the superfluous reader handle when the file was replaced: logged, the copy continues on the already open handle",
	"common.CopyFile:os.Stat#2":                                                   "inverted test: the destination MUST NOT exist — a nil error is the failure, IsNotExist the success",
	"command.surgeryMetaValidateFunc:common.(*Meta).Validate#1":                   "the validate command's purpose is to print the verdict; an invalid page is reported, not an execution error",
	"command.ReadMetaPageAt:os.(*File).ReadAt#1":                                  "a full read that ends exactly at EOF is a success",
	"common.(*Meta).Sum64:io.Writer.Write#1":                                      "hash.Hash.Write never returns an error (documented); nothing is written to a file",
	"command.writeMetaPageAt:os.(*File).WriteAt#1":                                "a full write is a success whatever the (EOF) error; a short write returns the error",
}

func ruleTestedErrorsPropagate(c *Ctx, id string, pkgs []string, floor int, filter func(name string) bool) {
	c.rule(id, "tested-errors-propagate", floor, func() {
		for _, pk := range pkgs {
			for _, fn := range c.P.FnsIn(pk) {
				if fn.Signature.Results().Len() == 0 || errResultIndex(fn.Signature) < 0 {
					continue // the function cannot report an error at all
				}
				name := shortFn(fn)
				if filter != nil && !filter(name) {
					continue
				}
				counts := map[string]int{}
				eachInstr(fn, func(in ssa.Instruction) {
					call, ok := in.(*ssa.Call)
					if !ok || errResultIndex(call.Call.Signature()) < 0 {
						return
					}
					ev := errValueOf(call)
					if ev == nil || len(nilTestsOf(ev)) == 0 {
						return
					}
					cn := calleeOf(call).Name()
					counts[cn]++
					key := fmt.Sprintf("%s:%s:%s#%d", id, name, cn, counts[cn])
					msg := errorHandled(call)
					if why, ok := errflowExceptions[strings.SplitN(key, ":", 2)[1]]; ok && msg != "" {
						c.check(key, fn, in.Pos(), "accepted idiom: "+why, true, "")
						return
					}
					c.check(key, fn, in.Pos(), "the non-nil edge of the tested error of "+cn+" reaches no success return", msg == "", msg)
				})
			}
		}
	})
}

var writeCallees = map[string]bool{
	"os.(*File).WriteAt": true, "os.(*File).Write": true, "os.(*File).Sync": true, "os.(*File).Truncate": true,
	"io.Copy": true, "io.CopyN": true, "io.Writer.Write": true, "os.WriteFile": true,
}

// ruleWriteErrorsKept: the error of every call that writes file content (WriteAt / Write / Sync / Copy…) in
// the given scope is tested with its non-nil edge reaching an error return, or returned — never dropped.
func ruleWriteErrorsKept(c *Ctx, id string, pkgs []string, floor int, filter func(name string) bool) {
	c.rule(id, "write-errors-kept", floor, func() {
		for _, pk := range pkgs {
			for _, fn := range c.P.FnsIn(pk) {
				name := shortFn(fn)
				if filter != nil && !filter(name) {
					continue
				}
				counts := map[string]int{}
				eachInstr(fn, func(in ssa.Instruction) {
					ci, ok := in.(ssa.CallInstruction)
					if !ok {
						return
					}
					cn := calleeOf(ci).Name()
					if !writeCallees[cn] {
						return
					}
					counts[cn]++
					key := fmt.Sprintf("%s:%s:%s#%d", id, name, cn, counts[cn])
					call, isCall := ci.(*ssa.Call)
					if !isCall {
						c.check(key, fn, in.Pos(), "the error of a content-writing call is kept", false, "deferred or spawned: the error result is lost")
						return
					}
					msg := errorHandled(call)
					if why, ok := errflowExceptions[strings.SplitN(key, ":", 2)[1]]; ok && msg != "" {
						c.check(key, fn, in.Pos(), "accepted idiom: "+why, true, "")
						return
					}
					c.check(key, fn, in.Pos(), "the error of "+cn+" is returned, or tested with its non-nil edge reaching an error return", msg == "", msg)
				})
			}
		}
	})
}
