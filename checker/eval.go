package main

import (
	"fmt"
	"os"
	"go/constant"
	"go/token"
	"go/types"

	"golang.org/x/tools/go/ssa"
)

// T6: a small abstract interpreter over SSA for finite truth tables. Values
// are constants, nil, or opaque symbols; anything else is Unknown, and a branch
// on an Unknown condition makes the evaluation *undecided* (reported, never
// silently passed).

type vkind int

const (
	vUnknown vkind = iota
	vConst
	vNil
	vSym
)

type V struct {
	K vkind
	C constant.Value
	S string
}

func (v V) String() string {
	switch v.K {
	case vConst:
		return v.C.ExactString()
	case vNil:
		return "nil"
	case vSym:
		return "<" + v.S + ">"
	}
	return "?"
}

func cV(c constant.Value) V { return V{K: vConst, C: c} }
func iV(i int64) V          { return cV(constant.MakeInt64(i)) }
func uV(u uint64) V         { return cV(constant.MakeUint64(u)) }
func bV(b bool) V           { return cV(constant.MakeBool(b)) }
func symV(s string) V       { return V{K: vSym, S: s} }

var nilV = V{K: vNil}
var unkV = V{}

func (v V) Bool() (bool, bool) {
	if v.K == vConst && v.C.Kind() == constant.Bool {
		return constant.BoolVal(v.C), true
	}
	return false, false
}

func (v V) Int() (int64, bool) {
	if v.K == vConst && v.C.Kind() == constant.Int {
		if i, ok := constant.Int64Val(v.C); ok {
			return i, true
		}
		if u, ok := constant.Uint64Val(v.C); ok {
			return int64(u), true
		}
	}
	return 0, false
}

// Evaluator hooks. Each returns ok=false for "not an atom I know".
type Evaluator struct {
	Load     func(u *ssa.UnOp) (V, bool)                  // *addr
	Call     func(c *ssa.Call, args []V) (V, bool)        // result of a call (single result)
	CallN    func(c *ssa.Call, args []V) ([]V, bool)      // tuple results
	Param    func(p *ssa.Parameter) (V, bool)
	FreeVar  func(f *ssa.FreeVar) (V, bool)
	OnCall   func(c ssa.CallInstruction, args []V)        // observe every call reached
	OnStore  func(s *ssa.Store, val V)                    // observe every store reached
	Inline   func(f *ssa.Function) bool                   // may the callee be inlined (pure accessor)?
	OnInstr  func(in ssa.Instruction)                     // observe every instruction executed
	Value    func(v ssa.Value) (V, bool)                  // any value the scenario wants to define (consulted first)
	Tuple    func(v ssa.Value) ([]V, bool)                // tuple-valued instructions: v,ok := <-ch / m[k] / x.(T), range Next
	MaxSteps int
	depth    int
	cur      *frame // frame of the innermost Exec in progress (for Peek/Mem from hooks)
	entryPhi bool // ValueAtEntry: a phi takes the value of its loop-entry edge(s)
}

// ValueAtEntry evaluates a pure expression tree outside any execution: loads
// and calls come from the hooks, a Phi takes the value flowing in over the
// edges that are not back edges (its value on first entry to the loop).
func (e *Evaluator) ValueAtEntry(v ssa.Value) V {
	old := e.entryPhi
	e.entryPhi = true
	defer func() { e.entryPhi = old }()
	fr := &frame{vals: map[ssa.Value]V{}, mem: map[ssa.Value]V{}}
	return e.val(fr, v)
}

// Peek evaluates v in the frame of the Exec in progress (for hooks that need an index or a receiver).
func (e *Evaluator) Peek(v ssa.Value) V {
	if e.cur == nil {
		return unkV
	}
	return e.val(e.cur, v)
}

// Mem returns what the Exec in progress last stored at addr.
func (e *Evaluator) Mem(addr ssa.Value) (V, bool) {
	if e.cur == nil {
		return unkV, false
	}
	v, ok := e.cur.mem[addr]
	return v, ok
}

type Outcome struct {
	Kind   string // "return" | "panic" | "undecided"
	Rets   []V
	Reason string
	Steps  int
}

func (o Outcome) String() string {
	switch o.Kind {
	case "return":
		return fmt.Sprintf("return%v", o.Rets)
	case "panic":
		return "panic"
	}
	return "undecided(" + o.Reason + ")"
}

type frame struct {
	vals map[ssa.Value]V
	mem  map[ssa.Value]V // local cells (Alloc / FieldAddr of local Alloc by identity)
}

// Exec runs fn from its entry block with the given argument values.
func (e *Evaluator) Exec(fn *ssa.Function, args []V) Outcome {
	if e.MaxSteps == 0 {
		e.MaxSteps = 20000
	}
	if len(fn.Blocks) == 0 {
		return Outcome{Kind: "undecided", Reason: "no body: " + shortFn(fn)}
	}
	fr := &frame{vals: map[ssa.Value]V{}, mem: map[ssa.Value]V{}}
	saved := e.cur
	e.cur = fr
	defer func() { e.cur = saved }()
	for i, p := range fn.Params {
		if i < len(args) && args[i].K != vUnknown {
			fr.vals[p] = args[i]
		} else if e.Param != nil {
			if v, ok := e.Param(p); ok {
				fr.vals[p] = v
			}
		}
	}
	var prev *ssa.BasicBlock
	b := fn.Blocks[0]
	steps := 0
	for {
		var next *ssa.BasicBlock
		// phis are evaluated simultaneously on block entry
		{
			tmp := map[*ssa.Phi]V{}
			for _, in := range b.Instrs {
				x, ok := in.(*ssa.Phi)
				if !ok {
					break
				}
				for i, p := range b.Preds {
					if p == prev {
						tmp[x] = e.val(fr, x.Edges[i])
					}
				}
			}
			for k, v := range tmp {
				fr.vals[k] = v
			}
		}
		for _, in := range b.Instrs {
			steps++
			if e.OnInstr != nil {
				e.OnInstr(in)
			}
			if steps > e.MaxSteps {
				return Outcome{Kind: "undecided", Reason: "step bound", Steps: steps}
			}
			switch x := in.(type) {
			case *ssa.Phi:
				// done above
			case *ssa.If:
				c := e.val(fr, x.Cond)
				bv, ok := c.Bool()
				if !ok {
					return Outcome{Kind: "undecided", Reason: fmt.Sprintf("branch on unknown condition %s in %s (block %d)", x.Cond.Name(), shortFn(fn), b.Index), Steps: steps}
				}
				if bv {
					next = b.Succs[0]
				} else {
					next = b.Succs[1]
				}
			case *ssa.Jump:
				next = b.Succs[0]
			case *ssa.Return:
				var rets []V
				for _, r := range x.Results {
					rets = append(rets, e.val(fr, r))
				}
				return Outcome{Kind: "return", Rets: rets, Steps: steps}
			case *ssa.Panic:
				return Outcome{Kind: "panic", Steps: steps}
			case *ssa.Store:
				v := e.val(fr, x.Val)
				fr.mem[x.Addr] = v
				if e.OnStore != nil {
					e.OnStore(x, v)
				}
			case *ssa.Call:
				var av []V
				for _, a := range x.Call.Args {
					av = append(av, e.val(fr, a))
				}
				if e.OnCall != nil {
					e.OnCall(x, av)
				}
				// the min / max builtins over known constants
				if b := calleeOf(x).Builtin; (b == "min" || b == "max") && len(av) > 0 {
					best := av[0]
					okAll := best.K == vConst
					for _, a := range av[1:] {
						if a.K != vConst || !okAll {
							okAll = false
							break
						}
						if (b == "min" && constant.Compare(a.C, token.LSS, best.C)) || (b == "max" && constant.Compare(a.C, token.GTR, best.C)) {
							best = a
						}
					}
					if okAll {
						fr.vals[x] = best
						continue
					}
				}
				if x.Call.Signature().Results().Len() > 1 && e.CallN != nil {
					if rs, ok := e.CallN(x, av); ok {
						for _, r := range *x.Referrers() {
							if ex, ok := r.(*ssa.Extract); ok && ex.Index < len(rs) {
								fr.vals[ex] = rs[ex.Index]
							}
						}
						continue
					}
				}
				if e.Call != nil {
					if v, ok := e.Call(x, av); ok {
						fr.vals[x] = v
						continue
					}
				}
				if f := calleeOf(x).Static; f != nil && e.Inline != nil && e.Inline(f) && e.depth < 4 && len(f.Blocks) > 0 {
					e.depth++
					o := e.Exec(f, av)
					e.depth--
					if os.Getenv("VERIF_DEBUG_EVAL") != "" {
						fmt.Fprintf(os.Stderr, "inline %s(%v) -> %s\n", shortFn(f), av, o)
					}
					if o.Kind == "return" && len(o.Rets) == 1 {
						fr.vals[x] = o.Rets[0]
					} else if o.Kind == "return" && len(o.Rets) > 1 {
						for _, r := range *x.Referrers() {
							if ex, ok := r.(*ssa.Extract); ok && ex.Index < len(o.Rets) {
								fr.vals[ex] = o.Rets[ex.Index]
							}
						}
					} else if o.Kind == "panic" {
						return o
					}
				}
			case *ssa.Defer, *ssa.Go:
				if e.OnCall != nil {
					e.OnCall(x.(ssa.CallInstruction), nil)
				}
			case ssa.Value:
				if _, isTuple := x.Type().(*types.Tuple); isTuple && e.Tuple != nil {
					if rs, ok := e.Tuple(x); ok && x.Referrers() != nil {
						for _, r := range *x.Referrers() {
							if ex, ok := r.(*ssa.Extract); ok && ex.Index < len(rs) {
								fr.vals[ex] = rs[ex.Index]
							}
						}
						continue
					}
				}
				// eager: the value an instruction has is the one computed when it executes
				if _, isExtract := x.(*ssa.Extract); !isExtract {
					fr.vals[x] = e.compute(fr, x)
				}
			}
		}
		if next == nil {
			return Outcome{Kind: "undecided", Reason: "fell off block", Steps: steps}
		}
		prev, b = b, next
	}
}

func (e *Evaluator) val(fr *frame, v ssa.Value) V {
	if r, ok := fr.vals[v]; ok {
		return r
	}
	return e.compute(fr, v)
}

func (e *Evaluator) compute(fr *frame, v ssa.Value) V {
	if e.Value != nil {
		if r, ok := e.Value(v); ok {
			return r
		}
	}
	switch x := v.(type) {
	case *ssa.Const:
		if x.Value == nil {
			switch x.Type().Underlying().(type) {
			case *types.Basic:
				// zero value of a basic type
				b := x.Type().Underlying().(*types.Basic)
				switch {
				case b.Info()&types.IsBoolean != 0:
					return bV(false)
				case b.Info()&types.IsInteger != 0:
					return iV(0)
				case b.Info()&types.IsString != 0:
					return cV(constant.MakeString(""))
				}
				return unkV
			}
			return nilV
		}
		return cV(x.Value)
	case *ssa.Parameter:
		if e.Param != nil {
			if r, ok := e.Param(x); ok {
				return r
			}
		}
	case *ssa.FreeVar:
		if e.FreeVar != nil {
			if r, ok := e.FreeVar(x); ok {
				return r
			}
		}
	case *ssa.UnOp:
		switch x.Op {
		case token.MUL:
			if e.Load != nil {
				if r, ok := e.Load(x); ok {
					return r
				}
			}
			if r, ok := fr.mem[x.X]; ok {
				return r
			}
			if a, ok := x.X.(*ssa.Alloc); ok {
				// a fresh cell holds the zero value of its type
				if pt, isP := a.Type().Underlying().(*types.Pointer); isP {
					switch et := pt.Elem().Underlying().(type) {
					case *types.Basic:
						switch {
						case et.Info()&types.IsBoolean != 0:
							return bV(false)
						case et.Info()&types.IsInteger != 0:
							return iV(0)
						case et.Info()&types.IsString != 0:
							return cV(constant.MakeString(""))
						}
					case *types.Pointer, *types.Interface, *types.Slice, *types.Map, *types.Chan, *types.Signature:
						return nilV
					}
				}
				return unkV
			}
			if g, ok := x.X.(*ssa.Global); ok {
				return symV("global:" + g.Name())
			}
		case token.NOT:
			if b, ok := e.val(fr, x.X).Bool(); ok {
				return bV(!b)
			}
		case token.SUB:
			if a := e.val(fr, x.X); a.K == vConst {
				return cV(constant.UnaryOp(token.SUB, a.C, 0))
			}
		case token.XOR:
			if a := e.val(fr, x.X); a.K == vConst {
				return cV(constant.UnaryOp(token.XOR, a.C, 0))
			}
		}
	case *ssa.BinOp:
		a, b := e.val(fr, x.X), e.val(fr, x.Y)
		return binop(x.Op, a, b, x.X.Type())
	case *ssa.Convert:
		a := e.val(fr, x.X)
		if a.K == vConst && a.C.Kind() == constant.Int {
			return cV(wrapInt(a.C, x.Type()))
		}
		return a
	case *ssa.ChangeType:
		return e.val(fr, x.X)
	case *ssa.MakeInterface:
		a := e.val(fr, x.X)
		if a.K == vUnknown {
			return symV("iface:" + x.X.Name())
		}
		return a
	case *ssa.ChangeInterface:
		return e.val(fr, x.X)
	case *ssa.Phi:
		if e.entryPhi {
			var res *V
			for i, p := range x.Block().Preds {
				if x.Block().Dominates(p) {
					continue // back edge
				}
				r := e.val(fr, x.Edges[i])
				if res == nil {
					res = &r
				} else if res.K != r.K || res.String() != r.String() {
					return unkV
				}
			}
			if res != nil {
				return *res
			}
		}
	case *ssa.Call:
		if b := calleeOf(x).Builtin; (b == "min" || b == "max") && len(x.Call.Args) > 0 {
			best := e.val(fr, x.Call.Args[0])
			okAll := best.K == vConst
			for _, a := range x.Call.Args[1:] {
				av := e.val(fr, a)
				if av.K != vConst || !okAll {
					okAll = false
					break
				}
				if (b == "min" && constant.Compare(av.C, token.LSS, best.C)) || (b == "max" && constant.Compare(av.C, token.GTR, best.C)) {
					best = av
				}
			}
			if okAll {
				return best
			}
		}
		if e.entryPhi && e.Call != nil {
			var av []V
			for _, a := range x.Call.Args {
				av = append(av, e.val(fr, a))
			}
			if r, ok := e.Call(x, av); ok {
				return r
			}
		}
	case *ssa.Extract:
		// filled by Call handling
	case *ssa.Global:
		return symV("global:" + x.Name())
	case *ssa.Function:
		return symV("func:" + shortFn(x))
	case *ssa.Alloc:
		return symV("alloc:" + x.Name())
	case *ssa.FieldAddr, *ssa.IndexAddr:
		return symV("addr:" + v.Name())
	}
	return unkV
}

func wrapInt(c constant.Value, t types.Type) constant.Value {
	b, ok := t.Underlying().(*types.Basic)
	if !ok || b.Info()&types.IsInteger == 0 {
		return c
	}
	bits := map[types.BasicKind]uint{types.Int8: 8, types.Uint8: 8, types.Int16: 16, types.Uint16: 16, types.Int32: 32, types.Uint32: 32}[b.Kind()]
	if bits == 0 {
		return c
	}
	mask := constant.MakeUint64(1<<bits - 1)
	r := constant.BinaryOp(c, token.AND, mask)
	if b.Info()&types.IsUnsigned == 0 {
		if u, ok := constant.Uint64Val(r); ok && u>>(bits-1) == 1 {
			return constant.MakeInt64(int64(u) - (1 << bits))
		}
	}
	return r
}

func binop(op token.Token, a, b V, t types.Type) V {
	switch op {
	case token.EQL, token.NEQ:
		eq, ok := false, false
		switch {
		case a.K == vNil && b.K == vNil:
			eq, ok = true, true
		case (a.K == vNil && b.K == vSym) || (a.K == vSym && b.K == vNil):
			eq, ok = false, true
		case a.K == vNil && b.K == vConst, a.K == vConst && b.K == vNil:
			eq, ok = false, true
		case a.K == vSym && b.K == vSym:
			eq, ok = a.S == b.S, true
		case a.K == vConst && b.K == vConst:
			eq, ok = constant.Compare(a.C, token.EQL, b.C), true
		}
		if !ok {
			return unkV
		}
		if op == token.NEQ {
			eq = !eq
		}
		return bV(eq)
	}
	if a.K != vConst || b.K != vConst {
		// absorbing elements of boolean/bit ops
		return unkV
	}
	switch op {
	case token.LSS, token.LEQ, token.GTR, token.GEQ:
		return bV(constant.Compare(a.C, op, b.C))
	case token.ADD, token.SUB, token.MUL, token.AND, token.OR, token.XOR, token.AND_NOT:
		if a.C.Kind() == constant.Bool {
			return unkV
		}
		r := constant.BinaryOp(a.C, op, b.C)
		if r.Kind() == constant.Int {
			r = wrapIntFull(r, t)
		}
		return cV(r)
	case token.QUO, token.REM:
		if constant.Sign(b.C) == 0 {
			return unkV
		}
		o := op
		if a.C.Kind() == constant.Int {
			if op == token.QUO {
				o = token.QUO_ASSIGN // integer division
			}
		}
		return cV(constant.BinaryOp(a.C, o, b.C))
	case token.SHL, token.SHR:
		if s, ok := constant.Uint64Val(b.C); ok && s < 64 {
			return cV(wrapIntFull(constant.Shift(a.C, op, uint(s)), t))
		}
	}
	return unkV
}

func wrapIntFull(c constant.Value, t types.Type) constant.Value {
	b, ok := t.Underlying().(*types.Basic)
	if !ok {
		return c
	}
	switch b.Kind() {
	case types.Uint64, types.Uint, types.Uintptr:
		m := constant.BinaryOp(constant.Shift(constant.MakeInt64(1), token.SHL, 64), token.SUB, constant.MakeInt64(1))
		return constant.BinaryOp(c, token.AND, m)
	case types.Int8, types.Uint8, types.Int16, types.Uint16, types.Int32, types.Uint32:
		return wrapInt(c, t)
	}
	return c
}

// constantFromString parses a Go literal (as produced by ExactString) into a constant.
func constantFromString(lit string) constant.Value {
	if len(lit) >= 2 && lit[0] == '"' {
		return constant.MakeFromLiteral(lit, token.STRING, 0)
	}
	return constant.MakeFromLiteral(lit, token.INT, 0)
}

func constantUint(v V) (uint64, bool) {
	if v.K != vConst || v.C.Kind() != constant.Int {
		return 0, false
	}
	if u, ok := constant.Uint64Val(v.C); ok {
		return u, true
	}
	if i, ok := constant.Int64Val(v.C); ok {
		return uint64(i), true
	}
	return 0, false
}
