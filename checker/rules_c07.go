package main

import (
	"fmt"
	"go/token"
	"strings"

	"golang.org/x/tools/go/ssa"
)

func init() {
	register(&propDef{
		ID: "C07",
		Explanation: "Decided: an in-use page id is never dropped without being handed to the freelist (every `pgid = 0`, `SetRootPage(0)` and every removal of a node from the node cache is tied to a Free of that page); a tree is never mutated from inside the callback that enumerates it (the documented ForEach contract, checked for every ForEach/ForEachBucket call site in the module); " +
			"the meta's freelist pointer is redefined on every path whenever the old freelist page is freed, and the old page is freed before the new one is allocated; Bucket.free releases pages AND materialised nodes, and DeleteBucket frees a bucket after its nested buckets and before removing its key. " +
			"Page capacity (R8): the page count requested for a node / the free list is at least ceil(size/pageSize) of the very object then written into the allocated page, buffers are count*pageSize bytes, node.size()/sizeLessThan() count header + element header + key + value, the serialiser places data after the element array and advances by key+value, Commit grows the file to the high-water mark and grow truncates to at least the request (all tabulated with the T6 evaluator). " +
			"NOT decided: key order within and across pages for arbitrary histories, that split/rebalance keep nodes non-empty, agreement of Stats and Check with the accounting (all value-level). Round 3: rebalance re-parents materialised children of transferred inodes to the receiving node. Round 4: the free list rebuilt by scanning comes from the integrity check's reachability walk (re-evaluated).",
		Run: func(c *Ctx) {
			ruleEveryCachedChildSpilled(c, "C07.R14")
			c13R1(c, "C07.R13") // "both free and in use": the rebuilt free list is the complement of the integrity check's reachability walk
			c07R1(c, "C07.R1")
			c07R2(c, "C07.R2")
			c07R3(c, "C07.R3")
			c07R4(c, "C07.R4")
			c08R2(c, "C07.R5") // a failed commit must give back the pages it took from the free list (physical rollback shape)
			ruleRollbackUndoesFrees(c, "C07.R6")
			c06R1(c, "C07.R7") // every page of a run is written where its id says (else the run's pages are neither reachable nor free)
			rulePageCapacity(c, "C07.R8")
			ruleInlineNoNested(c, "C07.R9")
			ruleFreeSetEntry(c, "C07.R10") // "both free and in use": a page enters the free set only through the release path
			ruleMovedInodesCarryChildren(c, "C07.R12") // "reachable yet free": a merged node's dirty child must not be left under the freed node
			ruleKeyOrderPredicates(c, "C07.R11") // "keys are ordered within and across pages": insertion and search positions come from lower-bound predicates over bytes.Compare
		},
	})
}

func c07R1(c *Ctx, id string) {
	c.rule(id, "free-before-drop", 6, func() {
		pgidF := c.P.lookupField(rootPkg, "node", "pgid")
		nodesF := c.P.lookupField(rootPkg, "Bucket", "nodes")
		if pgidF == nil || nodesF == nil {
			panic(anchorErr{"node.pgid / Bucket.nodes"})
		}
		// (1) node.pgid = 0 only after Free of that node's page
		k := 0
		for _, st := range storesToField(c.P.FnsIn(rootPkg), pgidF) {
			v, isC := constInt(st.Val)
			if !isC || v != 0 {
				continue
			}
			if _, isLocal := st.Addr.X.(*ssa.Alloc); isLocal {
				continue
			}
			k++
			name := shortFn(st.Fn)
			ok := false
			for _, fr := range callsIn(st.Fn, "freelist.Interface.Free") {
				in := fr.(ssa.Instruction)
				if !dominates(in, st.Instr) {
					continue
				}
				// the page freed is tx.page(<that node>.pgid)
				for _, l := range provenance(fr.Common().Args[1], provOpts{ThroughCall: throughAll}) {
					if l.Kind == "field" && pathOf(l.V).Last() == pgidF && pathOf(l.V).Root == pathOf(st.Addr).Root {
						ok = true
					}
				}
			}
			c.check(fmt.Sprintf("%s:%s:pgid=0#%d", id, name, k), st.Fn, st.Instr.Pos(), "a node forgets its page id only after freelist.Free(tx.page(node.pgid)) on the same path", ok, "the page id is dropped without being freed: the page leaks")
		}
		// (1b) node.spill: the node's page id is replaced by the new page's id only after the old page (if any) was freed
		sp := c.fn("bbolt.(*node).spill")
		for _, st := range storesToField([]*ssa.Function{sp}, pgidF) {
			if _, isC := constInt(st.Val); isC {
				continue
			}
			ok := false
			detail := "no dominating `node.pgid > 0` test"
			for b := st.Instr.Block().Idom(); b != nil; b = b.Idom() {
				iff, isIf := b.Instrs[len(b.Instrs)-1].(*ssa.If)
				if !isIf {
					continue
				}
				bo, isBin := iff.Cond.(*ssa.BinOp)
				if !isBin || bo.Op != token.GTR || pathOf(bo.X).Last() != pgidF {
					continue
				}
				if k, isC := constInt(bo.Y); !isC || k != 0 {
					continue
				}
				r := reach(nil, []*ssa.BasicBlock{b.Succs[0]}, func(in ssa.Instruction) bool { return isCallTo(in, "freelist.Interface.Free") }, nil)
				ok = !r[st.Instr]
				detail = "with an old page id (> 0) the new id can be stored without the old page having been freed"
			}
			c.check(id+":bbolt.(*node).spill:pgid-replaced-after-free", sp, st.Instr.Pos(), "in spill a node's page id is overwritten with the new page's id only after its old page, if it had one, was handed to Free", ok, detail)
		}
		// (1c) Bucket.spill: a child that became small enough to be inlined frees its pages before it is written inline
		bs := c.fn("bbolt.(*Bucket).spill")
		okInl := false
		for _, call := range plainCallsIn(bs, "bbolt.(*Bucket).inlineable") {
			for _, r := range *call.Referrers() {
				iff, isIf := r.(*ssa.If)
				if !isIf {
					continue
				}
				writes := plainCallsIn(bs, "bbolt.(*Bucket).write")
				rr := reach(nil, []*ssa.BasicBlock{iff.Block().Succs[0]}, func(in ssa.Instruction) bool { return isCallTo(in, "bbolt.(*Bucket).free") }, nil)
				okInl = len(writes) > 0
				for _, w := range writes {
					if rr[w] {
						okInl = false
					}
				}
			}
		}
		c.check(id+":bbolt.(*Bucket).spill:inline-frees-pages", bs, bs.Pos(), "a child bucket that is written inline first frees the pages it occupied (child.free() before child.write() on the inlineable branch)", okInl, "the inlineable branch can write the bucket inline without freeing its pages")
		// (2) SetRootPage(0) only after the bucket's pages were freed
		for _, fn := range c.P.FnsIn(rootPkg) {
			for i, call := range plainCallsIn(fn, "common.(*InBucket).SetRootPage") {
				v, isC := constInt(call.Call.Args[1])
				if !isC || v != 0 {
					continue
				}
				ok := false
				for _, fe := range plainCallsIn(fn, "bbolt.(*Bucket).forEachPageNode") {
					if cl := closureOf(fe.Call.Args[1]); cl != nil && len(callsIn(cl, "freelist.Interface.Free")) > 0 && dominates(fe, call) {
						ok = true
					}
				}
				c.check(fmt.Sprintf("%s:%s:SetRootPage(0)#%d", id, shortFn(fn), i+1), fn, call.Pos(), "a bucket's root is reset to 0 only after every page of the bucket was enumerated and freed", ok, "root reset without freeing the bucket's pages")
			}
		}
		// (3) delete(b.nodes, X.pgid) is followed by X.free() on every path
		for _, fn := range c.P.FnsIn(rootPkg) {
			i := 0
			eachInstr(fn, func(in ssa.Instruction) {
				del, ok := in.(*ssa.Call)
				if !ok || calleeOf(del).Builtin != "delete" || pathOf(del.Call.Args[0]).Last() != nodesF {
					return
				}
				i++
				// which node: the key is X.pgid
				var owner ssa.Value
				for _, l := range provenance(del.Call.Args[1], provOpts{}) {
					if l.Kind == "field" && pathOf(l.V).Last() == pgidF {
						owner = pathOf(l.V).Root
					}
				}
				frees := plainCallsIn(fn, "bbolt.(*node).free")
				isFree := func(x ssa.Instruction) bool {
					for _, f := range frees {
						if f == x && (owner == nil || sameValue(f.Call.Args[0], owner) || f.Call.Args[0] == owner) {
							return true
						}
					}
					return false
				}
				r := reach([]ssa.Instruction{del}, nil, isFree, nil)
				bad := ""
				for x := range r {
					if _, isR := x.(*ssa.Return); isR {
						bad = c.P.Position(x.Pos())
					}
				}
				c.check(fmt.Sprintf("%s:%s:delete(nodes)#%d", id, shortFn(fn), i), fn, del.Pos(), "a node removed from the bucket's node cache has its page freed (X.free()) on every path that follows", bad == "" && owner != nil, "return at "+bad+" reachable without freeing the removed node's page")
			})
		}
	})
}

var treeMutators = map[string]bool{
	"bbolt.(*Bucket).Put": true, "bbolt.(*Bucket).Delete": true, "bbolt.(*Bucket).DeleteBucket": true, "bbolt.(*Bucket).CreateBucket": true, "bbolt.(*Bucket).CreateBucketIfNotExists": true,
	"bbolt.(*Bucket).MoveBucket": true, "bbolt.(*Cursor).Delete": true, "bbolt.(*node).put": true, "bbolt.(*node).del": true,
	"bbolt.(*Tx).DeleteBucket": true, "bbolt.(*Tx).CreateBucket": true, "bbolt.(*Tx).CreateBucketIfNotExists": true, "bbolt.(*Tx).MoveBucket": true,
}

// bindingOf resolves a load of a closure's free variable to the value bound at the MakeClosure.
func bindingOf(v ssa.Value, mc *ssa.MakeClosure) ssa.Value {
	ld, ok := v.(*ssa.UnOp)
	if ok && ld.Op == token.MUL {
		if fv, isFV := ld.X.(*ssa.FreeVar); isFV && mc != nil {
			fn := mc.Fn.(*ssa.Function)
			for i, f := range fn.FreeVars {
				if f == fv && i < len(mc.Bindings) {
					return mc.Bindings[i]
				}
			}
		}
	}
	if fv, isFV := v.(*ssa.FreeVar); isFV && mc != nil {
		fn := mc.Fn.(*ssa.Function)
		for i, f := range fn.FreeVars {
			if f == fv && i < len(mc.Bindings) {
				return mc.Bindings[i]
			}
		}
	}
	return nil
}

func c07R2(c *Ctx, id string) {
	c.rule(id, "no-mutation-in-iteration", 6, func() {
		iterators := []string{"bbolt.(*Bucket).ForEach", "bbolt.(*Bucket).ForEachBucket", "bbolt.(*Tx).ForEach"}
		for _, fn := range c.P.Subjects {
			k := 0
			for _, call := range plainCallsIn(fn, iterators...) {
				k++
				recv := call.Call.Args[0]
				mc, _ := call.Call.Args[1].(*ssa.MakeClosure)
				cb := closureOf(call.Call.Args[1])
				name := shortFn(fn)
				iter := calleeOf(call).Name()
				short := iter[strings.LastIndex(iter, ".")+1:]
				if cb == nil {
					c.check(fmt.Sprintf("%s:%s:%s#%d", id, name, short, k), fn, call.Pos(), "the callback is a function literal or named function that can be analysed", len(call.Call.Args) > 1 && call.Call.Args[1] != nil && func() bool {
						// a parameter passed through (tx.ForEach's fn): analysed at the caller's call site
						_, isParam := resolveCell(call.Call.Args[1]).(*ssa.Parameter)
						return isParam
					}(), "callback of unknown origin")
					continue
				}
				// the cell / value the iterated receiver comes from
				var recvCell ssa.Value
				if ld, ok := recv.(*ssa.UnOp); ok && ld.Op == token.MUL {
					recvCell = ld.X
				}
				bad := ""
				for _, f := range withAnons(cb) {
					eachInstr(f, func(in ssa.Instruction) {
						mcall, ok := in.(*ssa.Call)
						if !ok || !treeMutators[calleeOf(mcall).Name()] || len(mcall.Call.Args) == 0 {
							return
						}
						r := mcall.Call.Args[0]
						same := r == recv
						if b := bindingOf(r, mc); b != nil && (b == recv || (recvCell != nil && b == recvCell)) {
							same = true
						}
						// tx.ForEach iterates tx.root: a Tx-level mutator on the same tx mutates the iterated bucket
						if iter == "bbolt.(*Tx).ForEach" && strings.HasPrefix(calleeOf(mcall).Name(), "bbolt.(*Tx).") {
							if b := bindingOf(r, mc); b == recv || r == recv {
								same = true
							}
						}
						if same {
							bad = fmt.Sprintf("callback->%s", calleeOf(mcall).Name())
						}
					})
				}
				key := fmt.Sprintf("%s:%s:%s#%d", id, name, short, k)
				if bad != "" {
					key = fmt.Sprintf("%s:%s:%s", id, name, bad)
				}
				c.check(key, fn, call.Pos(), "the callback given to "+short+" calls no mutator on the bucket being iterated (the cursor's position would be invalidated: elements skipped, pages leaked)", bad == "",
					"the callback mutates the bucket it iterates over ("+bad+"): with the leaf already materialised, deleting shifts the inodes under the live cursor and every other element is skipped")
			}
		}
	})
}

func c07R3(c *Ctx, id string) {
	c.rule(id, "freelist-pointer-redefined", 3, func() {
		commit := c.fn("bbolt.(*Tx).Commit")
		frees := callsIn(commit, "freelist.Interface.Free")
		cfs := plainCallsIn(commit, "bbolt.(*Tx).commitFreelist")
		write := c.theCall(id, commit, "bbolt.(*Tx).write")
		spill := c.theCall(id, commit, "bbolt.(*Bucket).spill")
		if write == nil || spill == nil {
			return
		}
		ok := len(frees) == 1 && len(cfs) == 1
		detail := fmt.Sprintf("%d Free, %d commitFreelist calls", len(frees), len(cfs))
		if ok {
			fr := frees[0].(ssa.Instruction)
			// guarded by meta.Freelist() != PgidNoFreelist
			guarded := false
			for b := fr.Block(); b != nil; b = b.Idom() {
				iff, isIf := b.Instrs[len(b.Instrs)-1].(*ssa.If)
				if !isIf {
					continue
				}
				bo, isBin := iff.Cond.(*ssa.BinOp)
				if !isBin || bo.Op != token.NEQ {
					continue
				}
				call, isCall := bo.X.(*ssa.Call)
				if v, isC := constUint(bo.Y); isCall && calleeOf(call).Name() == "common.(*Meta).Freelist" && isC && v == ^uint64(0) && blockDominatedByEdge(b, b.Succs[0], fr.Block()) {
					guarded = true
				}
			}
			if !guarded {
				ok = false
				detail = "the old freelist page is not freed under `meta.Freelist() != PgidNoFreelist`"
			}
			// the page freed is db.page(meta.Freelist())
			ls := provenance(frees[0].Common().Args[1], provOpts{ThroughCall: throughAll})
			if !(hasLeaf(ls, "call", "bbolt.(*DB).page") && hasLeaf(ls, "call", "common.(*Meta).Freelist")) {
				ok = false
				detail = "the page freed is not the old freelist page"
			}
			// freed before the new one is allocated
			if reach([]ssa.Instruction{cfs[0]}, nil, nil, nil)[fr] || !reach([]ssa.Instruction{fr}, nil, nil, nil)[cfs[0]] {
				ok = false
				detail = "the old freelist page must be freed before commitFreelist allocates the new one"
			}
		}
		c.check(id+":(*Tx).Commit:old-freelist-freed", commit, commit.Pos(), "the old freelist page (if any) is handed to Free before the new freelist is allocated", ok, detail)
		// every path from spill to write redefines meta.freelist
		redefine := func(in ssa.Instruction) bool {
			return isCallTo(in, "common.(*Meta).SetFreelist") || in == ssa.Instruction(cfsOrNil(cfs))
		}
		r := reach([]ssa.Instruction{spill}, nil, redefine, nil)
		c.check(id+":(*Tx).Commit:freelist-pointer-set", commit, commit.Pos(), "every path from spill to tx.write assigns the meta's freelist pointer (commitFreelist -> SetFreelist(p.Id()), or SetFreelist(PgidNoFreelist))", !r[write],
			"tx.write is reachable with the meta still pointing at the freed freelist page")
		// NoFreelistSync arm stores the constant
		okNF := false
		for _, call := range plainCallsIn(commit, "common.(*Meta).SetFreelist") {
			if v, isC := constUint(call.Call.Args[1]); isC && v == ^uint64(0) {
				okNF = true
			}
		}
		cf := c.fn("bbolt.(*Tx).commitFreelist")
		sets := plainCallsIn(cf, "common.(*Meta).SetFreelist")
		okCF := len(sets) == 1
		if okCF {
			rr := reach(nil, []*ssa.BasicBlock{cf.Blocks[0]}, func(in ssa.Instruction) bool { return in == sets[0] }, nil)
			for _, ret := range successReturns(cf) {
				if rr[ret] {
					okCF = false
				}
			}
			ls := provenance(sets[0].Call.Args[1], provOpts{ThroughCall: throughAll})
			if !(hasLeaf(ls, "call", "common.(*Page).Id") && hasLeaf(ls, "call", "bbolt.(*Tx).allocate")) {
				okCF = false
			}
			// the freelist is written into that very page
			wr := callsIn(cf, "freelist.ReadWriter.Write")
			if len(wr) != 1 {
				okCF = false
			}
		}
		c.check(id+":(*Tx).commitFreelist:sets-pointer", cf, cf.Pos(), "commitFreelist writes the free list into the page it allocated and points the meta at it on every success path; the NoFreelistSync arm stores PgidNoFreelist", okCF && okNF, fmt.Sprintf("commitFreelist ok=%v, NoFreelistSync arm ok=%v", okCF, okNF))
	})
}

func cfsOrNil(cfs []*ssa.Call) *ssa.Call {
	if len(cfs) > 0 {
		return cfs[0]
	}
	return nil
}

func c07R4(c *Ctx, id string) {
	c.rule(id, "bucket-free-complete", 3, func() {
		bf := c.fn("bbolt.(*Bucket).free")
		okArms := false
		for _, fe := range plainCallsIn(bf, "bbolt.(*Bucket).forEachPageNode") {
			cl := closureOf(fe.Call.Args[1])
			if cl == nil {
				continue
			}
			fr := callsIn(cl, "freelist.Interface.Free")
			nf := plainCallsIn(cl, "bbolt.(*node).free")
			if len(fr) == 1 && len(nf) == 1 {
				// Free(p) on p != nil, n.free() otherwise
				a := fr[0].Common().Args[1]
				if p, isP := a.(*ssa.Parameter); isP && p == cl.Params[0] && nf[0].Call.Args[0] == ssa.Value(cl.Params[1]) {
					okArms = fr[0].(ssa.Instruction).Block() != nf[0].Block()
				}
			}
		}
		c.check(id+":(*Bucket).free:both-arms", bf, bf.Pos(), "Bucket.free enumerates with forEachPageNode and frees on-disk pages (Free(p)) and materialised nodes (n.free()) alike", okArms, "one arm is missing")
		// forEachPageNode visits nodes AND pages, recursing through both
		fpn := c.fn("bbolt.(*Bucket)._forEachPageNode")
		rec := plainCallsIn(fpn, "bbolt.(*Bucket)._forEachPageNode")
		c.check(id+":(*Bucket)._forEachPageNode:recursion", fpn, fpn.Pos(), "the enumeration recurses through branch pages and through materialised branch nodes", len(rec) == 2 && len(plainCallsIn(fpn, "bbolt.(*Bucket).pageNode")) == 1, fmt.Sprintf("%d recursive calls", len(rec)))
		db := c.fn("bbolt.(*Bucket).DeleteBucket")
		frees := plainCallsIn(db, "bbolt.(*Bucket).free")
		dels := plainCallsIn(db, "bbolt.(*node).del")
		recs := plainCallsIn(db, "bbolt.(*Bucket).DeleteBucket")
		ok := len(frees) == 1 && len(dels) == 1
		detail := fmt.Sprintf("%d free, %d node.del", len(frees), len(dels))
		if ok {
			if !dominates(frees[0], dels[0]) {
				ok = false
				detail = "the key is removed before the bucket's pages were freed"
			}
			for _, f := range withAnons(db) {
				recs = append(recs, plainCallsIn(f, "bbolt.(*Bucket).DeleteBucket")...)
			}
			if len(recs) == 0 {
				ok = false
				detail = "nested buckets are not deleted recursively"
			}
			for _, rc := range recs {
				if rc.Parent() == db && reach([]ssa.Instruction{frees[0]}, nil, nil, nil)[rc] {
					ok = false
					detail = "nested buckets are deleted after the parent bucket was freed"
				}
			}
			// the nested buckets are enumerated on EVERY path to the free: whether the doomed bucket is inline (root page 0)
			// says nothing about what a MoveBucket of this transaction put into it
			var enums []ssa.Instruction
			for _, fe := range callsIn(db, "bbolt.(*Bucket).ForEachBucket") {
				enums = append(enums, fe.(ssa.Instruction))
			}
			if len(enums) == 0 {
				ok = false
				detail = "the nested buckets of the doomed bucket are not enumerated"
			} else {
				r := reach(nil, []*ssa.BasicBlock{db.Blocks[0]}, func(in ssa.Instruction) bool {
					for _, e := range enums {
						if e == in {
							return true
						}
					}
					return false
				}, nil)
				if r[frees[0]] {
					ok = false
					detail = "the bucket can be freed without its nested buckets having been enumerated and deleted (a bucket moved into an inline / new bucket in this transaction keeps its pages)"
				}
			}
			// the bucket freed is the one opened under the key
			ls := provenance(frees[0].Call.Args[0], provOpts{})
			if !hasLeaf(ls, "call", "bbolt.(*Bucket).Bucket") {
				ok = false
				detail = "free is not applied to the bucket opened under the deleted key"
			}
		}
		c.check(id+":(*Bucket).DeleteBucket:order", db, db.Pos(), "DeleteBucket deletes nested buckets first, then frees the bucket's pages, then removes its key", ok, detail)
	})
}
