package main

import (
	"fmt"
	"go/token"
	"go/types"
	"strings"

	"golang.org/x/tools/go/ssa"
)

const rootPkg = modulePath

func init() {
	register(&propDef{
		ID: "C01",
		Explanation: "Decided: the write-ahead SHAPE of commit on every control-flow path — dirty pages, barrier, meta page, barrier, in that order; " +
			"the only functions that write the data file are init/write/writeMeta (+grow's truncate); no error of the I/O layer is dropped; " +
			"the meta page goes to slot txid%2 and is checksummed after its last modification; db.meta() picks the valid meta with the larger txid. " +
			"NOT decided: that the page set written is the right one, torn-sector behaviour, what recovery reads after a crash (value-level; see C11 for checksum coverage), NoSync caveats. Round 3: no page can be allocated between the decision to grow the file and tx.write (the truncate+fsync covers every page of the commit). Round 3: each option reaches the DB switch of the same name in Open.",
		Run: func(c *Ctx) {
			ruleOptionsWiredByName(c, "C01.R12") // NoSync / NoGrowSync are the documented exclusions: no other option may end up in those switches
			c01R1(c, "C01.R1")
			ruleSyncAfterWrite(c, "C01.R2")
			ruleFdatasyncSibling(c, "C01.R3")
			c01R4(c, "C01.R4")
			ruleFileWriterAllowList(c, "C01.R5")
			ruleIOErrorDiscipline(c, "C01.R6")
			ruleMetaSlot(c, "C01.R7")
			ruleChecksumAfterMutation(c, "C01.R8", 5)
			// crash atomicity needs copy-on-write: until the new meta is durable, nothing the durable meta references may be overwritten,
			// so the pages tx.write puts on disk must come from the allocator only (re-evaluation of C06.R1/R2)
			c06R2(c, "C01.R9")
			c06R1(c, "C01.R10")
			ruleFreeSetEntry(c, "C01.R11") // after a crash in mid-commit the previous meta is the database: its pages must not have been recycled by the commit in flight
		},
		Platform: func(c *Ctx) {
			ruleFdatasyncSibling(c, "C01.R3")
			ruleSyncAfterWrite(c, "C01.R2")
			ruleFileWriterAllowList(c, "C01.R5")
		},
		Platforms: []platform{{"openbsd", "amd64"}, {"darwin", "arm64"}, {"windows", "amd64"}, {"solaris", "amd64"}, {"aix", "ppc64"}, {"android", "arm64"}, {"freebsd", "amd64"}, {"linux", "386"}},
		CHA: func(c *Ctx) {
			ruleFileWriterAllowList(c, "C01.R5")
		},
	})
}

// ---- helpers shared by several rules

// theCall expects exactly one plain call to callee in fn.
func (c *Ctx) theCall(rule string, fn *ssa.Function, callee string) *ssa.Call {
	calls := plainCallsIn(fn, callee)
	if len(calls) != 1 {
		c.check(rule+":"+shortFn(fn)+":call-"+callee, fn, token.NoPos, fmt.Sprintf("exactly one call to %s", callee), false,
			fmt.Sprintf("found %d calls to %s in %s", len(calls), callee, shortFn(fn)))
		return nil
	}
	return calls[0]
}

func successReturns(fn *ssa.Function) []*ssa.Return {
	var out []*ssa.Return
	for _, r := range returnsOf(fn) {
		if classifyReturn(r) == retSuccess {
			out = append(out, r)
		}
	}
	return out
}

func nonErrorReturns(fn *ssa.Function) []*ssa.Return {
	var out []*ssa.Return
	for _, r := range returnsOf(fn) {
		if cl := classifyReturn(r); cl == retSuccess || cl == retPass || cl == retNone {
			out = append(out, r)
		}
	}
	return out
}

func instrsAsList[T ssa.Instruction](xs []T) []ssa.Instruction {
	out := make([]ssa.Instruction, len(xs))
	for i, x := range xs {
		out[i] = x
	}
	return out
}

func isCallTo(in ssa.Instruction, names ...string) bool {
	ci, ok := in.(ssa.CallInstruction)
	if !ok {
		return false
	}
	n := calleeOf(ci).Name()
	for _, x := range names {
		if n == x {
			return true
		}
	}
	return false
}

// evalCondEnv evaluates a branch condition under an assignment of boolean
// struct fields; ok=false if it is not determined by the assignment.
func evalCondEnv(v ssa.Value, env map[*types.Var]bool) (val bool, ok bool) {
	switch x := v.(type) {
	case *ssa.Const:
		return constBool(x)
	case *ssa.Call:
		// one-line accessors of an assumed field: b.Writable() / tx.Writable() return tx.writable
		if n := calleeOf(x).Name(); n == "bbolt.(*Bucket).Writable" || n == "bbolt.(*Tx).Writable" {
			for f, val := range env {
				if f.Name() == "writable" {
					return val, true
				}
			}
		}
	case *ssa.UnOp:
		if x.Op == token.NOT {
			b, ok := evalCondEnv(x.X, env)
			return !b, ok
		}
		if x.Op == token.MUL {
			if fa, isfa := x.X.(*ssa.FieldAddr); isfa {
				if b, has := env[fieldOfAddr(fa)]; has {
					return b, true
				}
			}
		}
	case *ssa.BinOp:
		if (x.Op == token.EQL || x.Op == token.NEQ) && (isNilConst(x.X) || isNilConst(x.Y)) {
			// pointer-typed field in env: the bool says "is non-nil"
			other := x.X
			if isNilConst(other) {
				other = x.Y
			}
			if ld, ok := other.(*ssa.UnOp); ok && ld.Op == token.MUL {
				if fa, isfa := ld.X.(*ssa.FieldAddr); isfa {
					if nonNil, has := env[fieldOfAddr(fa)]; has {
						if x.Op == token.EQL {
							return !nonNil, true
						}
						return nonNil, true
					}
				}
			}
			return false, false
		}
		if x.Op == token.EQL || x.Op == token.NEQ {
			a, ok1 := evalCondEnv(x.X, env)
			b, ok2 := evalCondEnv(x.Y, env)
			if ok1 && ok2 {
				if x.Op == token.EQL {
					return a == b, true
				}
				return a != b, true
			}
		}
	}
	return false, false
}

// cutByEnv prunes the CFG edges that are infeasible under env (and edges of
// branches on build-time constants).
func cutByEnv(env map[*types.Var]bool) func(e edge) bool {
	return func(e edge) bool {
		if len(e.from.Instrs) == 0 {
			return false
		}
		iff, ok := e.from.Instrs[len(e.from.Instrs)-1].(*ssa.If)
		if !ok {
			return false
		}
		b, known := evalCondEnv(iff.Cond, env)
		if !known {
			return false
		}
		// succ 0 is the true edge
		return (e.succ == 0) != b
	}
}

func (c *Ctx) dbField(name string) *types.Var {
	f := c.P.lookupField(rootPkg, "DB", name)
	if f == nil {
		panic(anchorErr{"DB." + name})
	}
	return f
}

// ---- C01.R1 ordering facts in Commit

func c01R1(c *Ctx, id string) {
	c.rule(id, "commit-order", 6, func() {
		commit := c.fn("bbolt.(*Tx).Commit")
		write := c.theCall(id, commit, "bbolt.(*Tx).write")
		wmeta := c.theCall(id, commit, "bbolt.(*Tx).writeMeta")
		spill := c.theCall(id, commit, "bbolt.(*Bucket).spill")
		grow := c.theCall(id, commit, "bbolt.(*DB).grow")
		closeC := c.theCall(id, commit, "bbolt.(*Tx).close")
		if write == nil || wmeta == nil || spill == nil || grow == nil || closeC == nil {
			return
		}
		// (1) write dominates writeMeta, through write's success edge
		ok := dominates(write, wmeta)
		if ok {
			for _, t := range errTests(write) {
				r := reach(nil, []*ssa.BasicBlock{t.NonNil}, nil, nil)
				if r[wmeta] {
					ok = false
				}
			}
			if len(errTests(write)) == 0 {
				ok = false
			}
		}
		c.check(id+":(*Tx).Commit:write<writeMeta", commit, wmeta.Pos(), "tx.write() (dirty pages + barrier) dominates tx.writeMeta(), and writeMeta is unreachable from write's error edge", ok,
			"the meta page can be written although the data pages were not (successfully) written first")

		// (2) every success return passes through writeMeta's success edge
		r := reach(nil, []*ssa.BasicBlock{commit.Blocks[0]}, func(in ssa.Instruction) bool { return in == wmeta }, nil)
		bad := ""
		for _, ret := range nonErrorReturns(commit) {
			if r[ret] {
				bad = c.P.Position(ret.Pos())
			}
		}
		for _, t := range errTests(wmeta) {
			rr := reach(nil, []*ssa.BasicBlock{t.NonNil}, nil, nil)
			for _, ret := range nonErrorReturns(commit) {
				if rr[ret] {
					bad = "error edge of writeMeta reaches success return at " + c.P.Position(ret.Pos())
				}
			}
		}
		if len(errTests(wmeta)) == 0 {
			bad = "writeMeta's error is not tested"
		}
		c.check(id+":(*Tx).Commit:writeMeta<success", commit, wmeta.Pos(), "every non-error return of Commit is reached only through the success edge of writeMeta", bad == "",
			"success return reachable without a successful meta write: "+bad)

		// (3) the old high-water mark is read before spill and compared after it
		var guard *ssa.If
		okHW := false
		detail := "no branch `meta.Pgid() > opgid` controls the grow call"
		for b := grow.Block(); b != nil; b = b.Idom() {
			if len(b.Instrs) == 0 {
				continue
			}
			iff, isIf := b.Instrs[len(b.Instrs)-1].(*ssa.If)
			if !isIf || !blockDominatedByEdge(b, b.Succs[0], grow.Block()) {
				continue
			}
			bo, isBin := iff.Cond.(*ssa.BinOp)
			if !isBin || (bo.Op != token.GTR && bo.Op != token.LSS) {
				continue
			}
			cur, old := bo.X, bo.Y
			if bo.Op == token.LSS {
				cur, old = old, cur
			}
			cc, ok1 := cur.(*ssa.Call)
			oc, ok2 := old.(*ssa.Call)
			if ok1 && ok2 && calleeOf(cc).Name() == "common.(*Meta).Pgid" && calleeOf(oc).Name() == "common.(*Meta).Pgid" {
				guard = iff
				if dominates(oc, spill) && dominates(spill, cc) {
					okHW = true
				} else {
					detail = "the old mark must be read before spill and the new one after it"
				}
				break
			}
		}
		c.check(id+":(*Tx).Commit:opgid<spill", commit, spill.Pos(), "old high-water mark read before spill; grow is controlled by `meta.Pgid() > opgid` evaluated after spill", okHW, detail)

		// (4) on that branch grow dominates write (through its success edge)
		ok4 := false
		if guard != nil {
			rr := reach(nil, []*ssa.BasicBlock{guard.Block().Succs[0]}, func(in ssa.Instruction) bool { return in == grow }, nil)
			ok4 = !rr[write] && len(errTests(grow)) > 0
			for _, t := range errTests(grow) {
				if reach(nil, []*ssa.BasicBlock{t.NonNil}, nil, nil)[write] {
					ok4 = false
				}
			}
		}
		c.check(id+":(*Tx).Commit:grow<write", commit, grow.Pos(), "when the high-water mark moved, db.grow() succeeds before tx.write() (no pwrite beyond the truncated size)", ok4,
			"tx.write reachable on the grown branch without a successful db.grow")

		// (6) nothing between the grow decision and tx.write can raise the high-water mark: the size handed to grow
		// must cover every page of this transaction (the new free-list pages included), so no allocation may follow it
		{
			allocs := map[string]bool{
				"bbolt.(*Tx).allocate": true, "bbolt.(*DB).allocate": true, "bbolt.(*Bucket).spill": true, "bbolt.(*node).spill": true,
				"bbolt.(*Tx).commitFreelist": true, "common.(*Meta).SetPgid": true,
			}
			var from []ssa.Instruction
			if guard != nil {
				from = append(from, guard)
			}
			from = append(from, grow)
			region6 := reach(from, nil, func(in ssa.Instruction) bool { return in == write }, nil)
			bad6 := ""
			n6 := 0
			for in := range region6 {
				ci, isCall := in.(ssa.CallInstruction)
				if !isCall || in == write || in == ssa.Instruction(grow) {
					continue
				}
				if isCallTo(in, "bbolt.(*Tx).rollback") {
					continue
				}
				n6++
				if p := c.siteReaches(ci, allocs, map[string]bool{"bbolt.(*Tx).rollback": true}); p != nil {
					bad6 = fmt.Sprintf("%s: %s", c.P.Position(in.Pos()), strings.Join(p, " -> "))
				}
			}
			c.check(id+":(*Tx).Commit:no-allocation-after-grow", commit, grow.Pos(),
				fmt.Sprintf("no call between the decision to grow the file and tx.write() can allocate pages (%d call sites examined): the truncate+fsync covers every page this commit writes, so a crash cannot leave the committed meta pointing beyond the durable end of file", n6), bad6 == "" && guard != nil,
				"pages can be allocated at the high-water mark after the file size for this commit was fixed: "+bad6)
		}

		// (5) nothing between write and close can dirty or allocate a page
		dirty := map[string]bool{
			"bbolt.(*Tx).allocate": true, "bbolt.(*DB).allocate": true, "bbolt.(*Bucket).spill": true, "bbolt.(*node).spill": true,
			"bbolt.(*Bucket).rebalance": true, "bbolt.(*node).rebalance": true, "bbolt.(*node).put": true, "bbolt.(*node).del": true,
			"freelist.(*shared).Free": true, "freelist.(*shared).Write": true, "freelist.(*array).Allocate": true, "freelist.(*hashMap).Allocate": true,
			"freelist.Interface.Free": true, "freelist.Interface.Write": true, "freelist.ReadWriter.Write": true, "freelist.Interface.Allocate": true,
			"bbolt.(*Tx).commitFreelist": true,
		}
		region := reach([]ssa.Instruction{write}, nil, func(in ssa.Instruction) bool { return in == closeC }, nil)
		bad5 := ""
		n := 0
		for in := range region {
			ci, isCall := in.(ssa.CallInstruction)
			if !isCall || in == closeC {
				continue
			}
			if isCallTo(in, "bbolt.(*Tx).rollback") {
				continue // error exits: the transaction is abandoned
			}
			n++
			if p := c.siteReaches(ci, dirty, map[string]bool{"bbolt.(*Tx).rollback": true}); p != nil {
				bad5 = fmt.Sprintf("%s: %s", c.P.Position(in.Pos()), strings.Join(p, " -> "))
			}
		}
		c.check(id+":(*Tx).Commit:no-dirty-after-write", commit, write.Pos(),
			fmt.Sprintf("no call between tx.write() and tx.close() reaches spill/allocate/Free/freelist.Write (%d call sites examined through the call graph)", n), bad5 == "" && region[closeC],
			"a page can be dirtied or allocated after the dirty pages were written: "+bad5)
	})
}

// ---- C01.R2 sync after write, bypass only under NoSync

func ruleSyncAfterWrite(c *Ctx, id string) {
	c.rule(id, "sync-after-writeAt", 3, func() {
		wf := c.dbField("ops.writeAt")
		noSync := c.dbField("NoSync")
		for _, fn := range c.P.FnsIn(rootPkg) {
			ws := fieldCallsIn(fn, wf)
			if len(ws) == 0 {
				continue
			}
			name := shortFn(fn)
			// a sync point is a call to the platform fdatasync, or to a package function that
			// (with NoSync unset) cannot return success without having passed one (a wrapper)
			var syncs []ssa.CallInstruction
			eachInstr(fn, func(in ssa.Instruction) {
				if ci, ok := in.(ssa.CallInstruction); ok && isSyncCall(ci, noSync, 0) {
					syncs = append(syncs, ci)
				}
			})
			isSync := func(in ssa.Instruction) bool {
				for _, s := range syncs {
					if s == in {
						return true
					}
				}
				return false
			}
			// (a) with NoSync=false every success path from a writeAt passes fdatasync
			cut := cutByEnv(map[*types.Var]bool{noSync: false})
			if name == "bbolt.(*DB).init" {
				cut = cutByEnv(map[*types.Var]bool{}) // no bypass at all
			}
			var starts []*ssa.BasicBlock
			okTests := true
			for _, w := range ws {
				call, isCall := w.(*ssa.Call)
				if !isCall {
					okTests = false
					continue
				}
				ts := errTests(call)
				if len(ts) == 0 {
					okTests = false
				}
				for _, t := range ts {
					starts = append(starts, t.Nil)
				}
			}
			r := reach(nil, starts, isSync, cut)
			bad := ""
			for _, ret := range nonErrorReturns(fn) {
				if r[ret] {
					bad = c.P.Position(ret.Pos())
				}
			}
			fact := "after a successful writeAt, a success return is reached only through fdatasync (bypass only when NoSync is set and IgnoreNoSync is false)"
			if name == "bbolt.(*DB).init" {
				fact = "after a successful writeAt, a success return is reached only through fdatasync (no bypass)"
			}
			c.check(id+":"+name+":sync-before-success", fn, ws[0].Pos(), fact, bad == "" && okTests && len(syncs) > 0,
				"success return at "+bad+" reachable from writeAt without fdatasync when NoSync=false")
			// (b) no writeAt after the sync
			after := reach(instrsAsList(syncs), nil, nil, nil)
			bad2 := ""
			for _, w := range ws {
				if after[w] {
					bad2 = c.P.Position(w.Pos())
				}
			}
			c.check(id+":"+name+":no-write-after-sync", fn, ws[0].Pos(), "no writeAt is reachable after the fdatasync call", bad2 == "",
				"writeAt at "+bad2+" is reachable after the barrier")
			// (c) the sync error is returned
			for _, s := range syncs {
				sc, isCall := s.(*ssa.Call)
				okE := isCall
				if isCall {
					okE = errorHandled(sc) == ""
				}
				c.check(id+":"+name+":sync-error-returned", fn, s.Pos(), "a failing fdatasync makes the function return an error", okE, "fdatasync error not propagated")
			}
		}
	})
}

// isSyncCall: fdatasync itself, or a wrapper around it (bounded depth).
func isSyncCall(ci ssa.CallInstruction, noSync *types.Var, depth int) bool {
	callee := calleeOf(ci).Static
	if callee == nil {
		return false
	}
	if shortFn(callee) == "bbolt.fdatasync" {
		return true
	}
	pk := fnPkg(callee)
	if depth >= 2 || pk == nil || pk.Path() != rootPkg || len(callee.Blocks) == 0 || errResultIndex(callee.Signature) < 0 {
		return false
	}
	var inner []ssa.Instruction
	eachInstr(callee, func(in ssa.Instruction) {
		if c2, ok := in.(ssa.CallInstruction); ok && c2 != ci && isSyncCall(c2, noSync, depth+1) {
			inner = append(inner, in)
		}
	})
	if len(inner) == 0 {
		return false
	}
	stop := func(in ssa.Instruction) bool {
		for _, x := range inner {
			if x == in {
				return true
			}
		}
		return false
	}
	r := reach(nil, []*ssa.BasicBlock{callee.Blocks[0]}, stop, cutByEnv(map[*types.Var]bool{noSync: false}))
	for _, ret := range nonErrorReturns(callee) {
		if r[ret] {
			return false
		}
	}
	return true
}

// ---- C01.R3 the platform's fdatasync hands the descriptor to a sync primitive

func ruleFdatasyncSibling(c *Ctx, id string) {
	c.rule(id, "fdatasync-sibling", 1, func() {
		accepted := map[string]bool{"syscall.Fdatasync": true, "os.(*File).Sync": true, "unix.Msync": true, "windows.FlushFileBuffers": true, "unix.Fdatasync": true, "syscall.Fsync": true, "unix.Fsync": true}
		var checkFn func(fn *ssa.Function, depth int) string
		checkFn = func(fn *ssa.Function, depth int) string {
			rets := returnsOf(fn)
			if len(rets) == 0 {
				return "no return"
			}
			for _, r := range rets {
				call, ok := returnedValue(r, 0).(*ssa.Call)
				if !ok {
					return "returns a value that is not the result of the sync primitive at " + c.P.Position(r.Pos())
				}
				callee := calleeOf(call)
				n := callee.Name()
				if accepted[n] {
					// the object synced must be db.file / db.data
					okArg := false
					for _, a := range call.Call.Args {
						ls := provenance(a, provOpts{ThroughCall: func(*ssa.Call) bool { return true }})
						if hasFieldLeaf(ls, "file") || hasFieldLeaf(ls, "data") {
							okArg = true
						}
					}
					if !okArg {
						return n + " is not applied to db.file / db.data at " + c.P.Position(call.Pos())
					}
					continue
				}
				if callee.Static != nil && inModule(callee.Static) && depth < 2 {
					if msg := checkFn(callee.Static, depth+1); msg != "" {
						return msg
					}
					continue
				}
				return "returns the result of " + n + ", which is not a sync primitive"
			}
			return ""
		}
		fn := c.fn("bbolt.fdatasync")
		msg := checkFn(fn, 0)
		c.check(id+":bbolt.fdatasync:primitive", fn, fn.Pos(), "every return of fdatasync is the unchanged result of Fdatasync/File.Sync/Msync applied to db.file (or the mapping)", msg == "", msg)
	})
}

// ---- C01.R4 grow: truncate then sync

func c01R4(c *Ctx, id string) {
	c.rule(id, "grow-truncate-sync", 2, func() {
		grow := c.fn("bbolt.(*DB).grow")
		truncs := plainCallsIn(grow, "os.(*File).Truncate")
		syncs := plainCallsIn(grow, "os.(*File).Sync")
		if len(truncs) != 1 || len(syncs) != 1 {
			c.check(id+":(*DB).grow:calls", grow, grow.Pos(), "one Truncate and one Sync call", false, fmt.Sprintf("found %d Truncate, %d Sync", len(truncs), len(syncs)))
			return
		}
		tr, sy := truncs[0], syncs[0]
		var starts []*ssa.BasicBlock
		for _, t := range errTests(tr) {
			starts = append(starts, t.Nil)
		}
		r := reach(nil, starts, func(in ssa.Instruction) bool { return in == sy }, cutByEnv(map[*types.Var]bool{}))
		bad := ""
		for _, ret := range nonErrorReturns(grow) {
			if r[ret] {
				bad = c.P.Position(ret.Pos())
			}
		}
		c.check(id+":(*DB).grow:truncate<sync<success", grow, tr.Pos(), "the success edge of file.Truncate reaches a success return only through file.Sync (whose error is returned)",
			bad == "" && len(starts) > 0 && errorHandled(sy) == "", "success return at "+bad+" reachable after Truncate without Sync")
		// gating conditions read no boolean DB option other than NoGrowSync / readOnly
		allowed := map[*types.Var]bool{c.dbField("NoGrowSync"): true, c.dbField("readOnly"): true}
		dbT := c.P.Pkg(rootPkg).Types.Scope().Lookup("DB").Type().Underlying().(*types.Struct)
		isDBBool := func(v *types.Var) bool {
			for i := 0; i < dbT.NumFields(); i++ {
				if dbT.Field(i) == v {
					b, ok := v.Type().Underlying().(*types.Basic)
					return ok && b.Kind() == types.Bool
				}
			}
			return false
		}
		badGate := ""
		gates := 0
		for _, target := range []*ssa.Call{tr, sy} {
			for b := target.Block().Idom(); b != nil; b = b.Idom() {
				iff, isIf := b.Instrs[len(b.Instrs)-1].(*ssa.If)
				if !isIf {
					continue
				}
				// does one successor fail to reach the target?
				gating := false
				for _, s := range b.Succs {
					if !reach(nil, []*ssa.BasicBlock{s}, nil, nil)[target] {
						gating = true
					}
				}
				if !gating {
					continue
				}
				gates++
				for f := range fieldsReadIn(iff.Cond) {
					if isDBBool(f) && !allowed[f] {
						badGate = "DB." + f.Name() + " at " + c.P.Position(iff.Cond.Pos())
					}
				}
			}
		}
		c.check(id+":(*DB).grow:gates", grow, tr.Pos(), fmt.Sprintf("the %d branches gating Truncate/Sync read no boolean DB option other than NoGrowSync and readOnly", gates), badGate == "" && gates > 0,
			"truncate+sync is additionally gated by "+badGate)
	})
}

// errorHandled implements T3 for one call: "" if the error result is
// propagated, otherwise a description of how it is lost.
func errorHandled(call *ssa.Call) string {
	ev := errValueOf(call)
	if ev == nil {
		if errResultIndex(call.Call.Signature()) < 0 {
			return ""
		}
		return "the error result is discarded"
	}
	fn := call.Parent()
	tests := nilTestsOf(ev)
	// returned directly (tail call / unconditional return of the value)? Only when it is never tested:
	// a value that is tested must be judged by what its non-nil edge does.
	if len(tests) == 0 {
		for _, r := range *ev.Referrers() {
			if _, ok := r.(*ssa.Return); ok {
				return ""
			}
		}
		// the value flows into a result variable (a phi) that is returned or tested: `r = f(); break ... return r`
		seen := map[ssa.Value]bool{}
		work := []ssa.Value{ev}
		for len(work) > 0 && len(seen) < 16 {
			v := work[0]
			work = work[1:]
			if seen[v] || v.Referrers() == nil {
				continue
			}
			seen[v] = true
			for _, r := range *v.Referrers() {
				if ph, ok := r.(*ssa.Phi); ok {
					for _, rr := range *ph.Referrers() {
						if _, isRet := rr.(*ssa.Return); isRet {
							return ""
						}
					}
					tests = append(tests, nilTestsOf(ph)...)
					work = append(work, ph)
				}
			}
		}
	}
	if len(tests) == 0 {
		// stored into a named result that is returned? (`err = f(); return err` without test)
		for _, r := range *ev.Referrers() {
			if st, ok := r.(*ssa.Store); ok {
				for _, ld := range loadsReachedByStore(st) {
					for _, rr := range *ld.Referrers() {
						if _, ok := rr.(*ssa.Return); ok {
							return ""
						}
						if st2, ok := rr.(*ssa.Store); ok {
							_ = st2
							return ""
						}
					}
				}
			}
		}
		return "the error result is never tested nor returned"
	}
	for _, t := range tests {
		// On the non-nil edge the error may be parked in a result variable (a phi) that is tested again further down
		// (`r = err; break` ... `if r != nil { return r }`): on these paths the phi IS the non-nil error, so the nil
		// edge of that second test is infeasible and is cut.
		r0 := reach(nil, []*ssa.BasicBlock{t.NonNil}, nil, nil)
		cutPhi := func(e edge) bool {
			iff, ok := e.from.Instrs[len(e.from.Instrs)-1].(*ssa.If)
			if !ok {
				return false
			}
			bo, ok := iff.Cond.(*ssa.BinOp)
			if !ok || (bo.Op != token.EQL && bo.Op != token.NEQ) {
				return false
			}
			v := bo.X
			if isNilConst(v) {
				v = bo.Y
			} else if !isNilConst(bo.Y) {
				return false
			}
			ph, ok := v.(*ssa.Phi)
			if !ok {
				return false
			}
			some := false
			for i, p := range ph.Block().Preds {
				live := p == t.NonNil || r0[p.Instrs[len(p.Instrs)-1]]
				if !live {
					continue
				}
				if ph.Edges[i] != ev {
					return false
				}
				some = true
			}
			if !some {
				return false
			}
			nilSucc := 0
			if bo.Op == token.NEQ {
				nilSucc = 1
			}
			return e.succ == nilSucc
		}
		r := reach(nil, []*ssa.BasicBlock{t.NonNil}, nil, cutPhi)
		sawExit := false
		for in := range r {
			switch x := in.(type) {
			case *ssa.Return:
				cl := classifyReturn(x)
				if cl == retSuccess && blockDominatedByEdge(t.If.Block(), t.NonNil, x.Block()) {
					return "the non-nil edge returns success"
				}
				if cl == retSuccess && !collectsError(t.NonNil, ev) {
					return "the non-nil edge can reach a success return"
				}
				sawExit = true
			case *ssa.Panic:
				sawExit = true
			}
		}
		if !sawExit {
			return "the non-nil edge reaches no return"
		}
		_ = fn
	}
	return ""
}

// collectsError: the branch stores the error (or a wrap of it) into an
// error-typed cell or appends it to a slice — the "errs = append(errs, err)" and
// "named result assigned in a deferred closure" idioms.
func collectsError(b *ssa.BasicBlock, ev ssa.Value) bool {
	for _, in := range b.Instrs {
		switch x := in.(type) {
		case *ssa.Call:
			if calleeOf(x).Builtin == "append" {
				return true
			}
		case *ssa.Store:
			if isErrorType(x.Val.Type()) {
				if _, ok := x.Addr.(*ssa.FreeVar); ok {
					return true
				}
			}
		}
	}
	return false
}
