package main

import (
	"fmt"
	"go/types"
	"strings"

	"golang.org/x/tools/go/ssa"
)

func init() {
	register(&propDef{
		ID: "C11",
		Explanation: "Decided: every byte of the meta structure that precedes the checksum is covered by it on every supported architecture (no padding hole, checksum last, 64 bytes); Validate tests magic, version and checksum and returns nil on exactly one of the 8 combinations; " +
			"no meta is used before it was validated (page-size probing, Open's order); the two-page decision logic is the stated truth table (db.mmap fails iff both metas are invalid, db.meta() picks the valid meta with the larger txid, getPageSize falls back to the second meta iff the first did not validate); " +
			"every rejecting exit of Open closes the descriptor and returns a non-nil error. " +
			"NOT decided: which state is presented after fall-back (follows from C01/C06 dynamically), page-size probing arithmetic; that FNV-1a changes under any single-byte substitution is arithmetic and stated as an assumption. Round 3: the probing loop for the second meta page reads every power-of-two offset inside the file, whatever the file size is a multiple of (executed for four file sizes).",
		Assumptions: []string{"FNV-1a-64: for a fixed input byte each step is a bijection of the state, so any single-byte substitution in the hashed prefix changes the sum (not checked)"},
		Run: func(c *Ctx) {
			c11R1(c, "C11.R1")
			c11R2(c, "C11.R2")
			c11R3(c, "C11.R3")
			c11R4(c, "C11.R4")
			c11R5(c, "C11.R5")
			ruleSecondMetaProbing(c, "C11.R10")
			ruleChecksumAfterMutation(c, "C11.R7", 5) // "opening succeeds using the other meta page": the other page is valid only if every meta writer checksums after its last change
			ruleMetaSlot(c, "C11.R8") // ... and only if commits alternate between the two slots (never overwrite the newest committed meta)
			ruleTestedErrorsPropagate(c, "C11.R9", []string{rootPkg, commonPath}, 20, func(n string) bool {
				for _, k := range []string{"bbolt.Open", "(*DB).init", "(*DB).mmap", "bbolt.mmap", "bbolt.munmap", "(*DB).munmap", "getPageSize", "bbolt.flock", "bbolt.funlock", "(*DB).fileSize", "(*DB).mmapSize", "mlock", "munlock", "(*DB).close", "(*Meta).Validate", "(*DB).openFile"} {
					if strings.Contains(n, k) {
						return true
					}
				}
				return false
			}) // "opening returns an error instead of ... presenting data": no tested error on Open's path leads to a success return
			ruleFreeSetEntry(c, "C11.R6") // falling back to the older meta presents ITS state only if that state's pages were not recycled: pages freed by commit N become allocatable at the begin of writer N+1 at the earliest
		},
	})
}

func c11R1(c *Ctx, id string) {
	c.rule(id, "checksum-coverage", 1, func() {
		pk := c.P.Pkg(commonPath)
		obj := pk.Types.Scope().Lookup("Meta")
		st := obj.Type().Underlying().(*types.Struct)
		var fields []*types.Var
		for i := 0; i < st.NumFields(); i++ {
			fields = append(fields, st.Field(i))
		}
		for _, arch := range archesForTier() {
			sizes := types.SizesFor("gc", arch)
			offs := sizes.Offsetsof(fields)
			bad := ""
			last := fields[len(fields)-1]
			if last.Name() != "checksum" {
				bad = "checksum is not the last field"
			}
			// no hole: each field starts where the previous ended
			end := int64(0)
			for i, f := range fields {
				if offs[i] != end {
					bad = fmt.Sprintf("padding hole before %s (offset %d, previous field ends at %d): bytes not determined by any field are hashed", f.Name(), offs[i], end)
				}
				end = offs[i] + sizes.Sizeof(f.Type())
			}
			ckOff := offs[len(offs)-1]
			if ckOff+8 != sizes.Sizeof(obj.Type()) || sizes.Sizeof(obj.Type()) != 64 {
				bad = fmt.Sprintf("Offsetof(checksum)+8 = %d, Sizeof(Meta) = %d, want 64", ckOff+8, sizes.Sizeof(obj.Type()))
			}
			c.fact(id+":common.Meta:coverage@"+arch, obj.Pos(), "checksum is the last field, Offsetof(checksum)+8 == Sizeof(Meta) == 64, and there is no padding hole in the hashed prefix under gc/"+arch, bad == "", bad)
		}
		// the hashed length is Offsetof(checksum) (shared with C12.R3)
		c12R3body(c, id)
	})
}

// c12R3body re-evaluates the Sum64 coverage check under another rule id.
func c12R3body(c *Ctx, id string) {
	sum := c.fn("common.(*Meta).Sum64")
	pk := c.P.Pkg(commonPath)
	st := pk.Types.Scope().Lookup("Meta").Type().Underlying().(*types.Struct)
	var fields []*types.Var
	ckIdx := -1
	for i := 0; i < st.NumFields(); i++ {
		fields = append(fields, st.Field(i))
		if st.Field(i).Name() == "checksum" {
			ckIdx = i
		}
	}
	okN := false
	detail := "no slice of a byte-array view of the receiver is written to the hash"
	if ckIdx >= 0 {
		want := types.SizesFor("gc", "amd64").Offsetsof(fields)[ckIdx]
		eachInstr(sum, func(in ssa.Instruction) {
			sl, ok := in.(*ssa.Slice)
			if !ok {
				return
			}
			pt, ok := sl.X.Type().Underlying().(*types.Pointer)
			if !ok {
				return
			}
			arr, ok := pt.Elem().Underlying().(*types.Array)
			if !ok {
				return
			}
			fromRecv := false
			for _, l := range provenance(sl.X, provOpts{}) {
				if l.Kind == "param" && l.V == sum.Params[0] {
					fromRecv = true
				}
			}
			if fromRecv {
				okN = arr.Len() == want && sl.Low == nil && sl.High == nil
				detail = fmt.Sprintf("hashes %d bytes, want Offsetof(checksum) = %d", arr.Len(), want)
			}
		})
	}
	c.check(id+":common.(*Meta).Sum64:prefix", sum, sum.Pos(), "Sum64 hashes exactly the Offsetof(checksum)-byte prefix starting at the meta's address", okN, detail)
}

func c11R2(c *Ctx, id string) {
	c.rule(id, "validate-table", 1, func() {
		v := c.fn("common.(*Meta).Validate")
		magic, _ := c.constOf(commonPath, "Magic")
		version, _ := c.constOf(commonPath, "Version")
		bad := ""
		rows := 0
		for _, mOK := range []bool{true, false} {
			for _, vOK := range []bool{true, false} {
				for _, sOK := range []bool{true, false} {
					rows++
					ev := &Evaluator{
						Load: func(u *ssa.UnOp) (V, bool) {
							switch pathOf(u).Names() {
							case "magic":
								if mOK {
									return uV(uint64(magic)), true
								}
								return uV(uint64(magic) ^ 0x100), true
							case "version":
								if vOK {
									return uV(uint64(version)), true
								}
								return uV(uint64(version) + 1), true
							case "checksum":
								return uV(1234567), true
							}
							return unkV, false
						},
						Call: func(call *ssa.Call, args []V) (V, bool) {
							if calleeOf(call).Name() == "common.(*Meta).Sum64" {
								if sOK {
									return uV(1234567), true
								}
								return uV(7654321), true
							}
							return unkV, false
						},
					}
					o := ev.Exec(v, nil)
					wantNil := mOK && vOK && sOK
					if o.Kind != "return" || len(o.Rets) != 1 {
						bad = fmt.Sprintf("magic=%v version=%v sum=%v: %s", mOK, vOK, sOK, o)
						continue
					}
					if gotNil := o.Rets[0].K == vNil; gotNil != wantNil {
						bad = fmt.Sprintf("magic ok=%v version ok=%v checksum ok=%v: Validate returns %s", mOK, vOK, sOK, o.Rets[0])
					}
				}
			}
		}
		c.check(id+":common.(*Meta).Validate:table", v, v.Pos(), fmt.Sprintf("Validate returns nil on exactly the row (magic ok, version ok, checksum ok) of %d rows", rows), bad == "", bad)
	})
}

func c11R3(c *Ctx, id string) {
	c.rule(id, "validate-before-use", 3, func() {
		for _, name := range []string{"bbolt.(*DB).getPageSizeFromFirstMeta", "bbolt.(*DB).getPageSizeFromSecondMeta"} {
			fn := c.fn(name)
			bad := ""
			n := 0
			for _, r := range returnsOf(fn) {
				if classifyReturn(r) != retSuccess {
					continue
				}
				n++
				// must be on the nil edge of a Validate() test
				ok := false
				for _, call := range plainCallsIn(fn, "common.(*Meta).Validate") {
					for _, t := range errTests(call) {
						if blockDominatedByEdge(t.If.Block(), t.Nil, r.Block()) {
							// and the size returned comes from that same meta
							ls := provenance(returnedValue(r, 0), provOpts{ThroughCall: throughAll})
							if hasLeaf(ls, "call", "common.(*Meta).PageSize") {
								for _, l := range ls {
									if l.Kind == "call" && l.Name == "common.(*Meta).PageSize" && l.V.(*ssa.Call).Call.Args[0] == call.Call.Args[0] {
										ok = true
									}
								}
							}
						}
					}
				}
				if !ok {
					bad = c.P.Position(r.Pos())
				}
			}
			c.check(id+":"+name+":validated", fn, fn.Pos(), "the page size is returned only on the pass-edge of Validate() == nil of the very meta it is read from", bad == "" && n > 0, "success return at "+bad+" uses an unvalidated meta")
		}
		open := c.fn("bbolt.Open")
		mm := c.theCall(id, open, "bbolt.(*DB).mmap")
		if mm == nil {
			return
		}
		bad := ""
		var errSucc []*ssa.BasicBlock
		for _, t := range errTests(mm) {
			errSucc = append(errSucc, t.NonNil)
		}
		fromErr := reach(nil, errSucc, nil, nil)
		users := callsIn(open, "bbolt.(*DB).loadFreelist", "bbolt.(*DB).hasSyncedFreelist", "bbolt.(*DB).Begin", "bbolt.(*DB).meta")
		for _, ci := range users {
			in := ci.(ssa.Instruction)
			if !dominates(mm, in) || fromErr[in] {
				bad = calleeOf(ci).Name() + " at " + c.P.Position(ci.Pos())
			}
		}
		for _, r := range successReturns(open) {
			if !dominates(mm, r) || fromErr[r] {
				bad = "success return at " + c.P.Position(r.Pos())
			}
		}
		c.check(id+":bbolt.Open:mmap<meta-users", open, mm.Pos(), fmt.Sprintf("db.mmap (which validates both metas) succeeds before loadFreelist / hasSyncedFreelist / Begin and before the success return (%d users)", len(users)), bad == "" && len(errSucc) > 0 && len(users) >= 3, "reached without a validated mapping: "+bad)
	})
}

func c11R4(c *Ctx, id string) {
	c.rule(id, "two-meta-decision-tables", 3, func() {
		// (a) db.mmap returns the validation error iff both metas fail
		mm := c.fn("bbolt.(*DB).mmap")
		vals := plainCallsIn(mm, "common.(*Meta).Validate")
		ok := len(vals) == 2
		detail := fmt.Sprintf("%d Validate calls", len(vals))
		if ok {
			v0, v1 := vals[0], vals[1]
			if pathOf(v0.Call.Args[0]).Names() != "meta0" || pathOf(v1.Call.Args[0]).Names() != "meta1" {
				if pathOf(v0.Call.Args[0]).Names() == "meta1" && pathOf(v1.Call.Args[0]).Names() == "meta0" {
					v0, v1 = v1, v0
				} else {
					ok = false
					detail = "Validate is not applied to db.meta0 and db.meta1"
				}
			}
			if ok {
				later := v1
				if dominates(v1, v0) {
					later = v0
				}
				for _, e0 := range []bool{false, true} { // true = invalid (non-nil error)
					for _, e1 := range []bool{false, true} {
						cut := func(e edge) bool {
							succ := e.from.Succs[e.succ]
							for i, call := range []*ssa.Call{v0, v1} {
								inv := []bool{e0, e1}[i]
								for _, t := range nilTestsDirect(call) {
									if t.If.Block() == e.from {
										if inv && succ == t.Nil && t.Nil != t.NonNil {
											return true
										}
										if !inv && succ == t.NonNil && t.Nil != t.NonNil {
											return true
										}
									}
								}
							}
							return false
						}
						r := reach([]ssa.Instruction{later}, nil, nil, cut)
						sawErr, sawOK := false, false
						for _, ret := range returnsOf(mm) {
							if !r[ret] {
								continue
							}
							switch classifyReturn(ret) {
							case retSuccess:
								sawOK = true
							case retError, retPass:
								sawErr = true
							}
						}
						wantErr := e0 && e1
						if wantErr && (sawOK || !sawErr) {
							ok = false
							detail = "both metas invalid but mmap can return success"
						}
						if !wantErr && (sawErr || !sawOK) {
							ok = false
							detail = fmt.Sprintf("meta0 invalid=%v meta1 invalid=%v: mmap fails although one meta is valid (or cannot succeed)", e0, e1)
						}
					}
				}
			}
		}
		c.check(id+":(*DB).mmap:table", mm, mm.Pos(), "db.mmap returns the validation error iff both Validate calls failed (4 rows)", ok, detail)
		// (b) db.meta()
		ruleMetaTable(c, id)
		// (c) getPageSize falls back to the second meta iff the first did not validate
		gps := c.fn("bbolt.(*DB).getPageSize")
		bad := ""
		rows := 0
		for _, first := range []string{"ok", "badread", "unreadable"} {
			for _, second := range []string{"ok", "badread", "unreadable"} {
				rows++
				secondCalled := false
				ev := &Evaluator{
					Load: func(u *ssa.UnOp) (V, bool) {
						if strings.HasSuffix(pathOf(u).Names(), "pageSize") {
							return iV(8192), true
						}
						return unkV, false
					},
					CallN: func(call *ssa.Call, args []V) ([]V, bool) {
						st := ""
						ps := int64(0)
						switch calleeOf(call).Name() {
						case "bbolt.(*DB).getPageSizeFromFirstMeta":
							st, ps = first, 4096
						case "bbolt.(*DB).getPageSizeFromSecondMeta":
							st, ps = second, 16384
							secondCalled = true
						default:
							return nil, false
						}
						switch st {
						case "ok":
							return []V{iV(ps), bV(true), nilV}, true
						case "badread":
							return []V{iV(0), bV(true), symV("err")}, true
						}
						return []V{iV(0), bV(false), symV("err")}, true
					},
				}
				o := ev.Exec(gps, nil)
				if o.Kind != "return" || len(o.Rets) != 2 {
					bad = fmt.Sprintf("first=%s second=%s: %s", first, second, o)
					continue
				}
				size, _ := o.Rets[0].Int()
				isNil := o.Rets[1].K == vNil
				var wantSize int64
				wantNil := true
				switch {
				case first == "ok":
					wantSize = 4096
					if secondCalled {
						bad = "the second meta is probed although the first validated"
					}
				case second == "ok":
					wantSize = 16384
				case first == "badread" || second == "badread":
					wantSize = 8192
				default:
					wantNil = false
				}
				if isNil != wantNil || (wantNil && size != wantSize) {
					bad = fmt.Sprintf("first=%s second=%s: returns (%s,%s), want size %d nil-error=%v", first, second, o.Rets[0], o.Rets[1], wantSize, wantNil)
				}
			}
		}
		c.check(id+":(*DB).getPageSize:table", gps, gps.Pos(), fmt.Sprintf("getPageSize uses meta 0 if it validates, else meta 1 if it validates, else the configured size if either page is readable, else ErrInvalid (%d rows)", rows), bad == "", bad)
	})
}

func c11R5(c *Ctx, id string) {
	c.rule(id, "open-error-exits-close", 7, func() {
		open := c.fn("bbolt.Open")
		openFileF := c.dbField("openFile")
		ofs := fieldCallsIn(open, openFileF)
		if len(ofs) != 1 {
			c.check(id+":bbolt.Open:openFile", open, open.Pos(), "one openFile call", false, fmt.Sprintf("%d calls", len(ofs)))
			return
		}
		checkOpenedBeforeOpenFile(c, id)
		after := reach([]ssa.Instruction{ofs[0].(ssa.Instruction)}, nil, nil, nil)
		noClose := reach([]ssa.Instruction{ofs[0].(ssa.Instruction)}, nil, func(in ssa.Instruction) bool { return isCallTo(in, "bbolt.(*DB).close") }, nil)
		seen := map[string]int{}
		for _, r := range returnsOf(open) {
			if !after[r] {
				continue
			}
			cl := classifyReturn(r)
			if cl == retSuccess {
				continue
			}
			role := errorReturnRole(r)
			seen[role]++
			key := fmt.Sprintf("%s:bbolt.Open:error-exit[%s#%d]", id, role, seen[role])
			okErr := cl == retError
			c.check(key, open, r.Pos(), "this rejecting exit of Open is reached only after db.close() (descriptor and lock released) and returns a non-nil error", !noClose[r] && okErr,
				fmt.Sprintf("close skipped=%v, error class=%s", noClose[r], cl))
			// and a nil *DB
			if !isNilConst(returnedValue(r, 0)) {
				c.check(key+":nil-db", open, r.Pos(), "a rejecting exit returns a nil *DB", false, "returns a DB together with an error")
			}
		}
	})
}
