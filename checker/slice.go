package main

import (
	"go/token"
	"go/types"
	"sort"
	"strings"

	"golang.org/x/tools/go/ssa"
)

// T5: backward provenance of a value. Flow-insensitive for memory cells
// (every store to a local cell is a source), so the leaf set over-approximates
// where a value can come from.

type leaf struct {
	Kind string    // param | const | call | field | alloc | make | global | freevar | func | other
	Name string    // parameter name, callee name, field path "db.pageSize", constant text
	V    ssa.Value // the SSA value of the leaf
	Root ssa.Value // for field leaves: the root the path starts from
}

func (l leaf) String() string { return l.Kind + ":" + l.Name }

type provOpts struct {
	Inline      int                          // inlining bound for static module callees (0 = calls are leaves)
	ThroughCall func(c *ssa.Call) bool       // also descend into the arguments of this call
	StopAt      func(v ssa.Value) bool       // treat as opaque leaf
}

type provState struct {
	opts  provOpts
	seen  map[ssa.Value]bool
	out   []leaf
	binds []map[*ssa.Parameter]ssa.Value
}

func provenance(v ssa.Value, opts provOpts) []leaf {
	st := &provState{opts: opts, seen: map[ssa.Value]bool{}}
	st.walk(v, 0)
	return st.out
}

func (st *provState) leaf(kind, name string, v, root ssa.Value) {
	st.out = append(st.out, leaf{kind, name, v, root})
}

func (st *provState) walk(v ssa.Value, depth int) {
	if v == nil || st.seen[v] {
		return
	}
	st.seen[v] = true
	if st.opts.StopAt != nil && st.opts.StopAt(v) {
		st.leaf("other", v.Name(), v, nil)
		return
	}
	switch x := v.(type) {
	case *ssa.Const:
		s := "nil"
		if x.Value != nil {
			s = x.Value.ExactString()
		}
		st.leaf("const", s, v, nil)
	case *ssa.Parameter:
		// bound parameter of an inlined callee?
		for i := len(st.binds) - 1; i >= 0; i-- {
			if a, ok := st.binds[i][x]; ok {
				st.walk(a, depth)
				return
			}
		}
		st.leaf("param", x.Name(), v, nil)
	case *ssa.FreeVar:
		st.leaf("freevar", x.Name(), v, nil)
	case *ssa.Global:
		st.leaf("global", x.Name(), v, nil)
	case *ssa.Function:
		st.leaf("func", shortFn(x), v, nil)
	case *ssa.Alloc:
		st.leaf("alloc", x.Name(), v, nil)
		// values stored into the cell
		st.walkStores(x, depth)
	case *ssa.MakeSlice:
		st.leaf("make", "slice", v, nil)
	case *ssa.MakeMap:
		st.leaf("make", "map", v, nil)
	case *ssa.MakeChan:
		st.leaf("make", "chan", v, nil)
	case *ssa.MakeClosure:
		st.leaf("func", shortFn(x.Fn.(*ssa.Function)), v, nil)
	case *ssa.UnOp:
		if x.Op == token.MUL {
			fp := pathOf(x)
			if len(fp.Fields) > 0 {
				st.leaf("field", fp.Names(), v, fp.Root)
				st.walk(fp.Root, depth)
				// stores to that same field address inside this function also feed it
				if fa, ok := x.X.(*ssa.FieldAddr); ok {
					st.walkStores(fa, depth)
					// other address computations of the same field of the same object in this function
					if fn := x.Parent(); fn != nil {
						fld := fieldOfAddr(fa)
						eachInstr(fn, func(in ssa.Instruction) {
							if s2, ok := in.(*ssa.Store); ok {
								if fa2, ok := s2.Addr.(*ssa.FieldAddr); ok && fa2 != fa && fa2.X == fa.X && fieldOfAddr(fa2) == fld {
									st.walk(s2.Val, depth)
								}
							}
						})
					}
				}
				return
			}
			switch a := x.X.(type) {
			case *ssa.Alloc:
				st.walkStores(a, depth)
				return
			case *ssa.FreeVar:
				st.leaf("freevar", a.Name(), v, nil)
				return
			case *ssa.Global:
				st.leaf("global", a.Name(), v, nil)
				return
			case *ssa.IndexAddr:
				st.leaf("elem", a.Name(), v, nil)
				st.walk(a.X, depth)
				st.walk(a.Index, depth)
				st.walkStores(a, depth)
				return
			}
			st.walk(x.X, depth)
			return
		}
		st.walk(x.X, depth)
	case *ssa.FieldAddr:
		fp := pathOf(x)
		st.leaf("field", fp.Names(), v, fp.Root)
		st.walk(fp.Root, depth)
	case *ssa.Field:
		fp := pathOf(x)
		st.leaf("field", fp.Names(), v, fp.Root)
		st.walk(fp.Root, depth)
	case *ssa.IndexAddr:
		st.walk(x.X, depth)
		st.walk(x.Index, depth)
	case *ssa.Index:
		st.walk(x.X, depth)
		st.walk(x.Index, depth)
	case *ssa.Lookup:
		st.leaf("lookup", pathOf(x.X).Names(), v, nil)
		st.walk(x.X, depth)
		st.walk(x.Index, depth)
	case *ssa.Slice:
		st.walk(x.X, depth)
		st.walk(x.Low, depth)
		st.walk(x.High, depth)
	case *ssa.BinOp:
		st.walk(x.X, depth)
		st.walk(x.Y, depth)
	case *ssa.Convert:
		st.walk(x.X, depth)
	case *ssa.ChangeType:
		st.walk(x.X, depth)
	case *ssa.ChangeInterface:
		st.walk(x.X, depth)
	case *ssa.MakeInterface:
		st.walk(x.X, depth)
	case *ssa.SliceToArrayPointer:
		st.walk(x.X, depth)
	case *ssa.TypeAssert:
		st.walk(x.X, depth)
	case *ssa.Phi:
		st.leaf("phi", x.Name(), v, nil)
		for _, e := range x.Edges {
			st.walk(e, depth)
		}
	case *ssa.Extract:
		if c, ok := x.Tuple.(*ssa.Call); ok {
			st.walkCall(c, x.Index, depth)
		} else {
			st.walk(x.Tuple, depth)
		}
	case *ssa.Next:
		st.walk(x.Iter, depth)
	case *ssa.Range:
		st.walk(x.X, depth)
	case *ssa.Call:
		st.walkCall(x, -1, depth)
	default:
		st.leaf("other", v.Name(), v, nil)
	}
}

func (st *provState) walkStores(addr ssa.Value, depth int) {
	if addr.Referrers() == nil {
		return
	}
	for _, r := range *addr.Referrers() {
		switch s := r.(type) {
		case *ssa.Store:
			if s.Addr == addr {
				st.walk(s.Val, depth)
			}
		case *ssa.IndexAddr:
			// element stores into a local array / slice backing store
			if s.X == addr && !st.seen[s] {
				st.seen[s] = true
				st.walkStores(s, depth)
			}
		}
	}
}

func (st *provState) walkCall(c *ssa.Call, resIdx int, depth int) {
	callee := calleeOf(c)
	st.leaf("call", callee.Name(), c, nil)
	if f := callee.Static; f != nil && depth < st.opts.Inline && inModule(f) && len(f.Blocks) > 0 {
		bind := map[*ssa.Parameter]ssa.Value{}
		for i, p := range f.Params {
			if i < len(c.Call.Args) {
				bind[p] = c.Call.Args[i]
			}
		}
		st.binds = append(st.binds, bind)
		for _, r := range returnsOf(f) {
			if resIdx >= 0 && resIdx < len(r.Results) {
				st.walk(r.Results[resIdx], depth+1)
			} else if resIdx < 0 {
				for _, rv := range r.Results {
					st.walk(rv, depth+1)
				}
			}
		}
		st.binds = st.binds[:len(st.binds)-1]
		return
	}
	if st.opts.ThroughCall != nil && st.opts.ThroughCall(c) {
		for _, a := range c.Call.Args {
			st.walk(a, depth)
		}
		if c.Call.IsInvoke() {
			st.walk(c.Call.Value, depth)
		}
	}
}

// leafNames renders a sorted, de-duplicated list of leaves.
func leafNames(ls []leaf) []string {
	set := map[string]bool{}
	for _, l := range ls {
		set[l.String()] = true
	}
	out := make([]string, 0, len(set))
	for k := range set {
		out = append(out, k)
	}
	sort.Strings(out)
	return out
}

func hasLeaf(ls []leaf, kind, name string) bool {
	for _, l := range ls {
		if l.Kind == kind && (name == "" || l.Name == name) {
			return true
		}
	}
	return false
}

func hasFieldLeaf(ls []leaf, suffix string) bool {
	for _, l := range ls {
		if l.Kind == "field" && (l.Name == suffix || strings.HasSuffix(l.Name, "."+suffix)) {
			return true
		}
	}
	return false
}

// fieldsReadIn returns the set of struct fields (objects) loaded anywhere in
// the backward slice of v.
func fieldsReadIn(v ssa.Value) map[*types.Var]bool {
	out := map[*types.Var]bool{}
	for _, l := range provenance(v, provOpts{ThroughCall: func(*ssa.Call) bool { return true }}) {
		if l.Kind == "field" {
			fp := pathOf(l.V)
			for _, f := range fp.Fields {
				out[f] = true
			}
		}
	}
	return out
}
