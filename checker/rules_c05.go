package main

import (
	"fmt"
	"strings"

	"golang.org/x/tools/go/ssa"
)

func init() {
	register(&propDef{
		ID: "C05",
		Explanation: "Decided: the cursor's movement functions treat 'landed on an empty leaf' and 'ran off the end' on every path — after every raw descent (goToFirstElementOnTheStack / last / seek) no return is reached before the emptiness of the leaf (or a one-level stack) was tested; next and prev agree on re-positioning and on leaving a usable position when exhausted; " +
			"every loop driven by a cursor advance has an exit that depends on the key the advance returned (a loop that ignores exhaustion cannot terminate once every leaf is empty); ordering rests on lower-bound predicates over bytes.Compare and the branch-search step-back (tabulated). " +
			"NOT decided: that First/Next/Prev/Seek agree with a sorted list in general; termination beyond the exhaustion discipline (no termination prover is available).",
		Run: func(c *Ctx) {
			c05R1(c, "C05.R1")
			c05R2(c, "C05.R2")
			c05R3(c, "C05.R3")
			ruleKeyOrderPredicates(c, "C05.R4")
		},
	})
}

var rawDescents = []string{"bbolt.(*Cursor).goToFirstElementOnTheStack", "bbolt.(*Cursor).last", "bbolt.(*Cursor).seek", "bbolt.(*Cursor).search"}

// readsEmptiness: the branch condition reads elemRef.count() of the stack or the stack depth.
func readsEmptiness(c *Ctx, cond ssa.Value) bool {
	stackF := c.P.lookupField(rootPkg, "Cursor", "stack")
	for _, l := range provenance(cond, provOpts{ThroughCall: throughAll}) {
		if l.Kind == "call" && l.Name == "bbolt.(*elemRef).count" {
			return true
		}
		if l.Kind == "call" && l.Name == "builtin:len" {
			for _, a := range l.V.(*ssa.Call).Call.Args {
				if pathOf(a).Last() == stackF {
					return true
				}
			}
		}
	}
	return false
}

func c05R1(c *Ctx, id string) {
	c.rule(id, "descent-emptiness", 5, func() {
		for _, name := range []string{"bbolt.(*Cursor).first", "bbolt.(*Cursor).next", "bbolt.(*Cursor).prev", "bbolt.(*Cursor).Last", "bbolt.(*Cursor).Seek"} {
			fn := c.fn(name)
			descents := plainCallsIn(fn, rawDescents...)
			bad := ""
			for _, d := range descents {
				stop := func(in ssa.Instruction) bool {
					iff, ok := in.(*ssa.If)
					return ok && readsEmptiness(c, iff.Cond)
				}
				r := reach([]ssa.Instruction{d}, nil, stop, nil)
				for in := range r {
					if ret, isR := in.(*ssa.Return); isR {
						bad = fmt.Sprintf("after %s at %s the function can return at %s without testing whether the leaf it landed on is empty", calleeOf(d).Name(), c.P.Position(d.Pos()), c.P.Position(ret.Pos()))
					}
				}
			}
			c.check(id+":"+name+":descent-emptiness", fn, fn.Pos(), fmt.Sprintf("after each of the %d raw descents, every path to a return passes a branch on count() of the stack top (or on a one-level stack): an emptied leaf is skipped, not reported as the end / left as the position", len(descents)), bad == "" && len(descents) > 0, bad)
		}
	})
}

func c05R2(c *Ctx, id string) {
	c.rule(id, "next-prev-agreement", 2, func() {
		stackF := c.P.lookupField(rootPkg, "Cursor", "stack")
		nilReturn := func(r *ssa.Return) bool {
			return len(r.Results) == 3 && isNilConst(r.Results[0]) && isNilConst(r.Results[1])
		}
		nx := c.fn("bbolt.(*Cursor).next")
		okN := len(plainCallsIn(nx, "bbolt.(*Cursor).goToFirstElementOnTheStack")) == 1
		// exhausted return reachable without truncating the stack: the position stays on the last element
		stores := storesToField([]*ssa.Function{nx}, stackF)
		isStore := func(in ssa.Instruction) bool {
			for _, s := range stores {
				if s.Instr == in {
					return true
				}
			}
			return false
		}
		r := reach(nil, []*ssa.BasicBlock{nx.Blocks[0]}, isStore, nil)
		sawExhausted := false
		for _, ret := range returnsOf(nx) {
			if nilReturn(ret) && r[ret] {
				sawExhausted = true
			}
		}
		c.check(id+":(*Cursor).next:shape", nx, nx.Pos(), "next re-positions with a descent after moving up, and its exhausted return (nil) leaves the stack untouched: the position stays on the last key", okN && sawExhausted, fmt.Sprintf("descent=%v exhausted-without-truncation=%v", okN, sawExhausted))
		pv := c.fn("bbolt.(*Cursor).prev")
		okP := len(plainCallsIn(pv, "bbolt.(*Cursor).last")) == 1
		// the exhausted return at the root is preceded by c.first(): the position stays on the first key
		firsts := plainCallsIn(pv, "bbolt.(*Cursor).first")
		sawFirst := false
		for _, ret := range returnsOf(pv) {
			if !nilReturn(ret) {
				continue
			}
			for _, f := range firsts {
				if dominates(f, ret) {
					sawFirst = true
				}
			}
		}
		c.check(id+":(*Cursor).prev:shape", pv, pv.Pos(), "prev re-positions with a descent after moving up, and when it runs off the beginning it re-positions on the first key (c.first(), which skips emptied leaves) before returning nil", okP && sawFirst, fmt.Sprintf("descent=%v first-before-nil=%v", okP, sawFirst))
	})
}

// naturalLoops returns, per loop header, the set of blocks in the loop.
func naturalLoops(fn *ssa.Function) map[*ssa.BasicBlock]map[*ssa.BasicBlock]bool {
	loops := map[*ssa.BasicBlock]map[*ssa.BasicBlock]bool{}
	for _, b := range fn.Blocks {
		for _, s := range b.Succs {
			if s.Dominates(b) { // back edge b -> s
				body := loops[s]
				if body == nil {
					body = map[*ssa.BasicBlock]bool{s: true}
					loops[s] = body
				}
				work := []*ssa.BasicBlock{b}
				for len(work) > 0 {
					x := work[len(work)-1]
					work = work[:len(work)-1]
					if body[x] {
						continue
					}
					body[x] = true
					work = append(work, x.Preds...)
				}
			}
		}
	}
	return loops
}

var advanceCallees = map[string]bool{"bbolt.(*Cursor).next": true, "bbolt.(*Cursor).prev": true, "bbolt.(*Cursor).Next": true, "bbolt.(*Cursor).Prev": true}

func c05R3(c *Ctx, id string) {
	c.rule(id, "iterator-exhaustion-discipline", 4, func() {
		n := 0
		for _, fn := range c.P.FnsIn(rootPkg) {
			for hdr, body := range naturalLoops(fn) {
				var advances []*ssa.Call
				for b := range body {
					for _, in := range b.Instrs {
						if call, ok := in.(*ssa.Call); ok && advanceCallees[calleeOf(call).Name()] {
							advances = append(advances, call)
						}
					}
				}
				if len(advances) == 0 {
					continue
				}
				n++
				// an If inside the loop that depends on the advance's key and leaves the loop
				ok := false
				for b := range body {
					iff, isIf := b.Instrs[len(b.Instrs)-1].(*ssa.If)
					if !isIf {
						continue
					}
					leaves := false
					for _, s := range b.Succs {
						if !body[s] {
							leaves = true
						}
					}
					if !leaves {
						continue
					}
					for _, l := range provenance(iff.Cond, provOpts{}) {
						for _, a := range advances {
							if l.V == ssa.Value(a) {
								ok = true
							}
							if ex, isEx := l.V.(*ssa.Extract); isEx && ex.Tuple == ssa.Value(a) && ex.Index == 0 {
								ok = true
							}
						}
					}
				}
				c.check(fmt.Sprintf("%s:%s:loop@%s", id, shortFn(fn), loopRole(fn, hdr)), fn, hdr.Instrs[0].Pos(), "this loop advances a cursor and has an exit that depends on the key returned by the advance (k == nil ends it)", ok,
					"the loop calls "+calleeOf(advances[0]).Name()+" but no exit depends on its result: once the cursor is exhausted the loop cannot observe it")
			}
		}
		_ = n
	})
}

// loopRole names a loop by the calls in its header region, not by line.
func loopRole(fn *ssa.Function, hdr *ssa.BasicBlock) string {
	var names []string
	for _, in := range hdr.Instrs {
		if ci, ok := in.(ssa.CallInstruction); ok {
			n := calleeOf(ci).Name()
			names = append(names, n[strings.LastIndex(n, ".")+1:])
		}
	}
	if len(names) == 0 {
		return hdr.Comment
	}
	return strings.Join(names, "+")
}
