package main

import (
	"fmt"
	"go/token"
	"go/types"
	"strings"

	"golang.org/x/tools/go/ssa"
)

func init() {
	register(&propDef{
		ID: "C05",
		Explanation: "Decided: the cursor's movement functions treat 'landed on an empty leaf' and 'ran off the end' on every path — after every raw descent (goToFirstElementOnTheStack / last / seek) no return is reached before the emptiness of the leaf (or a one-level stack) was tested; next and prev agree on re-positioning and on leaving a usable position when exhausted; " +
			"every loop driven by a cursor advance has an exit that depends on the key the advance returned (a loop that ignores exhaustion cannot terminate once every leaf is empty); ordering rests on lower-bound predicates over bytes.Compare and the branch-search step-back (tabulated). " +
			"Nested buckets are reported with a nil value: every return of a value taken from a raw cursor step is guarded by a bucket-bit test of that step's own flags (R5). " +
			"NOT decided: that First/Next/Prev/Seek agree with a sorted list in general; termination beyond the exhaustion discipline (no termination prover is available). Round 3: a value truncated to an on-disk field width (uint16 element index) never indexes or sizes an in-memory collection — a materialised node holds more than 65535 inodes before it is split. Round 4: First, Last and Seek restart from the bucket's current root on every path.",
		Run: func(c *Ctx) {
			ruleDescentComparesEveryLevel(c, "C05.R8")
			debugNarrowing(c)
			ruleAbsolutePositioningRestarts(c, "C05.R7")
			ruleNarrowingConfined(c, "C05.R6") // "visits every key exactly once": a cursor over a materialised node addresses element i, not i mod 65536
			c05R1(c, "C05.R1")
			c05R2(c, "C05.R2")
			c05R3(c, "C05.R3")
			ruleKeyOrderPredicates(c, "C05.R4")
			c05R5(c, "C05.R5")
		},
	})
}

var rawDescents = []string{"bbolt.(*Cursor).goToFirstElementOnTheStack", "bbolt.(*Cursor).last", "bbolt.(*Cursor).seek", "bbolt.(*Cursor).search"}

// readsEmptiness: the branch condition reads elemRef.count() of the stack or the stack depth.
func readsEmptiness(c *Ctx, cond ssa.Value) bool {
	stackF := c.P.lookupField(rootPkg, "Cursor", "stack")
	for _, l := range provenance(cond, provOpts{ThroughCall: throughAll}) {
		if l.Kind == "call" && l.Name == "bbolt.(*elemRef).count" {
			return true
		}
		if l.Kind == "call" && l.Name == "builtin:len" {
			for _, a := range l.V.(*ssa.Call).Call.Args {
				if pathOf(a).Last() == stackF {
					return true
				}
			}
		}
	}
	return false
}

func c05R1(c *Ctx, id string) {
	c.rule(id, "descent-emptiness", 5, func() {
		for _, name := range []string{"bbolt.(*Cursor).first", "bbolt.(*Cursor).next", "bbolt.(*Cursor).prev", "bbolt.(*Cursor).Last", "bbolt.(*Cursor).Seek"} {
			fn := c.fn(name)
			descents := plainCallsIn(fn, rawDescents...)
			bad := ""
			for _, d := range descents {
				stop := func(in ssa.Instruction) bool {
					iff, ok := in.(*ssa.If)
					return ok && readsEmptiness(c, iff.Cond)
				}
				r := reach([]ssa.Instruction{d}, nil, stop, nil)
				for in := range r {
					if ret, isR := in.(*ssa.Return); isR {
						bad = fmt.Sprintf("after %s at %s the function can return at %s without testing whether the leaf it landed on is empty", calleeOf(d).Name(), c.P.Position(d.Pos()), c.P.Position(ret.Pos()))
					}
				}
			}
			c.check(id+":"+name+":descent-emptiness", fn, fn.Pos(), fmt.Sprintf("after each of the %d raw descents, every path to a return passes a branch on count() of the stack top (or on a one-level stack): an emptied leaf is skipped, not reported as the end / left as the position", len(descents)), bad == "" && len(descents) > 0, bad)
		}
	})
}

func c05R2(c *Ctx, id string) {
	c.rule(id, "next-prev-agreement", 2, func() {
		stackF := c.P.lookupField(rootPkg, "Cursor", "stack")
		nilReturn := func(r *ssa.Return) bool {
			return len(r.Results) == 3 && isNilConst(r.Results[0]) && isNilConst(r.Results[1])
		}
		nx := c.fn("bbolt.(*Cursor).next")
		okN := len(plainCallsIn(nx, "bbolt.(*Cursor).goToFirstElementOnTheStack")) == 1
		// exhausted return reachable without truncating the stack: the position stays on the last element
		stores := storesToField([]*ssa.Function{nx}, stackF)
		isStore := func(in ssa.Instruction) bool {
			for _, s := range stores {
				if s.Instr == in {
					return true
				}
			}
			return false
		}
		r := reach(nil, []*ssa.BasicBlock{nx.Blocks[0]}, isStore, nil)
		sawExhausted := false
		for _, ret := range returnsOf(nx) {
			if nilReturn(ret) && r[ret] {
				sawExhausted = true
			}
		}
		c.check(id+":(*Cursor).next:shape", nx, nx.Pos(), "next re-positions with a descent after moving up, and its exhausted return (nil) leaves the stack untouched: the position stays on the last key", okN && sawExhausted, fmt.Sprintf("descent=%v exhausted-without-truncation=%v", okN, sawExhausted))
		pv := c.fn("bbolt.(*Cursor).prev")
		okP := len(plainCallsIn(pv, "bbolt.(*Cursor).last")) == 1
		// the exhausted return at the root is preceded by c.first(): the position stays on the first key
		firsts := plainCallsIn(pv, "bbolt.(*Cursor).first")
		sawFirst := false
		for _, ret := range returnsOf(pv) {
			if !nilReturn(ret) {
				continue
			}
			for _, f := range firsts {
				if dominates(f, ret) {
					sawFirst = true
				}
			}
		}
		c.check(id+":(*Cursor).prev:shape", pv, pv.Pos(), "prev re-positions with a descent after moving up, and when it runs off the beginning it re-positions on the first key (c.first(), which skips emptied leaves) before returning nil", okP && sawFirst, fmt.Sprintf("descent=%v first-before-nil=%v", okP, sawFirst))
	})
}

// naturalLoops returns, per loop header, the set of blocks in the loop.
func naturalLoops(fn *ssa.Function) map[*ssa.BasicBlock]map[*ssa.BasicBlock]bool {
	loops := map[*ssa.BasicBlock]map[*ssa.BasicBlock]bool{}
	for _, b := range fn.Blocks {
		for _, s := range b.Succs {
			if s.Dominates(b) { // back edge b -> s
				body := loops[s]
				if body == nil {
					body = map[*ssa.BasicBlock]bool{s: true}
					loops[s] = body
				}
				work := []*ssa.BasicBlock{b}
				for len(work) > 0 {
					x := work[len(work)-1]
					work = work[:len(work)-1]
					if body[x] {
						continue
					}
					body[x] = true
					work = append(work, x.Preds...)
				}
			}
		}
	}
	return loops
}

var advanceCallees = map[string]bool{"bbolt.(*Cursor).next": true, "bbolt.(*Cursor).prev": true, "bbolt.(*Cursor).Next": true, "bbolt.(*Cursor).Prev": true}

func c05R3(c *Ctx, id string) {
	c.rule(id, "iterator-exhaustion-discipline", 4, func() {
		n := 0
		for _, fn := range c.P.FnsIn(rootPkg) {
			for hdr, body := range naturalLoops(fn) {
				var advances []*ssa.Call
				for b := range body {
					for _, in := range b.Instrs {
						if call, ok := in.(*ssa.Call); ok && advanceCallees[calleeOf(call).Name()] {
							advances = append(advances, call)
						}
					}
				}
				if len(advances) == 0 {
					continue
				}
				n++
				// an If inside the loop that depends on the advance's key and leaves the loop
				ok := false
				for b := range body {
					iff, isIf := b.Instrs[len(b.Instrs)-1].(*ssa.If)
					if !isIf {
						continue
					}
					leaves := false
					for _, s := range b.Succs {
						if !body[s] {
							leaves = true
						}
					}
					if !leaves {
						continue
					}
					for _, l := range provenance(iff.Cond, provOpts{}) {
						for _, a := range advances {
							if l.V == ssa.Value(a) {
								ok = true
							}
							if ex, isEx := l.V.(*ssa.Extract); isEx && ex.Tuple == ssa.Value(a) && ex.Index == 0 {
								ok = true
							}
						}
					}
				}
				c.check(fmt.Sprintf("%s:%s:loop@%s", id, shortFn(fn), loopRole(fn, hdr)), fn, hdr.Instrs[0].Pos(), "this loop advances a cursor and has an exit that depends on the key returned by the advance (k == nil ends it)", ok,
					"the loop calls "+calleeOf(advances[0]).Name()+" but no exit depends on its result: once the cursor is exhausted the loop cannot observe it")
			}
		}
		_ = n
	})
}

// loopRole names a loop by the calls in its header region, not by line.
func loopRole(fn *ssa.Function, hdr *ssa.BasicBlock) string {
	var names []string
	for _, in := range hdr.Instrs {
		if ci, ok := in.(ssa.CallInstruction); ok {
			n := calleeOf(ci).Name()
			names = append(names, n[strings.LastIndex(n, ".")+1:])
		}
	}
	if len(names) == 0 {
		return hdr.Comment
	}
	return strings.Join(names, "+")
}

// c05R5: "nested buckets appear with a nil value". The raw movement functions (seek / next / prev /
// keyValue) return (key, value, flags); whenever the value component leaves a function with another
// signature through a return, it must be masked: on the path to that return the flags component OF THE
// SAME raw call was tested for the bucket bit and found clear (or the returned value is the nil constant).
func c05R5(c *Ctx, id string) {
	c.rule(id, "nested-bucket-value-masked", 6, func() {
		isRaw := func(sig *types.Signature) bool {
			r := sig.Results()
			if r.Len() != 3 {
				return false
			}
			isBytes := func(t types.Type) bool {
				s, ok := t.Underlying().(*types.Slice)
				return ok && types.Identical(s.Elem(), types.Typ[types.Byte])
			}
			b, ok := r.At(2).Type().Underlying().(*types.Basic)
			return isBytes(r.At(0).Type()) && isBytes(r.At(1).Type()) && ok && b.Kind() == types.Uint32
		}
		for _, fn := range c.P.FnsIn(rootPkg) {
			if isRaw(fn.Signature) || fn.Blocks == nil {
				continue
			}
			// value components of raw calls in this function
			rawVals := map[ssa.Value]*ssa.Call{}
			eachInstr(fn, func(in ssa.Instruction) {
				ex, ok := in.(*ssa.Extract)
				if !ok || ex.Index != 1 {
					return
				}
				call, ok := ex.Tuple.(*ssa.Call)
				if ok && isRaw(call.Call.Signature()) {
					rawVals[ex] = call
				}
			})
			if len(rawVals) == 0 {
				continue
			}
			for _, ret := range returnsOf(fn) {
				for i := range ret.Results {
					v := returnedValue(ret, i)
					if !derivesFromRaw(v, rawVals, map[ssa.Value]bool{}) {
						continue
					}
					ok, why := maskedValue(v, ret.Block(), map[ssa.Value]bool{})
					c.check(fmt.Sprintf("%s:%s:return@%s", id, strings.TrimPrefix(shortFn(fn), "bbolt."), retRole(fn, ret)), fn, ret.Pos(),
						"a value taken from a raw cursor step is returned only where the flags of that same step were tested and the bucket bit found clear (nested buckets are reported with a nil value)", ok, why)
				}
			}
		}
	})
}

// retRole names a return by its ordinal among the function's returns in block order (stable under edits elsewhere).
func retRole(fn *ssa.Function, ret *ssa.Return) string {
	n := 0
	for _, r := range returnsOf(fn) {
		if r == ret {
			return fmt.Sprintf("%d", n)
		}
		n++
	}
	return "?"
}

func derivesFromRaw(v ssa.Value, raw map[ssa.Value]*ssa.Call, seen map[ssa.Value]bool) bool {
	if seen[v] {
		return false
	}
	seen[v] = true
	if _, ok := raw[v]; ok {
		return true
	}
	if ph, ok := v.(*ssa.Phi); ok {
		for _, e := range ph.Edges {
			if derivesFromRaw(e, raw, seen) {
				return true
			}
		}
	}
	return false
}

// bucketBitTest recognises `(f & 1) != 0` / `== 0` and returns f and the successor index on which the bit is clear.
func bucketBitTest(iff *ssa.If) (ssa.Value, int) {
	bo, ok := iff.Cond.(*ssa.BinOp)
	if !ok || (bo.Op != token.NEQ && bo.Op != token.EQL) {
		return nil, 0
	}
	and, ok := stripConv(bo.X).(*ssa.BinOp)
	z, isK := constInt(bo.Y)
	if !ok || and.Op != token.AND || !isK || z != 0 {
		return nil, 0
	}
	var f ssa.Value
	if k, isC := constInt(and.Y); isC && k == 1 {
		f = and.X
	} else if k, isC := constInt(and.X); isC && k == 1 {
		f = and.Y
	}
	if f == nil {
		return nil, 0
	}
	if bo.Op == token.NEQ {
		return f, 1
	}
	return f, 0
}

// parallelFlags: f is the flags component of exactly the raw step(s) v is the value component of.
func parallelFlags(v, f ssa.Value, seen map[[2]ssa.Value]bool) bool {
	k := [2]ssa.Value{v, f}
	if seen[k] {
		return true
	}
	seen[k] = true
	if isNilConst(v) {
		return true
	}
	if ev, ok := v.(*ssa.Extract); ok {
		ef, ok := f.(*ssa.Extract)
		return ok && ef.Tuple == ev.Tuple && ev.Index == 1 && ef.Index == 2
	}
	pv, ok1 := v.(*ssa.Phi)
	pf, ok2 := f.(*ssa.Phi)
	if ok1 && ok2 && pv.Block() == pf.Block() {
		for i := range pv.Edges {
			if !parallelFlags(pv.Edges[i], pf.Edges[i], seen) {
				return false
			}
		}
		return true
	}
	return false
}

func maskedValue(v ssa.Value, at *ssa.BasicBlock, seen map[ssa.Value]bool) (bool, string) {
	if isNilConst(v) {
		return true, ""
	}
	for b := at; b != nil; b = b.Idom() {
		d := b.Idom()
		if d == nil {
			break
		}
		iff, ok := d.Instrs[len(d.Instrs)-1].(*ssa.If)
		if !ok {
			continue
		}
		f, clear := bucketBitTest(iff)
		if f == nil || d.Succs[0] == d.Succs[1] {
			continue
		}
		if blockDominatedByEdge(d, d.Succs[clear], at) && parallelFlags(v, f, map[[2]ssa.Value]bool{}) {
			return true, ""
		}
	}
	if ph, ok := v.(*ssa.Phi); ok && !seen[v] {
		seen[v] = true
		for i, e := range ph.Edges {
			// the edge itself may be the bit-clear edge of the test (`if bit set { v = nil }` falls through on clear)
			pred := ph.Block().Preds[i]
			if iff, isIf := pred.Instrs[len(pred.Instrs)-1].(*ssa.If); isIf && pred.Succs[0] != pred.Succs[1] {
				if f, clear := bucketBitTest(iff); f != nil && pred.Succs[clear] == ph.Block() && parallelFlags(e, f, map[[2]ssa.Value]bool{}) {
					continue
				}
			}
			if ok, why := maskedValue(e, ph.Block().Preds[i], seen); !ok {
				return false, why
			}
		}
		return true, ""
	}
	return false, fmt.Sprintf("the value %s reaches the return without a bucket-bit test of the flags that came with it: a nested bucket's header bytes would be handed out as a value", v.Name())
}
