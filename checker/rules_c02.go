package main

import (
	"fmt"
	"go/types"
	"strings"

	"golang.org/x/tools/go/ssa"
)

func init() {
	register(&propDef{
		ID: "C02",
		Explanation: "Decided: a reader's registration, its private meta copy and its pin on the mapping (mmaplock read-held) are established atomically under metalock and released on every exit; remap/unmap run only under the exclusive mmaplock and Close takes all three locks; " +
			"the fields describing the mapping are written only by the map/unmap functions; committed (mapped) memory is never the target of a page/meta/element writer (copy-on-write targets come from the allocator or a fresh buffer); " +
			"the meta page write happens inside the metalock critical section and pending pages are released only at writer begin, under metalock. " +
			"NOT decided: equality of the whole view with a model, that the RIGHT pending sets are released (value-level, see C09/C10), goroutine schedules beyond lock-set reasoning. One call path violating this property on the current tree is reported under C08.R4 (known finding). Round 3: the parallel slices txPending.ids/alloctx stay index-aligned (twin writes); a read-only handle takes the shared lock before reading content. Round 4: RemoveReadonlyTXID removes exactly one registration (readers are a multiset).",
		Run: func(c *Ctx) {
			c10R6(c, "C02.R16") // the release bound is computed from the SORTED reader list (seed C02e)
			ruleMappingForgottenOnlyWithUnmap(c, "C02.R15")
			ruleOneRegistrationRemoved(c, "C02.R14") // a reader stays registered until IT closes
			rulePendingSlicesAligned(c, "C02.R12") // the reader-extent release decides per page by alloctx[i]
			c17R1(c, "C02.R13") // a reader inside a read-only handle is invisible to a writer in another handle: only the shared file lock keeps that writer out
			c02R1(c, "C02.R1")
			c02R2(c, "C02.R2")
			c02R3(c, "C02.R3")
			c02R4(c, "C02.R4")
			c02R5(c, "C02.R5")
			c02R6(c, "C02.R6")
			c02R7(c, "C02.R7")
			ruleFreelistNoAlias(c, "C02.R9") // mutable in-memory structures never alias the (read-only, shared) mapping
			ruleFreeSetEntry(c, "C02.R10") // pages an open reader references never enter the allocator's free set
			c06R1(c, "C02.R11") // writers put bytes only where an allocator-provided page id says
			c06R2(c, "C02.R8") // a reader's pages stay unchanged only if writers put nothing but allocator-provided page ids into the dirty-page cache
		},
		Platform: func(c *Ctx) {
			c02R4(c, "C02.R4")
			c02R5(c, "C02.R5")
		},
		Platforms: []platform{{"windows", "amd64"}, {"solaris", "amd64"}, {"aix", "ppc64"}, {"android", "arm64"}, {"openbsd", "amd64"}},
	})
}

func txField(c *Ctx, name string) *types.Var {
	f := c.P.lookupField(rootPkg, "Tx", name)
	if f == nil {
		panic(anchorErr{"Tx." + name})
	}
	return f
}

func c02R1(c *Ctx, id string) {
	c.rule(id, "reader-registration-atomic", 5, func() {
		la := newLockAnalysis(c, map[*types.Var]bool{})
		bt := c.fn("bbolt.(*DB).beginTx")
		initC := c.theCall(id, bt, "bbolt.(*Tx).init")
		adds := callsIn(bt, "freelist.Interface.AddReadonlyTXID")
		if initC == nil {
			return
		}
		st := la.before(initC)
		ok := st != nil && st.must["metalock:W"] && st.must["mmaplock:R"]
		c.check(id+":(*DB).beginTx:init-under-locks", bt, initC.Pos(), "the meta copy (tx.init) runs with metalock held and mmaplock read-held", ok, fmt.Sprintf("locks held: %v", st))
		okA := len(adds) == 1
		detail := fmt.Sprintf("%d AddReadonlyTXID calls", len(adds))
		if okA {
			st := la.before(adds[0].(ssa.Instruction))
			okA = st != nil && st.must["metalock:W"] && st.must["mmaplock:R"] && dominates(initC, adds[0].(ssa.Instruction))
			detail = fmt.Sprintf("locks held: %v", st)
		}
		c.check(id+":(*DB).beginTx:register-under-metalock", bt, bt.Pos(), "the reader is registered (AddReadonlyTXID) after the meta copy, still under metalock: release cannot interleave", okA, detail)
		sum := la.summary(bt)
		okS := sum != nil && !sum.success.bottom && sum.success.must["mmaplock:R"] && len(sum.success.may) == 1 && len(sum.success.relMay) == 0
		c.check(id+":(*DB).beginTx:success-holds-mmaplock-R", bt, bt.Pos(), "beginTx returns success holding exactly mmaplock (read) — the pin on the mapping — and nothing else", okS, fmt.Sprintf("success exit state: %+v", exitState(sum, "success")))
		okF := sum != nil && !sum.failure.bottom && len(sum.failure.may) == 0 && len(sum.failure.relMay) == 0
		c.check(id+":(*DB).beginTx:error-holds-nothing", bt, bt.Pos(), "beginTx's error returns hold no lock", okF, fmt.Sprintf("error exit state: %+v", exitState(sum, "failure")))
		// RLock precedes both
		rl := callsIn(bt, "sync.(*RWMutex).RLock")
		okR := len(rl) == 1 && dominates(rl[0].(ssa.Instruction), initC)
		c.check(id+":(*DB).beginTx:rlock-first", bt, bt.Pos(), "mmaplock.RLock dominates the meta copy", okR, "")
	})
}

func exitState(s *lsummary, class string) string {
	if s == nil {
		return "<no summary>"
	}
	st := s.all
	switch class {
	case "success":
		st = s.success
	case "failure":
		st = s.failure
	}
	if st == nil || st.bottom {
		return "<no such exit>"
	}
	return fmt.Sprintf("held(must)=%v held(may)=%v released(must)=%v released(may)=%v", st.must, st.may, st.relMust, st.relMay)
}

func c02R2(c *Ctx, id string) {
	c.rule(id, "private-meta-copy", 3, func() {
		metaF := txField(c, "meta")
		n := 0
		for _, st := range storesToField(c.P.FnsIn(rootPkg), metaF) {
			n++
			name := shortFn(st.Fn)
			ls := provenance(st.Val, provOpts{ThroughCall: throughAll})
			bad := ""
			for _, l := range ls {
				if l.Kind == "call" && (l.Name == "bbolt.(*DB).meta" || l.Name == "bbolt.(*DB).page" || l.Name == "bbolt.(*Tx).page" || l.Name == "common.(*Page).Meta") {
					bad = "the stored *Meta derives from " + l.Name + " (mapped memory)"
				}
				if l.Kind == "field" && (strings.HasSuffix(l.Name, "meta0") || strings.HasSuffix(l.Name, "meta1") || strings.HasSuffix(l.Name, "data")) {
					bad = "the stored *Meta derives from field " + l.Name
				}
			}
			okKind := isNilConst(st.Val)
			if _, isAlloc := st.Val.(*ssa.Alloc); isAlloc {
				okKind = true
			}
			if !okKind && bad == "" {
				bad = "the stored value is neither a fresh allocation nor nil"
			}
			c.check(id+":"+name+":stores-Tx.meta", st.Fn, st.Instr.Pos(), "Tx.meta is assigned a fresh allocation (tx.init) or nil (close) — never a pointer into the mapping", bad == "", bad)
		}
		ti := c.fn("bbolt.(*Tx).init")
		cp := c.theCall(id, ti, "common.(*Meta).Copy")
		if cp != nil {
			src := provenance(cp.Call.Args[0], provOpts{})
			dst := provenance(cp.Call.Args[1], provOpts{})
			ok := hasLeaf(src, "call", "bbolt.(*DB).meta") && hasLeaf(dst, "alloc", "") && hasFieldLeaf(dst, "meta")
			c.check(id+":(*Tx).init:copy-into-private", ti, cp.Pos(), "db.meta().Copy(tx.meta): the current meta is copied BY VALUE into the transaction's own allocation", ok, "Copy source/destination differ")
		}
		// the root bucket header is a private copy as well
		inb := c.P.lookupField(rootPkg, "Bucket", "InBucket")
		okRoot := false
		for _, st := range storesToField([]*ssa.Function{ti}, inb) {
			if _, isAlloc := st.Val.(*ssa.Alloc); isAlloc {
				okRoot = true
			}
		}
		c.check(id+":(*Tx).init:root-private", ti, ti.Pos(), "tx.root.InBucket is a fresh allocation filled by value from the private meta", okRoot, "tx.root.InBucket is not a fresh allocation")
	})
}

func c02R3(c *Ctx, id string) {
	c.rule(id, "reader-deregistration", 4, func() {
		wr := txField(c, "writable")
		cl := c.fn("bbolt.(*Tx).close")
		rm := c.theCall(id, cl, "bbolt.(*DB).removeTx")
		if rm == nil {
			return
		}
		r := reach(nil, []*ssa.BasicBlock{cl.Blocks[0]}, func(in ssa.Instruction) bool { return in == rm }, cutByEnv(map[*types.Var]bool{wr: false}))
		bad := ""
		for _, ret := range returnsOf(cl) {
			if r[ret] && !dominatedByNilFieldTest(ret, "db") {
				bad = c.P.Position(ret.Pos())
			}
		}
		c.check(id+":(*Tx).close:reader->removeTx", cl, rm.Pos(), "for a read transaction every path through close (except the already-closed guard) reaches db.removeTx", bad == "", "return at "+bad+" skips removeTx")
		la := newLockAnalysis(c, map[*types.Var]bool{})
		rt := c.fn("bbolt.(*DB).removeTx")
		sum := la.summary(rt)
		ok := sum != nil && !sum.all.bottom && sum.all.relMust["mmaplock:R"] && len(sum.all.relMay) == 1 && len(sum.all.may) == 0
		c.check(id+":(*DB).removeTx:releases-mmaplock-R-once", rt, rt.Pos(), "removeTx releases the read pin on the mapping exactly once on every path and leaves no other lock changed", ok, exitState(sum, "all"))
		rms := callsIn(rt, "freelist.Interface.RemoveReadonlyTXID")
		ok2 := len(rms) == 1
		detail := fmt.Sprintf("%d RemoveReadonlyTXID calls", len(rms))
		if ok2 {
			st := la.before(rms[0].(ssa.Instruction))
			ok2 = st != nil && st.must["metalock:W"]
			detail = fmt.Sprintf("locks: %v", st)
		}
		c.check(id+":(*DB).removeTx:deregister-under-metalock", rt, rt.Pos(), "RemoveReadonlyTXID runs under metalock", ok2, detail)
		// same key expression on both sides
		ruleReaderKeys(c, id)
	})
}

// ruleReaderKeys: Add/RemoveReadonlyTXID receive <tx>.meta.Txid(), under the same freelist != nil guard (C02.R3, C10.R3).
func ruleReaderKeys(c *Ctx, id string) {
	flF := c.dbField("freelist")
	for _, spec := range []struct{ fn, callee string }{
		{"bbolt.(*DB).beginTx", "freelist.Interface.AddReadonlyTXID"},
		{"bbolt.(*DB).removeTx", "freelist.Interface.RemoveReadonlyTXID"},
	} {
		fn := c.fn(spec.fn)
		calls := callsIn(fn, spec.callee)
		ok := len(calls) == 1
		detail := fmt.Sprintf("%d calls", len(calls))
		if ok {
			arg := calls[0].Common().Args[0]
			ls := provenance(arg, provOpts{ThroughCall: throughAll})
			ok = false
			detail = "key derives from " + strings.Join(leafNames(ls), ",")
			for _, l := range ls {
				if l.Kind == "call" && l.Name == "common.(*Meta).Txid" {
					recv := pathOf(l.V.(*ssa.Call).Call.Args[0])
					if recv.Names() == "meta" {
						ok = true
					}
				}
			}
			for _, l := range ls {
				if l.Kind == "const" || (l.Kind == "call" && l.Name != "common.(*Meta).Txid") {
					ok = false
				}
			}
			// guard: db.freelist != nil
			guarded := false
			in := calls[0].(ssa.Instruction)
			for b := in.Block(); b != nil; b = b.Idom() {
				if iff, isIf := b.Instrs[len(b.Instrs)-1].(*ssa.If); isIf {
					if bo, isBin := iff.Cond.(*ssa.BinOp); isBin && pathOf(bo.X).Last() == flF && isNilConst(bo.Y) {
						guarded = true
					}
				}
			}
			if !guarded {
				ok = false
				detail = "not guarded by db.freelist != nil"
			}
		}
		c.check(id+":"+spec.fn+":key=tx.meta.Txid()", fn, fn.Pos(), spec.callee+" receives exactly <tx>.meta.Txid() (no arithmetic), guarded by db.freelist != nil — registration and de-registration use the same key", ok, detail)
	}
}

func c02R4(c *Ctx, id string) {
	c.rule(id, "remap-exclusive", 5, func() {
		la := newLockAnalysis(c, map[*types.Var]bool{})
		for _, spec := range []struct {
			callee  string
			allowed map[string]bool
		}{
			{"bbolt.mmap", map[string]bool{"bbolt.(*DB).mmap": true}},
			{"bbolt.munmap", map[string]bool{"bbolt.(*DB).munmap": true}},
			{"bbolt.(*DB).munmap", map[string]bool{"bbolt.(*DB).mmap": true, "bbolt.(*DB).mmap$1": true, "bbolt.(*DB).close": true}},
			{"bbolt.(*DB).close", map[string]bool{"bbolt.(*DB).Close": true, "bbolt.Open": true}},
			{"bbolt.(*DB).mmap", map[string]bool{"bbolt.Open": true, "bbolt.(*DB).allocate": true}},
		} {
			f := c.fn(spec.callee)
			bad := ""
			var names []string
			for _, cs := range c.callersOf(f) {
				n := shortFn(cs.Caller)
				names = append(names, n)
				if !spec.allowed[n] {
					bad = n
				}
			}
			c.check(id+":"+spec.callee+":callers", f, f.Pos(), fmt.Sprintf("%s is called only from %v", spec.callee, sortedKeys(spec.allowed)), bad == "" && len(names) > 0, "also called from "+bad)
		}
		mm := c.fn("bbolt.(*DB).mmap")
		for _, callee := range []string{"bbolt.mmap", "bbolt.(*DB).munmap"} {
			for i, call := range plainCallsIn(mm, callee) {
				st := la.before(call)
				ok := st != nil && st.must["mmaplock:W"]
				c.check(fmt.Sprintf("%s:(*DB).mmap:%s#%d-under-mmaplock", id, callee, i+1), mm, call.Pos(), callee+" runs with mmaplock held exclusively (every reader pins it shared)", ok, fmt.Sprintf("locks: %v", st))
			}
		}
		// the deferred unmap-on-error closure also runs before the deferred Unlock
		for _, a := range mm.AnonFuncs {
			if len(plainCallsIn(a, "bbolt.(*DB).munmap")) == 0 {
				continue
			}
			// defers run LIFO: the Unlock defer must be registered before this one
			var unl, clo *ssa.Defer
			for _, d := range deferredCalls(mm) {
				if l, dir := la.lockOp(d); dir < 0 && l == "mmaplock:W" {
					unl = d
				}
				if closureOf(d.Call.Value) == a {
					clo = d
				}
			}
			ok := unl != nil && clo != nil && dominates(unl, clo)
			c.check(id+":(*DB).mmap$1:unmap-before-unlock", mm, a.Pos(), "the deferred unmap-on-error is registered after (so runs before) the deferred mmaplock.Unlock", ok, "the rollback unmap can run without the exclusive lock")
		}
		cl := c.fn("bbolt.(*DB).Close")
		inner := c.theCall(id, cl, "bbolt.(*DB).close")
		if inner != nil {
			st := la.before(inner)
			ok := st != nil && st.must["rwlock:W"] && st.must["metalock:W"] && st.must["mmaplock:W"]
			c.check(id+":(*DB).Close:close-under-three-locks", cl, inner.Pos(), "Close calls close (which unmaps) holding rwlock, metalock and mmaplock exclusively", ok, fmt.Sprintf("locks: %v", st))
		}
		// allocate -> mmap: the writer holds rwlock; mmap itself takes mmaplock
		sum := la.summary(mm)
		okBal := sum != nil && len(sum.all.may) == 0 && len(sum.all.relMay) == 0
		c.check(id+":(*DB).mmap:balanced", mm, mm.Pos(), "db.mmap releases mmaplock on every exit", okBal, exitState(sum, "all"))
	})
}

func c02R5(c *Ctx, id string) {
	c.rule(id, "mapping-fields-writers", 8, func() {
		allowed := map[string]bool{"bbolt.mmap": true, "bbolt.munmap": true, "bbolt.(*DB).mmap": true, "bbolt.(*DB).invalidate": true, "bbolt.(*DB).munmap": true} // db.munmap itself when invalidate is written in line (how the description may be cleared is C02.R15 / C17.R8)
		fns := c.P.FnsIn(rootPkg)
		for _, fname := range []string{"data", "dataref", "datasz", "meta0", "meta1"} {
			f := c.dbField(fname)
			for i, st := range storesToField(fns, f) {
				n := shortFn(st.Fn)
				c.check(fmt.Sprintf("%s:%s:stores-DB.%s#%d", id, n, fname, i+1), st.Fn, st.Instr.Pos(), "DB."+fname+" (describes the mapping) is written only by the map/unmap functions", allowed[shortFn(topLevel(st.Fn))], n+" rewrites the mapping description")
			}
		}
	})
}

var pageWriters = map[string]int{ // callee -> index of the page/meta argument
	"bbolt.(*node).write": 1, "common.WriteInodeToPage": 1, "freelist.ReadWriter.Write": 0, "common.(*Meta).Write": 1,
	"common.(*Page).SetId": 0, "common.(*Page).SetFlags": 0, "common.(*Page).SetCount": 0, "common.(*Page).SetOverflow": 0,
	"common.(*Meta).SetMagic": 0, "common.(*Meta).SetVersion": 0, "common.(*Meta).SetPageSize": 0, "common.(*Meta).SetFlags": 0, "common.(*Meta).SetRootBucket": 0,
	"common.(*Meta).SetFreelist": 0, "common.(*Meta).SetPgid": 0, "common.(*Meta).SetTxid": 0, "common.(*Meta).IncTxid": 0, "common.(*Meta).DecTxid": 0, "common.(*Meta).SetChecksum": 0,
	"common.(*Meta).Copy": 1,
}

func c02R6(c *Ctx, id string) {
	c.rule(id, "copy-on-write-targets", 6, func() {
		perFn := map[string]int{}
		for _, fn := range c.P.FnsIn(rootPkg) {
			name := shortFn(fn)
			eachInstr(fn, func(in ssa.Instruction) {
				ci, ok := in.(ssa.CallInstruction)
				if !ok {
					return
				}
				cn := calleeOf(ci).Name()
				idx, isW := pageWriters[cn]
				if !isW {
					return
				}
				args := ci.Common().Args
				if idx >= len(args) {
					return
				}
				target := args[idx]
				ls := provenance(target, provOpts{ThroughCall: throughAll})
				bad := ""
				for _, l := range ls {
					switch l.Kind {
					case "call":
						if l.Name == "bbolt.(*DB).page" || l.Name == "bbolt.(*Tx).page" || l.Name == "bbolt.(*DB).meta" {
							bad = "the write target derives from " + l.Name + " (memory-mapped, committed data)"
						}
					case "field":
						if strings.HasSuffix(l.Name, "meta0") || strings.HasSuffix(l.Name, "meta1") || l.Name == "data" || strings.HasSuffix(l.Name, ".data") || strings.HasSuffix(l.Name, "dataref") {
							bad = "the write target derives from field " + l.Name + " (the mapping)"
						}
					}
				}
				perFn[name]++
				c.check(fmt.Sprintf("%s:%s:%s#%d", id, name, cn, perFn[name]), fn, in.Pos(), "the page/meta written by "+cn+" comes from the allocator, a fresh buffer or the transaction's private meta — never from the mapping", bad == "", bad)
			})
		}
	})
}

func c02R7(c *Ctx, id string) {
	c.rule(id, "meta-write-and-release-under-metalock", 2, func() {
		la := newLockAnalysis(c, map[*types.Var]bool{})
		wm := c.fn("bbolt.(*Tx).writeMeta")
		wf := c.dbField("ops.writeAt")
		for _, ci := range fieldCallsIn(wm, wf) {
			st := la.before(ci.(ssa.Instruction))
			ok := st != nil && st.must["metalock:W"]
			c.check(id+":(*Tx).writeMeta:writeAt-under-metalock", wm, ci.Pos(), "the meta page is written inside the metalock critical section (a beginning reader's db.meta()+copy cannot interleave with it)", ok, fmt.Sprintf("locks: %v", st))
		}
		sum := la.summary(wm)
		c.check(id+":(*Tx).writeMeta:balanced", wm, wm.Pos(), "writeMeta releases metalock on every exit", sum != nil && len(sum.all.may) == 0 && len(sum.all.relMay) == 0, exitState(sum, "all"))
		// ReleasePendingPages: only from beginRWTx, under metalock
		n := 0
		for _, fn := range c.P.FnsIn(rootPkg) {
			for _, ci := range callsIn(fn, "freelist.Interface.ReleasePendingPages") {
				n++
				name := shortFn(fn)
				st := la.before(ci.(ssa.Instruction))
				ok := name == "bbolt.(*DB).beginRWTx" && st != nil && st.must["metalock:W"] && st.must["rwlock:W"]
				c.check(id+":"+name+":ReleasePendingPages", fn, ci.Pos(), "pending pages are released only in beginRWTx, with rwlock and metalock held (atomic w.r.t. reader registration)", ok, fmt.Sprintf("in %s with locks %v", name, st))
			}
		}
		if n == 0 {
			c.check(id+":ReleasePendingPages:none", nil, 0, "a release site exists", false, "ReleasePendingPages is never called")
		}
	})
}
