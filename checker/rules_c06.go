package main

import (
	"fmt"
	"strings"

	"golang.org/x/tools/go/ssa"
)

func init() {
	register(&propDef{
		ID: "C06",
		Explanation: "Decided: WHERE a write may land is determined only by the allocator (write offsets derive from the ids of pages in tx.pages, which only tx.allocate fills from db.allocate, whose ids come from freelist.Allocate or the high-water mark); " +
			"ids enter the free set only through the release path (Free makes pages pending, never free); frees and rollbacks are recorded under the writer's own txid; the old node page is freed before its replacement is allocated; the meta slot alternates (txid%2) and only init/write/writeMeta write the file. " +
			"NOT decided: that release/releaseRange compute the right bound from the reader ids, and that Allocate returns only free runs (integer reasoning over runtime sets; see C09). Round 3: txPending.ids/alloctx stay index-aligned; hashMap.Allocate hands out only spans of at least n pages. Round 4: the free list rebuilt by scanning comes from the integrity check's reachability walk (re-evaluated).",
		Run: func(c *Ctx) {
			c09R5(c, "C06.R13") // a re-initialised backend must forget every span, else stale spans hand out live pages (seed C06e)
			c13R1(c, "C06.R12") // a free list rebuilt by scanning must not list a reachable page as free (it would be handed out and overwritten)
			rulePendingSlicesAligned(c, "C06.R10") // a page still visible to a reader is released (and overwritten) if its allocating txid is mispaired
			ruleSpanCoversRequest(c, "C06.R11") // a too-short span hands live pages to the writer
			c06R1(c, "C06.R1")
			c06R2(c, "C06.R2")
			ruleFreeSetEntry(c, "C06.R3")
			c06R4(c, "C06.R4")
			c06R5(c, "C06.R5")
			ruleMetaSlot(c, "C06.R6")
			ruleFileWriterAllowList(c, "C06.R7")
			ruleRollbackUndoesFrees(c, "C06.R8")
			c08R2(c, "C06.R9") // after a failed commit the allocator is rebuilt from the committed state (pages of visible states stay out of the free set)
		},
		CHA: func(c *Ctx) {
			ruleFreeSetEntry(c, "C06.R3")
		},
	})
}

func throughAll(*ssa.Call) bool { return true }

// C06.R1: write offsets in (*Tx).write
func c06R1(c *Ctx, id string) {
	c.rule(id, "write-targets", 2, func() {
		w := c.fn("bbolt.(*Tx).write")
		wf := c.dbField("ops.writeAt")
		pagesF := c.P.lookupField(rootPkg, "Tx", "pages")
		calls := fieldCallsIn(w, wf)
		if len(calls) == 0 {
			c.check(id+":(*Tx).write:writeAt", w, w.Pos(), "write invokes ops.writeAt", false, "no writeAt call found")
			return
		}
		for i, ci := range calls {
			off := ci.Common().Args[1]
			ls := provenance(off, provOpts{ThroughCall: throughAll})
			bad := ""
			sawID := false
			var idRecv ssa.Value
			for _, l := range ls {
				switch l.Kind {
				case "call":
					switch l.Name {
					case "common.(*Page).Id":
						sawID = true
						idRecv = l.V.(*ssa.Call).Call.Args[0]
					case "common.(*Page).Overflow", "builtin:len", "builtin:append", "builtin:min":
					default:
						bad = "offset depends on the result of " + l.Name
					}
				case "field":
					n := l.Name
					if !(strings.HasSuffix(n, "pageSize") || n == "db" || strings.HasSuffix(n, ".db") || n == "pages") {
						bad = "offset depends on field " + n
					}
				case "global", "freevar":
					bad = "offset depends on " + l.String()
				}
			}
			if !sawID {
				bad = "offset does not derive from p.Id()"
			}
			// the bytes written are the bytes of the same page p
			if bad == "" {
				bufLs := provenance(ci.Common().Args[0], provOpts{ThroughCall: throughAll})
				same := false
				for _, l := range bufLs {
					if l.V == idRecv || stripConv(l.V) == idRecv {
						same = true
					}
				}
				pl := provenance(idRecv, provOpts{ThroughCall: throughAll})
				for _, a := range bufLs {
					for _, b := range pl {
						if a.V == b.V && a.Kind != "const" && a.Kind != "param" {
							same = true
						}
					}
				}
				if !same {
					bad = "the buffer written does not derive from the page whose id gives the offset"
				}
				// p ranges over tx.pages only
				fromPages := false
				for _, l := range pl {
					if l.Kind == "field" && pathOf(l.V).Has(pagesF) {
						fromPages = true
					}
					if l.Kind == "call" && !(strings.HasPrefix(l.Name, "builtin:") || strings.HasPrefix(l.Name, "common.(*Page).")) {
						bad = "the pages written come from " + l.Name
					}
				}
				if !fromPages {
					bad = "the pages written do not derive from tx.pages"
				}
			}
			if bad == "" {
				bad = offsetTable(c, off)
			}
			if bad == "" {
				bad = chunkAdvance(w, ci)
			}
			c.check(fmt.Sprintf("%s:(*Tx).write:writeAt#%d", id, i+1), w, ci.Pos(),
				"the writeAt offset derives only from p.Id(), pageSize and the chunk accumulator of the page whose bytes are written; p ranges over tx.pages", bad == "", bad)
		}
		// the page cache is read exactly here and nowhere handed out for writing
		c.check(id+":(*Tx).write:instances", w, w.Pos(), fmt.Sprintf("%d writeAt call site(s) examined", len(calls)), true, "")
	})
}

// C06.R2: tx.pages is filled only by tx.allocate from db.allocate; db.allocate's ids
func c06R2(c *Ctx, id string) {
	c.rule(id, "allocator-is-the-only-source", 3, func() {
		pagesF := c.P.lookupField(rootPkg, "Tx", "pages")
		if pagesF == nil {
			panic(anchorErr{"Tx.pages"})
		}
		n := 0
		for _, fn := range c.P.FnsIn(rootPkg) {
			eachInstr(fn, func(in ssa.Instruction) {
				mu, ok := in.(*ssa.MapUpdate)
				if !ok || !pathOf(mu.Map).Has(pagesF) {
					return
				}
				n++
				name := shortFn(fn)
				ok2 := name == "bbolt.(*Tx).allocate"
				detail := name + " inserts into the dirty-page cache"
				if ok2 {
					ls := provenance(mu.Value, provOpts{})
					ok2 = hasLeaf(ls, "call", "bbolt.(*DB).allocate")
					for _, l := range ls {
						if l.Kind == "call" && l.Name != "bbolt.(*DB).allocate" {
							ok2 = false
						}
					}
					detail = "the cached page does not come from db.allocate"
					// the key is the page's own id
					kl := provenance(mu.Key, provOpts{})
					if !hasLeaf(kl, "call", "common.(*Page).Id") {
						ok2 = false
						detail = "the cache key is not the page's own id"
					}
				}
				c.check(id+":"+name+":tx.pages-insert", fn, in.Pos(), "tx.pages[p.Id()] = p only in (*Tx).allocate, with p from db.allocate", ok2, detail)
			})
		}
		if n == 0 {
			c.check(id+":tx.pages-insert:none", nil, 0, "an insertion into tx.pages exists", false, "no MapUpdate on Tx.pages found")
		}
		// every page tx.allocate hands out is registered in tx.pages (otherwise it is never written)
		ta := c.fn("bbolt.(*Tx).allocate")
		{
			isIns := func(in ssa.Instruction) bool {
				mu, ok := in.(*ssa.MapUpdate)
				return ok && pathOf(mu.Map).Has(pagesF)
			}
			r := reach(nil, []*ssa.BasicBlock{ta.Blocks[0]}, isIns, nil)
			bad := ""
			for _, ret := range successReturns(ta) {
				if r[ret] {
					bad = c.P.Position(ret.Pos())
				}
			}
			c.check(id+":(*Tx).allocate:registers-page", ta, ta.Pos(), "every success return of tx.allocate has put the page into tx.pages (so tx.write will write it)", bad == "", "success return at "+bad+" without registering the page")
		}
		// db.allocate: ids come from freelist.Allocate or the high-water mark
		da := c.fn("bbolt.(*DB).allocate")
		{
			// the page records how many pages it spans: overflow = count-1, before any return
			ovs := plainCallsIn(da, "common.(*Page).SetOverflow")
			ok := len(ovs) == 1
			detail := fmt.Sprintf("%d SetOverflow calls", len(ovs))
			if ok {
				for _, k := range []int64{1, 2, 7} {
					ev := &Evaluator{Param: func(p *ssa.Parameter) (V, bool) {
						if isLastParam(p) {
							return iV(k), true
						}
						return unkV, false
					}}
					if got, isI := ev.ValueAtEntry(ovs[0].Call.Args[1]).Int(); !isI || got != k-1 {
						ok = false
						detail = fmt.Sprintf("count=%d gives overflow %v, want %d", k, ev.ValueAtEntry(ovs[0].Call.Args[1]), k-1)
					}
				}
				for _, ret := range successReturns(da) {
					if !dominates(ovs[0], ret) {
						ok = false
						detail = "a page is returned without its overflow count"
					}
				}
			}
			c.check(id+":(*DB).allocate:overflow=count-1", da, da.Pos(), "an allocated run records overflow = count-1 before it is returned (tx.write writes, and Free frees, exactly the run)", ok, detail)
		}
		setIDs := plainCallsIn(da, "common.(*Page).SetId")
		var fromFL, fromHWM *ssa.Call
		bad := ""
		for _, s := range setIDs {
			ls := provenance(s.Call.Args[1], provOpts{ThroughCall: throughAll})
			switch {
			case hasLeaf(ls, "call", "freelist.Interface.Allocate"):
				fromFL = s
			case hasLeaf(ls, "call", "common.(*Meta).Pgid") && hasFieldLeaf(ls, "rwtx.meta"):
				fromHWM = s
			default:
				bad = "SetId at " + c.P.Position(s.Pos()) + " takes an id from " + strings.Join(leafNames(ls), ",")
			}
			for _, l := range ls {
				if l.Kind == "const" {
					bad = "SetId at " + c.P.Position(s.Pos()) + " involves a constant id"
				}
			}
		}
		c.check(id+":(*DB).allocate:id-sources", da, da.Pos(), "the id of an allocated page is exactly freelist.Allocate(txid,count) or rwtx.meta.Pgid() (the high-water mark)", bad == "" && fromFL != nil && fromHWM != nil && len(setIDs) == 2,
			fmt.Sprintf("%s (SetId calls: %d)", bad, len(setIDs)))
		if fromHWM != nil {
			sp := plainCallsIn(da, "common.(*Meta).SetPgid")
			ok := len(sp) == 1
			detail := fmt.Sprintf("%d SetPgid calls", len(sp))
			if ok {
				r := reach([]ssa.Instruction{fromHWM}, nil, func(in ssa.Instruction) bool { return in == sp[0] }, nil)
				for _, ret := range nonErrorReturns(da) {
					if r[ret] {
						ok = false
						detail = "a success return at " + c.P.Position(ret.Pos()) + " is reachable from the high-water-mark allocation without moving the mark"
					}
				}
				ls := provenance(sp[0].Call.Args[1], provOpts{ThroughCall: throughAll})
				if !(hasLeaf(ls, "call", "common.(*Meta).Pgid") && hasLeaf(ls, "param", "count")) {
					ok = false
					detail = "the new mark is not Pgid()+count"
				}
			}
			c.check(id+":(*DB).allocate:hwm-advances", da, fromHWM.Pos(), "an allocation at the high-water mark moves the mark by count on every success path", ok, detail)
		}
		// the allocation from the freelist returns before touching the mark
		if fromFL != nil {
			ls := provenance(fromFL.Call.Args[1], provOpts{ThroughCall: throughAll})
			okArgs := false
			for _, l := range ls {
				if l.Kind == "call" && l.Name == "freelist.Interface.Allocate" {
					call := l.V.(*ssa.Call)
					a0 := provenance(call.Call.Args[0], provOpts{})
					a1 := provenance(call.Call.Args[1], provOpts{})
					okArgs = hasLeaf(a0, "param", "txid") && hasLeaf(a1, "param", "count")
				}
			}
			c.check(id+":(*DB).allocate:freelist-args", da, fromFL.Pos(), "freelist.Allocate receives the writer's txid and the requested count", okArgs, "Allocate is called with other arguments")
		}
	})
}

// C06.R3 / C09.R1: the only way into the free set is the release path
func ruleFreeSetEntry(c *Ctx, id string) {
	c.rule(id, "free-set-entry-chain", 6, func() {
		type spec struct {
			targets []string
			allowed map[string]bool
			what    string
		}
		specs := []spec{
			{[]string{"freelist.(*array).mergeSpans", "freelist.(*hashMap).mergeSpans"}, map[string]bool{"freelist.(*shared).release": true, "freelist.(*shared).releaseRange": true}, "mergeSpans (pending -> free) is called only from release / releaseRange"},
			{[]string{"freelist.(*shared).release", "freelist.(*shared).releaseRange"}, map[string]bool{"freelist.(*shared).ReleasePendingPages": true}, "release / releaseRange are called only from ReleasePendingPages"},
			{[]string{"freelist.(*shared).ReleasePendingPages"}, map[string]bool{"bbolt.(*DB).beginRWTx": true}, "ReleasePendingPages runs only at writer begin (before the new writer can have freed anything under its own txid)"},
			{[]string{"freelist.(*array).Init", "freelist.(*hashMap).Init"}, map[string]bool{"freelist.(*shared).Read": true, "freelist.(*shared).NoSyncReload": true, "bbolt.(*DB).loadFreelist$1": true}, "Init (replace the free set) is called only from Read / NoSyncReload / loadFreelist"},
			{[]string{"freelist.(*shared).Read"}, map[string]bool{"freelist.(*shared).Reload": true, "bbolt.(*DB).loadFreelist$1": true}, "Read is called only from Reload / loadFreelist"},
			{[]string{"freelist.(*shared).Reload", "freelist.(*shared).NoSyncReload"}, map[string]bool{"bbolt.(*Tx).rollback": true, "freelist.(*shared).Reload": true}, "Reload / NoSyncReload are called only from the physical rollback"},
		}
		for _, sp := range specs {
			for _, t := range sp.targets {
				f := c.fn(t)
				bad := ""
				callers := map[string]bool{}
				for _, cs := range c.callersOf(f) {
					n := shortFn(cs.Caller)
					callers[n] = true
					if !sp.allowed[n] {
						bad = n + " at " + c.P.Position(cs.Site.Pos())
					}
				}
				c.check(id+":"+t+":callers", f, f.Pos(), sp.what+fmt.Sprintf(" [%s graph: %v]", c.cgMode, sortedKeys(callers)), bad == "", "unexpected caller "+bad)
			}
		}
		// Free makes pages pending, never directly reusable
		free := c.fn("freelist.(*shared).Free")
		targets := map[string]bool{"freelist.(*array).mergeSpans": true, "freelist.(*hashMap).mergeSpans": true, "freelist.(*array).Init": true, "freelist.(*hashMap).Init": true,
			"freelist.(*hashMap).addSpan": true, "freelist.(*shared).release": true, "freelist.(*shared).releaseRange": true, "freelist.(*shared).ReleasePendingPages": true}
		p := c.reachPath([]*ssa.Function{free}, targets, nil)
		okStores := true
		detail := strings.Join(p, " -> ")
		// and Free does not store into the backends' free storage
		eachInstr(free, func(in ssa.Instruction) {
			if st, ok := in.(*ssa.Store); ok {
				if fa, ok := st.Addr.(*ssa.FieldAddr); ok {
					n := fieldOfAddr(fa).Name()
					if n == "ids" && !strings.Contains(fa.X.Type().String(), "txPending") {
						okStores = false
						detail = "Free stores into the free id list"
					}
				}
			}
		})
		c.check(id+":freelist.(*shared).Free:pending-only", free, free.Pos(), "Free reaches none of mergeSpans / addSpan / Init / release* and stores only into the pending set", p == nil && okStores, detail)
	})
}

// C06.R4: frees and rollbacks carry the writer's own txid
func c06R4(c *Ctx, id string) {
	c.rule(id, "free-under-own-txid", 6, func() {
		for _, fn := range c.P.FnsIn(rootPkg) {
			name := shortFn(fn)
			k := 0
			eachInstr(fn, func(in ssa.Instruction) {
				ci, ok := in.(ssa.CallInstruction)
				if !ok {
					return
				}
				cn := calleeOf(ci).Name()
				if cn != "freelist.Interface.Free" && cn != "freelist.Interface.Rollback" {
					return
				}
				k++
				arg := ci.Common().Args[0]
				ls := provenance(arg, provOpts{ThroughCall: throughAll})
				bad := ""
				saw := false
				for _, l := range ls {
					switch l.Kind {
					case "call":
						if l.Name == "common.(*Meta).Txid" {
							recv := pathOf(l.V.(*ssa.Call).Call.Args[0])
							if recv.Names() != "" && strings.HasSuffix(recv.Names(), "meta") && !strings.Contains(recv.Names(), "db.meta") {
								saw = true
							} else {
								bad = "txid taken from " + recv.Names()
							}
						} else {
							bad = "txid depends on " + l.Name
						}
					case "const":
						bad = "txid involves the constant " + l.Name
					case "global":
						bad = "txid depends on " + l.Name
					}
				}
				if !saw && bad == "" {
					bad = "txid does not derive from <tx>.meta.Txid()"
				}
				c.check(fmt.Sprintf("%s:%s:%s#%d", id, name, cn, k), fn, in.Pos(), cn+" is passed exactly <tx>.meta.Txid() of the writing transaction", bad == "", bad)
			})
		}
	})
}

// C06.R5: in node.spill the old page is freed before the replacement is allocated
func c06R5(c *Ctx, id string) {
	c.rule(id, "free-before-allocate", 1, func() {
		sp := c.fn("bbolt.(*node).spill")
		frees := callsIn(sp, "freelist.Interface.Free")
		allocs := plainCallsIn(sp, "bbolt.(*Tx).allocate")
		if len(frees) != 1 || len(allocs) != 1 {
			c.check(id+":(*node).spill:calls", sp, sp.Pos(), "one Free and one allocate in the split loop", false, fmt.Sprintf("%d Free, %d allocate", len(frees), len(allocs)))
			return
		}
		fr, al := frees[0].(ssa.Instruction), allocs[0]
		// loop header: the closest common dominator with a back edge
		var hdr *ssa.BasicBlock
		for b := al.Block(); b != nil; b = b.Idom() {
			if !b.Dominates(fr.Block()) {
				continue
			}
			for _, p := range b.Preds {
				if b.Dominates(p) {
					hdr = b
				}
			}
			if hdr != nil {
				break
			}
		}
		cut := func(e edge) bool { return hdr != nil && e.from.Succs[e.succ] == hdr }
		afterAlloc := reach([]ssa.Instruction{al}, nil, nil, cut)
		afterFree := reach([]ssa.Instruction{fr}, nil, nil, cut)
		ok := hdr != nil && !afterAlloc[fr] && afterFree[al]
		c.check(id+":(*node).spill:free<allocate", sp, fr.Pos(), "within one iteration of the split loop the old page is handed to Free before tx.allocate is called (the allocator cannot hand the old page straight back)", ok,
			"tx.allocate can run before the node's old page was freed")
	})
}

// offsetTable evaluates a file offset expression for sample (page id, page
// size) pairs and requires id*pageSize (the value on first entry of the chunk loop).
func offsetTable(c *Ctx, off ssa.Value) string {
	for _, row := range [][2]uint64{{2, 4096}, {7, 4096}, {5, 16384}, {1, 512}} {
		ev := &Evaluator{
			Load: func(u *ssa.UnOp) (V, bool) {
				if strings.HasSuffix(pathOf(u).Names(), "pageSize") {
					return iV(int64(row[1])), true
				}
				return unkV, false
			},
			Call: func(call *ssa.Call, args []V) (V, bool) {
				switch calleeOf(call).Name() {
				case "common.(*Page).Id":
					return uV(row[0]), true
				case "common.(*Page).Overflow":
					return uV(0), true
				}
				return unkV, false
			},
		}
		got := ev.ValueAtEntry(off)
		if g, ok := got.Int(); !ok || uint64(g) != row[0]*row[1] {
			return fmt.Sprintf("offset for page id %d with page size %d evaluates to %s, want %d", row[0], row[1], got, row[0]*row[1])
		}
	}
	return ""
}

// chunkAdvance: when the bytes written start at an offset INSIDE the page run that advances per
// chunk (a loop-carried value), the file offset must advance in the same loop — otherwise every chunk
// after the first lands at the start of the run.
func chunkAdvance(fn *ssa.Function, ci ssa.CallInstruction) string {
	loops := naturalLoops(fn)
	var hdr *ssa.BasicBlock
	size := 1 << 30
	for h, body := range loops {
		if body[ci.Block()] && len(body) < size {
			hdr, size = h, len(body)
		}
	}
	if hdr == nil {
		return ""
	}
	carried := func(v ssa.Value) bool {
		for _, l := range provenance(v, provOpts{ThroughCall: throughAll}) {
			if ph, ok := l.V.(*ssa.Phi); ok && ph.Block() == hdr {
				// a genuinely loop-carried phi: some edge comes from inside the loop and differs from the phi itself
				for i, e := range ph.Edges {
					if hdr.Dominates(ph.Block().Preds[i]) && e != ssa.Value(ph) {
						return true
					}
				}
			}
		}
		return false
	}
	bufAdvances := false
	for _, l := range provenance(ci.Common().Args[0], provOpts{}) {
		if l.Kind == "call" && l.Name == "common.UnsafeByteSlice" {
			if carried(l.V.(*ssa.Call).Call.Args[1]) {
				bufAdvances = true
			}
		}
	}
	if bufAdvances && !carried(ci.Common().Args[1]) {
		return "the buffer position advances from chunk to chunk but the file offset does not: later chunks of a large page run overwrite its beginning"
	}
	return ""
}
