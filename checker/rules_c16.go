package main

import (
	"fmt"
	"go/token"
	"go/types"
	"strings"

	"golang.org/x/tools/go/ssa"
)

func init() {
	register(&propDef{
		ID: "C16",
		Explanation: "Decided: a failing function aborts the whole attempt before anything is committed (inside the batch's Update closure the failing error is returned at once, with the failing index recorded); user functions only ever run inside the panic barrier safelyCall, which turns a panic into a non-nil error; " +
			"the submitter of the failing function — and only it — is told to retry alone, is removed from the batch before the retry, and never sees the internal trySolo sentinel; every other caller receives the Update result; the result channel can never block the runner (capacity >= 1) and a batch runs at most once (every reference to batch.run goes through its sync.Once). " +
			"Every batch created is armed with the trigger timer before the mutex is released (R5). " +
			"NOT decided: counting sends per caller over loop iterations (path counting over a runtime-sized slice), that the timer fires.",
		Run: func(c *Ctx) {
			c16R1(c, "C16.R1")
			c16R2(c, "C16.R2")
			c16R3(c, "C16.R3")
			c16R4(c, "C16.R4")
			c16R5(c, "C16.R5")
		},
	})
}

// batchUpdateClosure returns batch.run, the closure it passes to Update, and that call.
func batchUpdateClosure(c *Ctx) (*ssa.Function, *ssa.Function, *ssa.Call) {
	run := c.fn("bbolt.(*batch).run")
	for _, call := range plainCallsIn(run, "bbolt.(*DB).Update") {
		if cl := closureOf(call.Call.Args[1]); cl != nil {
			return run, cl, call
		}
	}
	panic(anchorErr{"closure passed to Update in (*batch).run"})
}

func c16R1(c *Ctx, id string) {
	c.rule(id, "failure-aborts-attempt", 1, func() {
		_, cl, _ := batchUpdateClosure(c)
		calls := plainCallsIn(cl, "bbolt.safelyCall")
		ok := len(calls) == 1
		detail := fmt.Sprintf("%d safelyCall calls", len(calls))
		if ok {
			sc := calls[0]
			ev := errValueOf(sc)
			tests := errTests(sc)
			if len(tests) == 0 {
				ok = false
				detail = "safelyCall's error is not tested"
			}
			for _, t := range tests {
				r := reach(nil, []*ssa.BasicBlock{t.NonNil}, nil, nil)
				if r[sc] {
					ok = false
					detail = "after a failing function the loop continues with the next function (the failed attempt would be committed)"
				}
				sawRet, sawIdx := false, false
				for in := range r {
					switch x := in.(type) {
					case *ssa.Return:
						sawRet = true
						rv := returnedValue(x, 0)
						same := rv == ev
						for _, l := range provenance(rv, provOpts{}) {
							if l.V == ev {
								same = true
							}
						}
						if !same || classifyReturn(x) == retSuccess {
							ok = false
							detail = "the failing function's error is not what the closure returns (Update would commit)"
						}
					case *ssa.Store:
						// the captured int variable that records the failing position (identified by role, not by name)
						if fv, isFV := x.Addr.(*ssa.FreeVar); isFV {
							if pt, isP := fv.Type().Underlying().(*types.Pointer); isP {
								if b, isB := pt.Elem().Underlying().(*types.Basic); isB && b.Info()&types.IsInteger != 0 {
									sawIdx = true
								}
							}
						}
					}
				}
				if !sawRet || !sawIdx {
					ok = false
					detail = fmt.Sprintf("on the failure edge: return=%v failIdx recorded=%v", sawRet, sawIdx)
				}
			}
			// the function called is the batch element's fn, with the Update transaction
			ls := provenance(sc.Call.Args[0], provOpts{})
			if !hasFieldLeaf(ls, "fn") {
				ok = false
				detail = "safelyCall is not given the queued function"
			}
			if p, isP := sc.Call.Args[1].(*ssa.Parameter); !isP || p != cl.Params[0] {
				ok = false
				detail = "the queued function does not receive the batch's transaction"
			}
		}
		c.check(id+":(*batch).run$closure:fail-fast", cl, cl.Pos(), "inside the batch's Update closure, a non-nil result of safelyCall records the failing index and is returned immediately (Update rolls the whole attempt back)", ok, detail)
	})
}

func c16R2(c *Ctx, id string) {
	c.rule(id, "panic-barrier", 2, func() {
		// the `fn` field of type call is only ever handed to safelyCall
		var fnF *types.Var
		if obj := c.P.Pkg(rootPkg).Types.Scope().Lookup("call"); obj != nil {
			if st, ok := obj.Type().Underlying().(*types.Struct); ok {
				for i := 0; i < st.NumFields(); i++ {
					if st.Field(i).Name() == "fn" {
						fnF = st.Field(i)
					}
				}
			}
		}
		if fnF == nil {
			panic(anchorErr{"field fn of type call"})
		}
		bad := ""
		n := 0
		for _, fn := range c.P.FnsIn(rootPkg) {
			eachInstr(fn, func(in ssa.Instruction) {
				var v ssa.Value
				switch x := in.(type) {
				case *ssa.Field:
					if fieldOfField(x) == fnF {
						v = x
					}
				case *ssa.UnOp:
					if fa, ok := x.X.(*ssa.FieldAddr); ok && x.Op == token.MUL && fieldOfAddr(fa) == fnF {
						v = x
					}
				}
				if v == nil {
					return
				}
				n++
				useClosure(v, func(user ssa.Instruction, alias ssa.Value) {
					if ci, ok := user.(ssa.CallInstruction); ok {
						if calleeOf(ci).Name() == "bbolt.safelyCall" && ci.Common().Args[0] == alias {
							return
						}
						if ci.Common().Value == alias {
							bad = "the queued function is invoked directly in " + shortFn(fn) + " (a panic escapes the batch and kills the other callers' work)"
							return
						}
						bad = "the queued function is passed to " + calleeOf(ci).Name() + " in " + shortFn(fn)
					}
				})
			})
		}
		c.check(id+":call.fn:only-via-safelyCall", nil, 0, fmt.Sprintf("a queued batch function (%d reads of call.fn) is only ever handed to safelyCall", n), bad == "" && n > 0, bad)
		sc := c.fn("bbolt.safelyCall")
		ok := false
		detail := "no deferred recover that assigns the named result"
		for _, d := range deferredCalls(sc) {
			cl := closureOf(d.Call.Value)
			if cl == nil || d.Block() != sc.Blocks[0] {
				continue
			}
			var rec *ssa.Call
			eachInstr(cl, func(in ssa.Instruction) {
				if call, isCall := in.(*ssa.Call); isCall && calleeOf(call).Builtin == "recover" {
					rec = call
				}
			})
			if rec == nil {
				continue
			}
			// on `p != nil` the named result err is assigned a panicked{...}
			for _, t := range nilTestsDirect(rec) {
				for _, in := range t.NonNil.Instrs {
					if st, isSt := in.(*ssa.Store); isSt {
						if _, isFV := st.Addr.(*ssa.FreeVar); isFV && isErrorType(st.Val.Type()) {
							if mi, isMI := st.Val.(*ssa.MakeInterface); isMI && strings.HasSuffix(mi.X.Type().String(), "panicked") {
								ok = true
							}
						}
					}
				}
			}
		}
		// and the user function is called after the defer is registered
		okCall := false
		eachInstr(sc, func(in ssa.Instruction) {
			if call, isCall := in.(*ssa.Call); isCall {
				if p, isP := resolveCell(call.Call.Value).(*ssa.Parameter); isP && p == sc.Params[0] {
					okCall = len(deferredCalls(sc)) > 0 && dominates(deferredCalls(sc)[0], call)
				}
			}
		})
		c.check(id+":bbolt.safelyCall:recover", sc, sc.Pos(), "safelyCall invokes the function under a deferred recover that turns a panic into a non-nil `panicked` error (its named result)", ok && okCall, detail)
	})
}

func c16R3(c *Ctx, id string) {
	c.rule(id, "only-the-failing-caller-retries", 4, func() {
		run, _, upd := batchUpdateClosure(c)
		callsF := c.P.lookupField(rootPkg, "batch", "calls")
		// the branch on failIdx >= 0
		var br *ssa.If
		eachInstr(run, func(in ssa.Instruction) {
			iff, ok := in.(*ssa.If)
			if !ok {
				return
			}
			bo, ok := iff.Cond.(*ssa.BinOp)
			if !ok || bo.Op != token.GEQ {
				return
			}
			if k, isC := constInt(bo.Y); isC && k == 0 && dominates(upd, iff) {
				br = iff
			}
		})
		if br == nil {
			c.check(id+":(*batch).run:failIdx-branch", run, run.Pos(), "run branches on failIdx >= 0 after the Update", false, "branch not found")
			return
		}
		failIdx := br.Cond.(*ssa.BinOp).X
		tBlk, fBlk := br.Block().Succs[0], br.Block().Succs[1]
		hdrs := naturalLoops(run)
		var outer *ssa.BasicBlock
		for h, body := range hdrs {
			if body[upd.Block()] && (outer == nil || len(body) > len(hdrs[outer])) {
				outer = h
			}
		}
		// (a) failing branch: trySolo to calls[failIdx], removal, continue
		okSolo, okRemove, okCont := false, false, false
		tr := reach(nil, []*ssa.BasicBlock{tBlk}, func(in ssa.Instruction) bool { return outer != nil && in == outer.Instrs[0] }, nil)
		for in := range tr {
			switch x := in.(type) {
			case *ssa.Send:
				if ld, ok := x.X.(*ssa.UnOp); ok {
					if g, isG := ld.X.(*ssa.Global); isG && g.Name() == "trySolo" {
						// the channel belongs to b.calls[failIdx]
						for _, l := range provenance(x.Chan, provOpts{}) {
							if ia, isIA := l.V.(*ssa.IndexAddr); isIA && sameValue(ia.Index, failIdx) {
								okSolo = true
							}
							if ld2, isLd := l.V.(*ssa.UnOp); isLd {
								if ia, isIA := ld2.X.(*ssa.IndexAddr); isIA && sameValue(ia.Index, failIdx) {
									okSolo = true
								}
							}
						}
					}
				}
			case *ssa.Store:
				if pathOf(x.Addr).Last() == callsF {
					if _, isSlice := x.Val.(*ssa.Slice); isSlice {
						okRemove = true
					}
				}
			}
			if outer != nil && in == outer.Instrs[0] {
				okCont = true
			}
		}
		c.check(id+":(*batch).run:failing-caller-gets-trySolo", run, br.Pos(), "on failIdx >= 0 the call at index failIdx — and only it — receives trySolo", okSolo, "trySolo is not sent on b.calls[failIdx].err")
		c.check(id+":(*batch).run:failing-caller-removed", run, br.Pos(), "the failing call is removed from b.calls and the remaining batch is retried", okRemove && okCont, fmt.Sprintf("removed=%v retried=%v", okRemove, okCont))
		// (b) other branch: everybody gets the Update result, then the loop ends
		okAll, okEnd := false, true
		fr := reach(nil, []*ssa.BasicBlock{fBlk}, nil, nil)
		for in := range fr {
			if s, isSend := in.(*ssa.Send); isSend {
				same := false
				for _, l := range provenance(s.X, provOpts{}) {
					if l.V == ssa.Value(upd) {
						same = true
					}
				}
				if same {
					okAll = true
				}
			}
			if in == ssa.Instruction(upd) {
				okEnd = false
			}
		}
		c.check(id+":(*batch).run:others-get-update-result", run, br.Pos(), "without a failing function every queued caller receives the Update result and the batch ends (no second attempt)", okAll && okEnd, fmt.Sprintf("result sent=%v loop ends=%v", okAll, okEnd))
		// (c) Batch: trySolo never reaches the caller
		bt := c.fn("bbolt.(*DB).Batch")
		okB := false
		detail := "the received value is not compared with trySolo"
		eachInstr(bt, func(in ssa.Instruction) {
			bo, ok := in.(*ssa.BinOp)
			if !ok || bo.Op != token.EQL {
				return
			}
			isSolo := func(v ssa.Value) bool {
				ld, ok := v.(*ssa.UnOp)
				if !ok {
					return false
				}
				g, ok := ld.X.(*ssa.Global)
				return ok && g.Name() == "trySolo"
			}
			var recv ssa.Value
			if isSolo(bo.Y) {
				recv = bo.X
			} else if isSolo(bo.X) {
				recv = bo.Y
			}
			if recv == nil {
				return
			}
			if u, isU := recv.(*ssa.UnOp); !isU || u.Op != token.ARROW {
				return
			}
			for _, r := range *bo.Referrers() {
				iff, isIf := r.(*ssa.If)
				if !isIf {
					continue
				}
				// true edge: Update(fn) with Batch's own fn; the function returns phi(received, Update result)
				for _, up := range plainCallsIn(bt, "bbolt.(*DB).Update") {
					if !blockDominatedByEdge(iff.Block(), iff.Block().Succs[0], up.Block()) {
						continue
					}
					if p, isP := resolveCell(up.Call.Args[1]).(*ssa.Parameter); !isP || p.Name() != "fn" {
						detail = "the solo retry does not run the caller's own function"
						continue
					}
					leak := false
					for x := range reach(nil, []*ssa.BasicBlock{iff.Block().Succs[0]}, func(y ssa.Instruction) bool { return y == ssa.Instruction(up) }, nil) {
						if _, isR := x.(*ssa.Return); isR {
							leak = true
						}
					}
					if leak {
						detail = "a received trySolo can be returned to the caller without running db.Update(fn)"
						continue
					}
					for _, ret := range returnsOf(bt) {
						if phi, isPhi := returnedValue(ret, 0).(*ssa.Phi); isPhi {
							a, b := false, false
							for _, e := range phi.Edges {
								if e == recv {
									a = true
								}
								if e == ssa.Value(up) {
									b = true
								}
							}
							okB = a && b
						}
					}
				}
			}
		})
		c.check(id+":(*DB).Batch:trySolo-replaced", bt, bt.Pos(), "Batch replaces a received trySolo by the result of db.Update(fn) with the caller's own function: the sentinel never reaches a caller", okB, detail)
	})
}

func c16R4(c *Ctx, id string) {
	c.rule(id, "runner-never-blocks-and-runs-once", 3, func() {
		bt := c.fn("bbolt.(*DB).Batch")
		okCap := false
		eachInstr(bt, func(in ssa.Instruction) {
			if mc, ok := in.(*ssa.MakeChan); ok {
				if k, isC := constInt(mc.Size); isC && k >= 1 {
					okCap = true
				}
			}
		})
		c.check(id+":(*DB).Batch:buffered-result-channel", bt, bt.Pos(), "the per-caller result channel has capacity >= 1: the runner's send can never block on a caller", okCap, "unbuffered result channel")
		// every reference to (*batch).run goes through the batch's sync.Once
		run := c.fn("bbolt.(*batch).run")
		startF := c.P.lookupField(rootPkg, "batch", "start")
		bad := ""
		refs := 0
		for _, fn := range c.P.FnsIn(rootPkg) {
			eachInstr(fn, func(in ssa.Instruction) {
				// direct calls
				if ci, ok := in.(ssa.CallInstruction); ok && calleeOf(ci).Static == run {
					refs++
					// the closure form of the method value: func() { b.run() } handed to b.start.Do and to nothing else
					okThunk := false
					if thunkTarget(fn) == run && fn.Parent() != nil {
						okThunk = true
						n := 0
						eachInstr(fn.Parent(), func(pin ssa.Instruction) {
							if mc, isMC := pin.(*ssa.MakeClosure); isMC && mc.Fn == ssa.Value(fn) {
								for _, r := range *mc.Referrers() {
									n++
									if cu, isCall := r.(ssa.CallInstruction); !isCall || calleeOf(cu).Name() != "sync.(*Once).Do" || pathOf(cu.Common().Args[0]).Last() != startF {
										okThunk = false
									}
								}
							}
						})
						if n == 0 {
							okThunk = false
						}
					}
					if !okThunk {
						bad = "run is called directly in " + shortFn(fn)
					}
				}
				// bound method values b.run
				if mc, ok := in.(*ssa.MakeClosure); ok {
					if f, isF := mc.Fn.(*ssa.Function); isF && strings.HasPrefix(shortFn(f), "bbolt.(*batch).run$bound") {
						refs++
						okUse := false
						for _, r := range *mc.Referrers() {
							if ci, isCall := r.(ssa.CallInstruction); isCall && calleeOf(ci).Name() == "sync.(*Once).Do" {
								if pathOf(ci.Common().Args[0]).Last() == startF {
									okUse = true
								}
							}
						}
						if !okUse {
							bad = "the method value b.run is used outside b.start.Do(...) in " + shortFn(fn) + " (a batch can run twice: timer and size trigger)"
						}
					}
				}
			})
		}
		c.check(id+":(*batch).run:only-via-Once", run, run.Pos(), fmt.Sprintf("batch.run is referenced only as the argument of b.start.Do (%d references): a batch runs at most once however it is triggered", refs), bad == "" && refs >= 1, bad)
		// run detaches the batch from db.batch before executing it
		batchF := c.dbField("batch")
		okDetach := false
		_, _, upd := batchUpdateClosure(c)
		for _, st := range storesToField([]*ssa.Function{run}, batchF) {
			if isNilConst(st.Val) && dominatesOrBefore(st.Instr, upd) {
				okDetach = true
			}
		}
		c.check(id+":(*batch).run:detached-before-running", run, run.Pos(), "run clears db.batch (when it still points at this batch) before the first Update: no caller can join a batch that is already running", okDetach, "db.batch is not cleared before the Update")
	})
}

// dominatesOrBefore: a precedes b on every path to b, allowing a to sit in a conditional block that rejoins before b.
func dominatesOrBefore(a, b ssa.Instruction) bool {
	if dominates(a, b) {
		return true
	}
	return reach([]ssa.Instruction{a}, nil, nil, nil)[b] && !reach([]ssa.Instruction{b}, nil, nil, nil)[a]
}

// c16R5: a caller that joined a batch is only ever served by that batch's run; run is started by the timer
// (or by the size trigger). Every batch Batch creates must therefore be armed: before the mutex is released,
// time.AfterFunc is called with the trigger method value. (Necessary for "Batch returns": an unarmed,
// never-filled batch leaves its callers blocked forever.)
func c16R5(c *Ctx, id string) {
	c.rule(id, "every-batch-is-armed", 1, func() {
		bt := c.fn("bbolt.(*DB).Batch")
		batchF := c.dbField("batch")
		var creates []ssa.Instruction
		for _, st := range storesToField([]*ssa.Function{bt}, batchF) {
			if !isNilConst(st.Val) {
				creates = append(creates, st.Instr)
			}
		}
		var arms []ssa.Instruction
		for _, ci := range callsIn(bt, "time.AfterFunc") {
			ok := false
			for _, l := range provenance(ci.Common().Args[1], provOpts{}) {
				if l.Kind == "func" && strings.Contains(l.Name, "(*batch).trigger") {
					ok = true
				}
			}
			if mc, isMC := ci.Common().Args[1].(*ssa.MakeClosure); isMC {
				if f, isF := mc.Fn.(*ssa.Function); isF && strings.Contains(shortFn(f), "(*batch).trigger") {
					ok = true
				}
				// func() { b.trigger() }
				if f, isF := mc.Fn.(*ssa.Function); isF {
					if t := thunkTarget(f); t != nil && strings.Contains(shortFn(t), "(*batch).trigger") {
						ok = true
					}
				}
			}
			if ok {
				arms = append(arms, ci)
			}
		}
		unlocks := callsIn(bt, "sync.(*Mutex).Unlock")
		bad := ""
		if len(creates) == 0 {
			bad = "no store of a new batch into db.batch found"
		}
		for _, st := range creates {
			isArm := func(in ssa.Instruction) bool {
				for _, a := range arms {
					if a == in {
						return true
					}
				}
				return false
			}
			// armed before being published: the timer was created for the very batch value this store publishes
			armedBefore := false
			for _, a := range arms {
				if mc, isMC := a.(ssa.CallInstruction).Common().Args[1].(*ssa.MakeClosure); isMC && len(mc.Bindings) == 1 && dominates(a, st) {
					if sameValue(mc.Bindings[0], st.(*ssa.Store).Val) {
						armedBefore = true
					}
				}
			}
			if armedBefore {
				continue
			}
			r := reach([]ssa.Instruction{st}, nil, isArm, nil)
			for _, u := range unlocks {
				if r[u] {
					bad = "a new batch can be published (mutex released) without time.AfterFunc(…, batch.trigger) having been called: if it never fills up, its callers wait forever"
				}
			}
		}
		pos := bt.Pos()
		if len(creates) > 0 {
			pos = creates[0].Pos()
		}
		c.check(id+":(*DB).Batch:new-batch-armed", bt, pos, "every batch created by Batch is armed with time.AfterFunc(MaxBatchDelay, batch.trigger) before batchMu is released", bad == "", bad)
	})
}
