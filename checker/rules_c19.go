package main

import (
	"go/token"
	"fmt"
	"strings"

	"golang.org/x/tools/go/ssa"
)

func init() {
	register(&propDef{
		ID: "C19",
		Explanation: "Decided: each listed corruption class still has a detector wired to the error channel, identified by the data it tests and not by its message (freed twice, referenced twice, reachable yet free, invalid page type, unreachable yet not free, and the three key-order comparisons — the latter tabulated over all outcomes of compareKeys); " +
			"a panic while walking a corrupt file becomes a reported error and the channel is closed on every path; the walk reaches no mutator, allocator or file writer; the CLI counts every reported problem, returns a non-nil error when the count is positive, that error reaches os.Exit(1), and the database is opened ReadOnly. " +
			"NOT decided: whether Check's verdict equals an independent decoder's on every (corrupted) file — in particular 'reports no problem on any file produced by committed transactions' (dynamic). Round 3: every id recorded as reachable (head and overflow pages) is looked up under the same key first; the CLI's count->error decision is decided by executing the closure. Round 4: shared.Read hands the freelist page's ids to Init unfiltered.",
		Run: func(c *Ctx) {
			ruleEveryNestedBucketChecked(c, "C19.R8")
			ruleFreelistReadVerbatim(c, "C19.R7") // "freed twice" is found on the list Read builds
			c19R1(c, "C19.R1")
			c19R2(c, "C19.R2")
			c19R3(c, "C19.R3")
			c19R4(c, "C19.R4")
			rulePageTypeExact(c, "C19.R5")
			ruleOncePublication(c, "C19.R6") // concurrent checks on a read-only database must not see a half-built free list (spurious "unreachable unfreed")
		},
	})
}

// controllingConds: conditions of the branches the instruction's block is control-dependent on (dominance approximation).
func controllingConds(in ssa.Instruction) []ssa.Value {
	var out []ssa.Value
	target := in.Block()
	for b := target.Idom(); b != nil; b = b.Idom() {
		if len(b.Instrs) == 0 {
			continue
		}
		iff, ok := b.Instrs[len(b.Instrs)-1].(*ssa.If)
		if !ok {
			continue
		}
		for _, s := range b.Succs {
			if len(s.Preds) == 1 && (s == target || s.Dominates(target)) {
				out = append(out, iff.Cond)
			}
		}
	}
	return out
}

type sendFeat struct {
	send    *ssa.Send
	lookups []string // names of the maps looked up in the controlling conditions
	calls   []string
}

func sendFeatures(fn *ssa.Function) []sendFeat {
	var out []sendFeat
	eachInstr(fn, func(in ssa.Instruction) {
		s, ok := in.(*ssa.Send)
		if !ok {
			return
		}
		f := sendFeat{send: s}
		conds := controllingConds(in)
		for _, cond := range append([]ssa.Value{}, conds...) {
			conds = append(conds, shortCircuitConds(cond)...)
		}
		for _, cond := range conds {
			for _, l := range provenance(cond, provOpts{ThroughCall: throughAll}) {
				switch l.Kind {
				case "lookup":
					lk := l.V.(*ssa.Lookup)
					f.lookups = append(f.lookups, mapName(lk.X))
				case "call":
					f.calls = append(f.calls, l.Name)
				}
			}
		}
		out = append(out, f)
	})
	return out
}

// shortCircuitConds: a condition that is (the negation of) a phi built by `a || b` / `a && b` is decided by the If
// conditions of the blocks between the phi's dominator and the phi; those are returned (recursively).
func shortCircuitConds(cond ssa.Value) []ssa.Value {
	var out []ssa.Value
	seen := map[ssa.Value]bool{}
	var walk func(v ssa.Value)
	walk = func(v ssa.Value) {
		if v == nil || seen[v] {
			return
		}
		seen[v] = true
		switch x := v.(type) {
		case *ssa.UnOp:
			if x.Op == token.NOT {
				walk(x.X)
			}
		case *ssa.Phi:
			top := x.Block().Idom()
			vis := map[*ssa.BasicBlock]bool{}
			var back func(b *ssa.BasicBlock)
			back = func(b *ssa.BasicBlock) {
				if b == nil || vis[b] {
					return
				}
				vis[b] = true
				if iff, ok := b.Instrs[len(b.Instrs)-1].(*ssa.If); ok {
					out = append(out, iff.Cond)
					walk(iff.Cond)
				}
				if b == top {
					return
				}
				for _, p := range b.Preds {
					back(p)
				}
			}
			for _, p := range x.Block().Preds {
				back(p)
			}
			for _, e := range x.Edges {
				walk(e)
			}
		}
	}
	walk(cond)
	return out
}

// mapName names a map operand by the parameter or local variable it is.
func mapName(v ssa.Value) string {
	// by type first (robust against renames): the map of *Page values is the reachable map, the bool map the freed map
	if t := v.Type().String(); strings.HasPrefix(t, "map[") {
		if strings.Contains(t, "common.Page") {
			return "reachable"
		}
		if strings.HasSuffix(t, "]bool") {
			return "freed"
		}
	}
	v = resolveCell(v)
	switch x := v.(type) {
	case *ssa.Parameter:
		return x.Name()
	case *ssa.MakeMap:
		// a local: find the name through its DebugRef / referrers is unavailable; use the comment of the cell it is stored in
		if x.Referrers() != nil {
			for _, r := range *x.Referrers() {
				if st, ok := r.(*ssa.Store); ok {
					if a, ok := st.Addr.(*ssa.Alloc); ok {
						return a.Comment
					}
				}
			}
		}
		return "local:" + x.Type().String()
	case *ssa.UnOp:
		if a, ok := x.X.(*ssa.Alloc); ok {
			return a.Comment
		}
		if fv, ok := x.X.(*ssa.FreeVar); ok {
			return fv.Name()
		}
	}
	return v.Name()
}

func has(list []string, s string) bool {
	for _, x := range list {
		if x == s {
			return true
		}
	}
	return false
}

func c19R1(c *Ctx, id string) {
	c.rule(id, "detectors-present", 8, func() {
		chk := c.fn("bbolt.(*Tx).check")
		vpr := c.fn("bbolt.verifyPageReachable")
		// the detectors of (*Tx).check may live in helpers extracted from it: every package-local function check calls
		// (two levels) that sends on an error channel and is not one of the recursive walkers
		chkTree := []*ssa.Function{chk}
		{
			seen := map[*ssa.Function]bool{chk: true, vpr: true}
			for i := 0; i < len(chkTree) && i < 16; i++ {
				eachInstr(chkTree[i], func(in ssa.Instruction) {
					call, ok := in.(*ssa.Call)
					if !ok {
						return
					}
					f := calleeOf(call).Static
					if f == nil || seen[f] || fnPkg(f) == nil || fnPkg(f).Path() != rootPkg || strings.Contains(f.Name(), "recursivelyCheck") || f.Name() == "checkInvariantProperties" {
						return
					}
					seen[f] = true
					hasSend := false
					eachInstr(f, func(i2 ssa.Instruction) {
						if _, ok := i2.(*ssa.Send); ok {
							hasSend = true
						}
					})
					if hasSend {
						chkTree = append(chkTree, f)
					}
				})
			}
		}
		var cf []sendFeat
		copyalls := 0
		for _, f := range chkTree {
			cf = append(cf, sendFeatures(f)...)
			copyalls += len(callsIn(f, "freelist.Interface.Copyall"))
		}
		vf := sendFeatures(vpr)
		// map types distinguish freed (map[Pgid]bool) from reachable (map[Pgid]*Page)
		typeOf := func(f sendFeat, want string) bool {
			for _, cond := range controllingConds(f.send) {
				for _, l := range provenance(cond, provOpts{ThroughCall: throughAll}) {
					if l.Kind == "lookup" && strings.Contains(l.V.(*ssa.Lookup).X.Type().String(), want) {
						return true
					}
				}
			}
			return false
		}
		find := func(fs []sendFeat, pred func(sendFeat) bool) *sendFeat {
			for i := range fs {
				if pred(fs[i]) {
					return &fs[i]
				}
			}
			return nil
		}
		// (i) freed twice: a send under a lookup in the bool map while enumerating freelist.Copyall
		d1 := find(cf, func(f sendFeat) bool { return typeOf(f, "]bool") && !typeOf(f, "*go.etcd.io/bbolt/internal/common.Page") })
		okCopy := copyalls == 1
		c.check(id+":(*Tx).check:freed-twice", chk, chk.Pos(), "a repeated id while enumerating freelist.Copyall is sent to the error channel (freed twice)", d1 != nil && okCopy, "no send is controlled by a hit in the `freed` map during the enumeration")
		// (v) unreachable yet not free: a send under both maps, in the loop bounded by meta.Pgid()
		d5 := find(cf, func(f sendFeat) bool { return typeOf(f, "]bool") && typeOf(f, "*go.etcd.io/bbolt/internal/common.Page") })
		okLoop := false
		if d5 != nil {
			for _, cond := range controllingConds(d5.send) {
				for _, l := range provenance(cond, provOpts{ThroughCall: throughAll}) {
					if l.Kind == "call" && l.Name == "common.(*Meta).Pgid" {
						okLoop = true
					}
				}
			}
		}
		c.check(id+":(*Tx).check:unreachable-unfreed", chk, chk.Pos(), "every page id below the high-water mark that is in neither the reachable nor the freed map is sent to the error channel", d5 != nil && okLoop, "no send is controlled by misses in both maps under the loop up to meta.Pgid()")
		// (ii) referenced twice
		d2 := find(vf, func(f sendFeat) bool { return typeOf(f, "*go.etcd.io/bbolt/internal/common.Page") })
		c.check(id+":bbolt.verifyPageReachable:referenced-twice", vpr, vpr.Pos(), "a hit in the `reachable` map while marking a page is sent to the error channel (referenced twice)", d2 != nil, "no send is controlled by a lookup in the reachable map")
		// the page is then marked
		marks := 0
		eachInstr(vpr, func(in ssa.Instruction) {
			if mu, ok := in.(*ssa.MapUpdate); ok && strings.Contains(mu.Map.Type().String(), "common.Page") {
				marks++
			}
		})
		c.check(id+":bbolt.verifyPageReachable:marks", vpr, vpr.Pos(), "every visited page (and its overflow pages) is recorded in the reachable map", marks == 1, fmt.Sprintf("%d map updates", marks))
		// every id that is marked reachable is first tested for an earlier reference: the lookup that controls the
		// "referenced twice" report uses the very key the map update uses (head page AND each overflow page)
		{
			badKey := ""
			nMarks := 0
			eachInstr(vpr, func(in ssa.Instruction) {
				mu, ok := in.(*ssa.MapUpdate)
				if !ok || !strings.Contains(mu.Map.Type().String(), "common.Page") {
					return
				}
				nMarks++
				tested := false
				if d2 != nil {
					for _, cond := range append(controllingConds(d2.send), func() []ssa.Value {
						var o []ssa.Value
						for _, cv := range controllingConds(d2.send) {
							o = append(o, shortCircuitConds(cv)...)
						}
						return o
					}()...) {
						for _, l := range provenance(cond, provOpts{ThroughCall: throughAll}) {
							if lk, isLk := l.V.(*ssa.Lookup); isLk && strings.Contains(lk.X.Type().String(), "common.Page") {
								if (lk.Index == mu.Key || sameValue(lk.Index, mu.Key)) && dominates(lk, mu) {
									tested = true
								}
							}
						}
					}
				}
				if !tested {
					badKey = "an id is marked reachable at " + c.P.Position(mu.Pos()) + " without having been looked up first: a second reference to that page (e.g. through an overflow run that overlaps it) is not reported"
				}
			})
			c.check(id+":bbolt.verifyPageReachable:tested-before-marked", vpr, vpr.Pos(), "each id recorded in the reachable map (the page and every overflow page) is looked up under the same key first, and a hit is reported", badKey == "" && nMarks > 0, badKey)
		}
		// (iii) reachable yet free
		d3 := find(vf, func(f sendFeat) bool { return typeOf(f, "]bool") && !has(f.calls, "common.(*Page).IsBranchPage") })
		c.check(id+":bbolt.verifyPageReachable:reachable-freed", vpr, vpr.Pos(), "a reachable page found in the `freed` map is sent to the error channel (reachable yet free)", d3 != nil, "no send is controlled by a lookup in the freed map")
		// (iv) invalid type
		d4 := find(vf, func(f sendFeat) bool { return has(f.calls, "common.(*Page).IsBranchPage") && has(f.calls, "common.(*Page).IsLeafPage") })
		c.check(id+":bbolt.verifyPageReachable:invalid-type", vpr, vpr.Pos(), "a reachable page that is neither a branch nor a leaf page is sent to the error channel (invalid type)", d4 != nil, "no send is controlled by the page-type tests")
		// truth tables of the detector conditions: which combinations of the tested facts report a problem
		tab := func(fn *ssa.Function, send *sendFeat, names []string, want func(v map[string]bool) bool, key, fact string) {
			if send == nil {
				return
			}
			bad := ""
			rows := 0
			for mask := 0; mask < 1<<len(names); mask++ {
				vals := map[string]bool{}
				for i, n := range names {
					vals[n] = mask&(1<<i) != 0
				}
				rows++
				got := sendReachableUnder(send.send.Parent(), send.send, vals)
				if got != want(vals) {
					bad = fmt.Sprintf("%v: reported=%v, want %v", vals, got, want(vals))
				}
			}
			c.check(id+":"+key, fn, send.send.Pos(), fmt.Sprintf("%s (%d rows)", fact, rows), bad == "", bad)
		}
		tab(chk, d5, []string{"reachable", "freed"}, func(v map[string]bool) bool { return !v["reachable"] && !v["freed"] }, "(*Tx).check:unreachable-unfreed:table", "reported iff the id is in neither map")
		tab(chk, d1, []string{"freed"}, func(v map[string]bool) bool { return v["freed"] }, "(*Tx).check:freed-twice:table", "reported iff the id was already seen in the freed map")
		tab(vpr, d2, []string{"reachable"}, func(v map[string]bool) bool { return v["reachable"] }, "bbolt.verifyPageReachable:referenced-twice:table", "reported iff the id is already in the reachable map")
		tab(vpr, d3, []string{"freed", "branch", "leaf"}, func(v map[string]bool) bool { return v["freed"] }, "bbolt.verifyPageReachable:reachable-freed:table", "reported iff the page is in the freed map")
		tab(vpr, d4, []string{"freed", "branch", "leaf"}, func(v map[string]bool) bool { return !v["freed"] && !v["branch"] && !v["leaf"] }, "bbolt.verifyPageReachable:invalid-type:table", "reported iff the page is neither a branch nor a leaf page (and not already reported as freed)")
		// verifyPageReachable is applied to every page of every bucket
		cip := c.fn("bbolt.(*Tx).checkInvariantProperties")
		okWalk := false
		for _, fe := range plainCallsIn(cip, "bbolt.(*Tx).forEachPage") {
			if cl := closureOf(fe.Call.Args[2]); cl != nil && len(plainCallsIn(cl, "bbolt.verifyPageReachable")) == 1 {
				okWalk = true
			}
		}
		okWalk = okWalk && len(plainCallsIn(cip, "bbolt.(*Tx).recursivelyCheckPageKeyOrder")) == 1
		c.check(id+":(*Tx).checkInvariantProperties:wiring", cip, cip.Pos(), "each bucket's page tree is walked with verifyPageReachable on every page, followed by the key-order check", okWalk, "a detector is no longer invoked")
		// (vi) key order: tabulated
		vko := c.fn("bbolt.verifyKeyOrder")
		bad := ""
		rows := 0
		for _, index := range []int64{0, 2} {
			for _, prevNil := range []bool{true, false} {
				for _, maxNil := range []bool{true, false} {
					for _, cPK := range []int64{-1, 0, 1} {
						for _, cKM := range []int64{-1, 0, 1} {
							rows++
							sends := 0
							ev := &Evaluator{
								Param: func(p *ssa.Parameter) (V, bool) {
									switch p.Name() {
									case "index":
										return iV(index), true
									case "previousKey":
										if prevNil {
											return nilV, true
										}
										return symV("prev"), true
									case "maxKeyOpen":
										if maxNil {
											return nilV, true
										}
										return symV("max"), true
									case "key":
										return symV("key"), true
									}
									return unkV, false
								},
								Call: func(call *ssa.Call, args []V) (V, bool) {
									if calleeOf(call).Name() == "bbolt.compareKeys" && len(args) == 2 {
										if args[1].K == vSym && args[1].S == "max" {
											return iV(cKM), true
										}
										return iV(cPK), true
									}
									return unkV, false
								},
								OnInstr: func(in ssa.Instruction) {
									if _, ok := in.(*ssa.Send); ok {
										sends++
									}
								},
							}
							o := ev.Exec(vko, nil)
							want := 0
							if index == 0 && !prevNil && cPK > 0 {
								want++
							}
							if index > 0 && cPK > 0 {
								want++
							}
							if index > 0 && cPK == 0 {
								want++
							}
							if !maxNil && cKM >= 0 {
								want++
							}
							if index > 0 && prevNil {
								continue // not a reachable call shape: runningMin is set after the first element
							}
							if o.Kind != "return" || sends != want {
								bad = fmt.Sprintf("index=%d prevNil=%v maxNil=%v cmp(prev,key)=%d cmp(key,max)=%d: %d problems reported, want %d (%s)", index, prevNil, maxNil, cPK, cKM, sends, want, o)
							}
						}
					}
				}
			}
		}
		c.check(id+":bbolt.verifyKeyOrder:table", vko, vko.Pos(), fmt.Sprintf("the three key-order comparisons (first key >= ancestor key, strictly increasing within a page, below the parent's next key) report exactly the out-of-order outcomes (%d rows over index, nil-ness and both compareKeys results)", rows), bad == "", bad)
		// the key-order walk applies verifyKeyOrder to every branch and leaf element
		rk := c.fn("bbolt.(*Tx).recursivelyCheckPageKeyOrderInternal")
		vks := plainCallsIn(rk, "bbolt.verifyKeyOrder")
		recs := plainCallsIn(rk, "bbolt.(*Tx).recursivelyCheckPageKeyOrderInternal")
		okW := len(vks) == 2 && len(recs) == 1
		detailW := fmt.Sprintf("%d verifyKeyOrder calls, %d recursive calls", len(vks), len(recs))
		if okW {
			for _, call := range append(append([]*ssa.Call{}, vks...), recs...) {
				if !mustPassInLoop(rk, call) {
					okW = false
					detailW = calleeOf(call).Name() + " at " + c.P.Position(call.Pos()) + " is not executed for every element of the page (an iteration can skip it)"
				}
			}
		}
		c.check(id+":(*Tx).recursivelyCheckPageKeyOrderInternal:wiring", rk, rk.Pos(), "verifyKeyOrder is applied to every element in the branch arm and in the leaf arm, and the walk recurses into every branch element", okW, detailW)
		// the bounds handed to the child: [elem.Key(), next element's key or the inherited upper bound)
		if len(recs) == 1 {
			rc := recs[0]
			okB := false
			detailB := "the child's lower bound is not the key of the branch element that points to it"
			pg, isPg := rc.Call.Args[1].(*ssa.Call)
			mn, isMn := rc.Call.Args[2].(*ssa.Call)
			if isPg && isMn && calleeOf(pg).Name() == "common.(*branchPageElement).Pgid" && calleeOf(mn).Name() == "common.(*branchPageElement).Key" {
				okB = pg.Call.Args[0] == mn.Call.Args[0]
			}
			if okB {
				// upper bound: the next element's key, or maxKeyOpen for the last element
				ls := provenance(rc.Call.Args[3], provOpts{})
				if !(hasLeaf(ls, "param", "maxKeyOpen") && hasLeaf(ls, "call", "common.(*branchPageElement).Key")) {
					okB = false
					detailB = "the child's upper bound is not {next element's key | inherited bound}"
				}
			}
			c.check(id+":(*Tx).recursivelyCheckPageKeyOrderInternal:child-bounds", rk, rc.Pos(), "each child subtree is checked against [its separator key in the parent, the next separator or the inherited upper bound)", okB, detailB)
		}
	})
}

func c19R2(c *Ctx, id string) {
	c.rule(id, "panic-becomes-error", 2, func() {
		chk := c.fn("bbolt.(*Tx).check")
		ok := false
		for _, d := range deferredCalls(chk) {
			cl := closureOf(d.Call.Value)
			if cl == nil {
				continue
			}
			rec, snd := false, false
			eachInstr(cl, func(in ssa.Instruction) {
				if call, isCall := in.(*ssa.Call); isCall && calleeOf(call).Builtin == "recover" {
					rec = true
				}
				if _, isSend := in.(*ssa.Send); isSend {
					snd = true
				}
			})
			if rec && snd && d.Block() == chk.Blocks[0] {
				ok = true
			}
		}
		c.check(id+":(*Tx).check:recover->channel", chk, chk.Pos(), "tx.check runs under a deferred recover (registered first thing) that forwards a panic to the error channel", ok, "no deferred recover+send at the start of tx.check")
		ck := c.fn("bbolt.(*Tx).Check")
		ok2 := false
		for _, a := range ck.AnonFuncs {
			calls := plainCallsIn(a, "bbolt.(*Tx).check")
			if len(calls) != 1 {
				continue
			}
			for _, d := range deferredCalls(a) {
				if calleeOf(d).Builtin == "close" && dominates(d, calls[0]) {
					ok2 = true
				}
			}
		}
		// and it is launched
		launched := false
		eachInstr(ck, func(in ssa.Instruction) {
			if _, isGo := in.(*ssa.Go); isGo {
				launched = true
			}
		})
		c.check(id+":(*Tx).Check:close-deferred", ck, ck.Pos(), "the goroutine started by Check closes the channel by a defer registered before tx.check runs (readers always terminate)", ok2 && launched, "channel close is not deferred before the walk")
	})
}

func c19R3(c *Ctx, id string) {
	c.rule(id, "check-does-not-mutate", 1, func() {
		chk := c.fn("bbolt.(*Tx).check")
		targets := map[string]bool{
			"bbolt.(*Tx).allocate": true, "bbolt.(*DB).allocate": true, "bbolt.(*Bucket).spill": true, "bbolt.(*node).spill": true, "bbolt.(*Bucket).rebalance": true,
			"bbolt.(*node).put": true, "bbolt.(*node).del": true, "freelist.(*shared).Free": true, "freelist.(*array).Allocate": true, "freelist.(*hashMap).Allocate": true,
			"bbolt.(*Tx).write": true, "bbolt.(*Tx).writeMeta": true, "bbolt.(*DB).grow": true, "bbolt.(*Tx).Commit": true, "bbolt.(*DB).init": true,
			"bbolt.(*Bucket).Put": true, "bbolt.(*Bucket).Delete": true, "bbolt.(*Bucket).DeleteBucket": true, "bbolt.(*Bucket).CreateBucket": true,
			"freelist.(*shared).ReleasePendingPages": true, "freelist.(*shared).Rollback": true, "bbolt.(*DB).mmap": true,
		}
		p := c.reachPath([]*ssa.Function{chk}, targets, nil)
		c.check(id+":(*Tx).check:read-only-walk", chk, chk.Pos(), "from tx.check no mutator, allocator, freelist mutation, remap or file writer is reachable in the call graph (loading the free list once is the only state it may create)", p == nil, strings.Join(p, " -> "))
	})
}

func c19R4(c *Ctx, id string) {
	c.rule(id, "cli-exit-status", 4, func() {
		cf := c.fn("command.checkFunc")
		// the closure given to View
		var cl *ssa.Function
		var view *ssa.Call
		for _, call := range plainCallsIn(cf, "bbolt.(*DB).View") {
			cl = closureOf(call.Call.Args[1])
			view = call
		}
		if cl == nil {
			c.check(id+":command.checkFunc:view", cf, cf.Pos(), "the check runs inside db.View", false, "no View closure")
			return
		}
		// every value received from tx.Check increments the counter: the loop body (after the receive, ok branch) contains count++
		var recv *ssa.UnOp
		eachInstr(cl, func(in ssa.Instruction) {
			if u, ok := in.(*ssa.UnOp); ok && u.Op.String() == "<-" {
				recv = u
			}
		})
		okCount := false
		detail := "no receive from tx.Check's channel"
		var counter *ssa.Phi
		if recv != nil {
			ls := provenance(recv.X, provOpts{})
			if hasLeaf(ls, "call", "bbolt.(*Tx).Check") {
				// a phi incremented by 1 in the loop
				eachInstr(cl, func(in ssa.Instruction) {
					if bo, ok := in.(*ssa.BinOp); ok && bo.Op.String() == "+" {
						if ph, isPhi := bo.X.(*ssa.Phi); isPhi {
							if k, isC := constInt(bo.Y); isC && k == 1 && dominates(recv, bo) {
								for _, e := range ph.Edges {
									if e == ssa.Value(bo) {
										counter = ph
										// every iteration that received a value passes the increment
										r := reach([]ssa.Instruction{recv}, nil, func(x ssa.Instruction) bool { return x == ssa.Instruction(bo) }, nil)
										okCount = !r[recv]
									}
								}
							}
						}
					}
				})
				detail = "the loop over tx.Check() does not count every received error"
			}
		}
		c.check(id+":command.checkFunc:counts-every-error", cl, cl.Pos(), "every value received from tx.Check() increments the problem counter", okCount, detail)
		// count > 0 => non-nil error; otherwise nil: the closure is executed with 0, 1 and 3 reported problems
		_ = counter
		bad := ""
		for _, problems := range []int{0, 1, 3} {
			got := 0
			ev := &Evaluator{
				MaxSteps: 4000,
				Call: func(call *ssa.Call, args []V) (V, bool) {
					if call.Call.Signature().Results().Len() == 1 {
						return symV("call:" + calleeOf(call).Name()), true
					}
					return unkV, false
				},
				Tuple: func(v ssa.Value) ([]V, bool) {
					if u, ok := v.(*ssa.UnOp); ok && u.Op.String() == "<-" && u.CommaOk {
						got++
						return []V{symV("problem"), bV(got <= problems)}, true
					}
					return nil, false
				},
				Value: func(v ssa.Value) (V, bool) {
					if u, ok := v.(*ssa.UnOp); ok && u.Op.String() == "<-" && !u.CommaOk {
						return symV("problem"), true
					}
					return unkV, false
				},
				FreeVar: func(f *ssa.FreeVar) (V, bool) { return symV("free:" + f.Name()), true },
				Param:   func(p *ssa.Parameter) (V, bool) { return symV("param:" + p.Name()), true },
			}
			o := ev.Exec(cl, nil)
			switch {
			case o.Kind != "return" || len(o.Rets) != 1:
				bad = fmt.Sprintf("with %d reported problems the closure's result is %s", problems, o)
			case problems == 0 && o.Rets[0].K != vNil:
				bad = fmt.Sprintf("with no reported problem the closure returns %s, not nil", o.Rets[0])
			case problems > 0 && (o.Rets[0].K == vNil || o.Rets[0].K == vUnknown):
				bad = fmt.Sprintf("with %d reported problems the closure returns %s, not an error", problems, o.Rets[0])
			}
		}
		c.check(id+":command.checkFunc:count>0->error", cl, cl.Pos(), "a positive count makes the closure return a non-nil error, a zero count nil (closure executed with 0, 1 and 3 problems received)", bad == "", bad)
		// View's result is returned by checkFunc; RunE returns checkFunc's result
		okProp := false
		for _, ret := range returnsOf(cf) {
			if call, isCall := returnedValue(ret, 0).(*ssa.Call); isCall && call == view {
				okProp = true
			}
		}
		nc := c.fn("command.newCheckCommand")
		okRunE := false
		for _, a := range nc.AnonFuncs {
			for _, ret := range returnsOf(a) {
				if call, isCall := returnedValue(ret, 0).(*ssa.Call); isCall && calleeOf(call).Name() == "command.checkFunc" {
					okRunE = true
				}
			}
		}
		c.check(id+":command.checkFunc:result-propagates", cf, cf.Pos(), "checkFunc returns db.View's result and the command's RunE returns checkFunc's result", okProp && okRunE, fmt.Sprintf("view->checkFunc=%v checkFunc->RunE=%v", okProp, okRunE))
		// main: a non-nil Execute error reaches os.Exit(1)
		var mainFn *ssa.Function
		for _, fn := range c.P.FnsIn(modulePath + "/cmd/bbolt") {
			if fn.Name() == "main" && fn.Parent() == nil {
				mainFn = fn
			}
		}
		okExit := false
		if mainFn != nil {
			eachInstr(mainFn, func(in ssa.Instruction) {
				call, ok := in.(*ssa.Call)
				if !ok || !strings.HasSuffix(calleeOf(call).Name(), ".Execute") {
					return
				}
				for _, t := range errTests(call) {
					r := reach(nil, []*ssa.BasicBlock{t.NonNil}, func(x ssa.Instruction) bool { return isCallTo(x, "os.Exit") }, nil)
					leak := false
					exit1 := false
					for x := range r {
						if _, isR := x.(*ssa.Return); isR {
							leak = true
						}
						if isCallTo(x, "os.Exit") {
							if k, isC := constInt(x.(*ssa.Call).Call.Args[0]); isC && k != 0 {
								exit1 = true
							}
						}
					}
					okExit = exit1 && !leak
				}
			})
		}
		c.check(id+":main:error->exit-status", mainFn, 0, "in main a non-nil error from rootCmd.Execute() always reaches os.Exit with a non-zero status", okExit, "an error can leave main with exit status 0")
		// read-only open
		optRO := c.P.lookupField(rootPkg, "Options", "ReadOnly")
		okRO := false
		for _, call := range plainCallsIn(cf, "bbolt.Open") {
			okRO = optionsLiteralField(call.Call.Args[2], optRO) == "true"
		}
		c.check(id+":command.checkFunc:read-only", cf, cf.Pos(), "`bbolt check` opens the database ReadOnly", okRO, "not opened read-only")
	})
}

// sendReachableUnder decides whether the Send is reachable from its function's
// entry when the boolean facts named in vals are fixed: a commaok / plain lookup in
// the map of *Page values is "reachable", in the bool map "freed"; IsBranchPage /
// IsLeafPage calls are "branch" / "leaf".
func sendReachableUnder(fn *ssa.Function, send *ssa.Send, vals map[string]bool) bool {
	var eval func(v ssa.Value) (bool, bool)
	eval = func(v ssa.Value) (bool, bool) {
		switch x := v.(type) {
		case *ssa.UnOp:
			if x.Op.String() == "!" {
				b, ok := eval(x.X)
				return !b, ok
			}
		case *ssa.Extract:
			if lk, ok := x.Tuple.(*ssa.Lookup); ok && x.Index == 1 {
				return lookupFact(lk, vals)
			}
		case *ssa.Lookup:
			return lookupFact(x, vals)
		case *ssa.Call:
			switch calleeOf(x).Name() {
			case "common.(*Page).IsBranchPage":
				b, ok := vals["branch"]
				return b, ok
			case "common.(*Page).IsLeafPage":
				b, ok := vals["leaf"]
				return b, ok
			}
		case *ssa.Const:
			return constBool(x)
		case *ssa.Phi:
			// a short-circuit phi: follow the decided branches from the phi's dominator to the phi
			cur := x.Block().Idom()
			var prev *ssa.BasicBlock
			for steps := 0; cur != nil && steps < 32; steps++ {
				if cur == x.Block() && prev != nil {
					for i, p := range cur.Preds {
						if p == prev {
							return eval(x.Edges[i])
						}
					}
					return false, false
				}
				var next *ssa.BasicBlock
				switch t := cur.Instrs[len(cur.Instrs)-1].(type) {
				case *ssa.If:
					b, known := eval(t.Cond)
					if !known {
						return false, false
					}
					if b {
						next = cur.Succs[0]
					} else {
						next = cur.Succs[1]
					}
				case *ssa.Jump:
					next = cur.Succs[0]
				default:
					return false, false
				}
				prev, cur = cur, next
			}
		}
		return false, false
	}
	cut := func(e edge) bool {
		iff, ok := e.from.Instrs[len(e.from.Instrs)-1].(*ssa.If)
		if !ok {
			return false
		}
		b, known := eval(iff.Cond)
		if !known {
			return false
		}
		return (e.succ == 0) != b
	}
	return reach(nil, []*ssa.BasicBlock{fn.Blocks[0]}, nil, cut)[send]
}

func lookupFact(lk *ssa.Lookup, vals map[string]bool) (bool, bool) {
	t := lk.X.Type().String()
	if strings.Contains(t, "common.Page") {
		b, ok := vals["reachable"]
		return b, ok
	}
	if strings.HasSuffix(t, "]bool") {
		b, ok := vals["freed"]
		return b, ok
	}
	return false, false
}

// mustPassInLoop: within the innermost loop containing call, every iteration passes the call.
func mustPassInLoop(fn *ssa.Function, call *ssa.Call) bool {
	var hdr *ssa.BasicBlock
	size := 1 << 30
	for h, body := range naturalLoops(fn) {
		if body[call.Block()] && len(body) < size {
			hdr, size = h, len(body)
		}
	}
	if hdr == nil {
		return false
	}
	// from the header, can the header be reached again without passing the call?
	r := reach(nil, hdr.Succs, func(in ssa.Instruction) bool { return in == ssa.Instruction(call) }, func(e edge) bool {
		return false
	})
	body := naturalLoops(fn)[hdr]
	for in := range r {
		if in.Block() == hdr && in == hdr.Instrs[0] {
			// got back to the header: was it via a path inside the loop?
			return false
		}
	}
	_ = body
	return true
}

// rulePageTypeExact (C19.R5 / C12.R9): "of an invalid type" is detected through the page-type predicates;
// they must hold for exactly one flags value each (a page carrying its type bit plus any other bit is NOT
// of that type — the v2 format allows a single type flag). Tabulated over sample flag words.
func rulePageTypeExact(c *Ctx, id string) {
	c.rule(id, "page-type-predicates-exact", 5, func() {
		want := map[string]func(f uint64) bool{
			"common.(*Page).IsBranchPage":   func(f uint64) bool { return f == 0x01 },
			"common.(*Page).IsLeafPage":     func(f uint64) bool { return f == 0x02 },
			"common.(*Page).IsMetaPage":     func(f uint64) bool { return f == 0x04 },
			"common.(*Page).IsFreelistPage": func(f uint64) bool { return f == 0x10 },
			"common.(*Page).IsValidPage":    func(f uint64) bool { return f == 1 || f == 2 || f == 4 || f == 0x10 },
		}
		samples := []uint64{0, 1, 2, 3, 4, 5, 6, 0x10, 0x11, 0x12, 0x14, 0x20, 0x22, 0x0101, 0x8002, 0xFFFF}
		for _, name := range sortedKeys(want) {
			fn := c.fn(name)
			bad := ""
			for _, f := range samples {
				ev := &Evaluator{
					Load: func(u *ssa.UnOp) (V, bool) {
						if strings.HasSuffix(pathOf(u).Names(), "flags") {
							return uV(f), true
						}
						return unkV, false
					},
					Inline: func(g *ssa.Function) bool { _, ok := want[shortFn(g)]; return ok },
				}
				o := ev.Exec(fn, nil)
				got, ok := false, false
				if o.Kind == "return" && len(o.Rets) == 1 {
					got, ok = o.Rets[0].Bool()
				}
				if !ok {
					bad = fmt.Sprintf("flags %#x: %s", f, o)
					break
				}
				if got != want[name](f) {
					bad = fmt.Sprintf("flags %#x: %s() = %v, want %v (a page whose flags word is not exactly one type flag has an invalid type)", f, strings.TrimPrefix(name, "common.(*Page)."), got, want[name](f))
					break
				}
			}
			c.check(id+":"+name+":table", fn, fn.Pos(), fmt.Sprintf("the predicate holds for exactly its own flag value (%d sample flag words)", len(samples)), bad == "", bad)
		}
	})
}
