package main

import (
	"runtime"
	"fmt"
	"go/constant"
	"go/token"
	"go/types"
	"strings"

	"golang.org/x/tools/go/ssa"
)

func init() {
	register(&propDef{
		ID: "C17",
		Explanation: "Decided: which lock is requested (exclusive iff read-write, always non-blocking, retried until the timeout) on every supported GOOS; that the lock is taken after the file is opened and before any of its content is read; " +
			"that read-only mode selects O_RDONLY, refuses write transactions before any state change and never reaches a file writer; that every mapping is created read-only (PROT_READ / PAGE_READONLY+FILE_MAP_READ) with no mprotect or second mapping; " +
			"that close always closes the descriptor (dropping the advisory lock) and Close waits for all three locks; and that the CLI's inspection commands open the database read-only. " +
			"NOT decided: the kernel's flock/fcntl/mmap behaviour (trusted), lock timing, and that a store through a returned slice faults (a consequence of the read-only mapping under the trusted kernel). Round 3: the descriptor that carries the file lock is closed only by (*DB).close.",
		Run: func(c *Ctx) {
			ruleMappingForgottenOnlyWithUnmap(c, "C17.R8") // "closing releases the lock": a leaked mapping keeps the flock alive
			ruleDataFileClosedOnlyByClose(c, "C17.R7") // the descriptor that carries the file lock is closed only by Close
			c17R1(c, "C17.R1")
			ruleFlockSibling(c, "C17.R2")
			c17R3(c, "C17.R3")
			ruleMmapProt(c, "C17.R4")
			c17R5(c, "C17.R5")
			c17R6(c, "C17.R6")
		},
		Platform: func(c *Ctx) {
			ruleFlockSibling(c, "C17.R2")
			ruleMmapProt(c, "C17.R4")
			c17R3(c, "C17.R3")
			c17R1(c, "C17.R1")
		},
		Platforms: []platform{{"windows", "amd64"}, {"solaris", "amd64"}, {"aix", "ppc64"}, {"android", "arm64"}, {"darwin", "arm64"}, {"openbsd", "amd64"}, {"freebsd", "amd64"}},
	})
}

// constOf looks up an integer constant of a loaded package.
func (c *Ctx) constOf(pkgPath, name string) (int64, bool) {
	pk := c.P.Pkg(pkgPath)
	if pk == nil || pk.Types == nil {
		return 0, false
	}
	k, ok := pk.Types.Scope().Lookup(name).(*types.Const)
	if !ok {
		return 0, false
	}
	if v, ok := constant.Int64Val(constant.ToInt(k.Val())); ok {
		return v, true
	}
	if u, ok := constant.Uint64Val(constant.ToInt(k.Val())); ok {
		return int64(u), true
	}
	return 0, false
}

func (c *Ctx) mustConst(pkgPath, name string) int64 {
	v, ok := c.constOf(pkgPath, name)
	if !ok {
		panic(anchorErr{pkgPath + "." + name})
	}
	return v
}

func c17R1(c *Ctx, id string) {
	c.rule(id, "lock-before-content", 4, func() {
		open := c.fn("bbolt.Open")
		fls := plainCallsIn(open, "bbolt.flock")
		if len(fls) == 0 {
			c.check(id+":bbolt.Open:call-bbolt.flock", open, open.Pos(), "Open locks the file", false, "found 0 calls to bbolt.flock in bbolt.Open")
			return
		}
		fl := fls[0]
		isFlock := func(in ssa.Instruction) bool {
			for _, f := range fls {
				if ssa.Instruction(f) == in {
					return true
				}
			}
			return false
		}
		openFileF := c.dbField("openFile")
		ofs := fieldCallsIn(open, openFileF)
		okOpen := len(ofs) == 1
		for _, f := range fls {
			if okOpen && !dominates(ofs[0].(ssa.Instruction), f) {
				okOpen = false
			}
		}
		c.check(id+":bbolt.Open:openFile<flock", open, fl.Pos(), "the file is opened before it is locked", okOpen, fmt.Sprintf("%d openFile calls / flock not dominated", len(ofs)))
		// a successful flock lies on every path to every read of content (one call, or one per lock mode)
		readers := []string{"os.(*File).Stat", "bbolt.(*DB).init", "bbolt.(*DB).getPageSize", "bbolt.(*DB).mmap", "bbolt.(*DB).loadFreelist", "bbolt.(*DB).Begin"}
		bad := ""
		n := 0
		var errSucc []*ssa.BasicBlock
		tested := true
		for _, f := range fls {
			ts := errTests(f)
			if len(ts) == 0 {
				tested = false
			}
			for _, t := range ts {
				errSucc = append(errSucc, t.NonNil)
			}
		}
		fromErr := reach(nil, errSucc, nil, nil)
		unlocked := reach(nil, []*ssa.BasicBlock{open.Blocks[0]}, isFlock, nil)
		for _, ci := range callsIn(open, readers...) {
			n++
			in := ci.(ssa.Instruction)
			if unlocked[in] || fromErr[in] || !tested {
				bad = calleeOf(ci).Name() + " at " + c.P.Position(ci.Pos())
			}
		}
		c.check(id+":bbolt.Open:flock<content", open, fl.Pos(), fmt.Sprintf("flock succeeds before every read of the file's content (%d reader calls: Stat, init, getPageSize, mmap, loadFreelist, Begin)", n), bad == "" && n >= 4,
			"content is read without holding the lock: "+bad)
		// exclusive == !db.readOnly: tabulated over the flag — every flock call that can run asks for the exclusive lock
		// exactly when the database is not read-only
		roF := c.dbField("readOnly")
		okEx := true
		detailEx := ""
		for _, ro := range []bool{true, false} {
			atoms := func(v ssa.Value) (V, bool) {
				if u, ok := v.(*ssa.UnOp); ok && u.Op == token.MUL {
					if fa, ok := u.X.(*ssa.FieldAddr); ok && fieldOfAddr(fa) == roF {
						return bV(ro), true
					}
				}
				return unkV, false
			}
			r := reachUnder([]*ssa.BasicBlock{open.Blocks[0]}, atoms)
			pe := newPeval(atoms)
			some := false
			for _, f := range fls {
				if !r[f] {
					continue
				}
				some = true
				ex, known := pe.ev.ValueAtEntry(f.Call.Args[1]).Bool()
				if !known || ex != !ro {
					okEx = false
					detailEx = fmt.Sprintf("with readOnly=%v the lock request at %s is exclusive=%v (known=%v)", ro, c.P.Position(f.Pos()), ex, known)
				}
			}
			if !some {
				okEx = false
				detailEx = fmt.Sprintf("with readOnly=%v no flock call is reachable", ro)
			}
		}
		if detailEx == "" {
			detailEx = "the lock mode does not follow the read-only flag"
		}
		c.check(id+":bbolt.Open:exclusive=!readOnly", open, fl.Pos(), "flock's exclusive argument is !db.readOnly (tabulated over the flag for every flock call in Open)", okEx, detailEx)
		// readOnly is set exactly on the options.ReadOnly branch, which selects O_RDONLY
		optRO := c.P.lookupField(rootPkg, "Options", "ReadOnly")
		stores := storesToField(c.P.FnsIn(rootPkg), roF)
		okSt := len(stores) == 1
		detail := fmt.Sprintf("%d stores to DB.readOnly", len(stores))
		var roBranch *ssa.BasicBlock
		if okSt {
			st := stores[0]
			okSt = shortFn(st.Fn) == "bbolt.Open"
			if b, isC := constBool(st.Val); !isC || !b {
				okSt = false
			}
			for b := st.Instr.Block(); b != nil; b = b.Idom() {
				if iff, isIf := b.Instrs[len(b.Instrs)-1].(*ssa.If); isIf && pathOf(iff.Cond).Last() == optRO && blockDominatedByEdge(b, b.Succs[0], st.Instr.Block()) {
					roBranch = b.Succs[0]
				}
			}
			if roBranch == nil {
				okSt = false
				detail = "db.readOnly is not set under `if options.ReadOnly`"
			}
		}
		c.check(id+":bbolt.Open:readOnly-store", open, open.Pos(), "DB.readOnly is stored (true) only in Open, on the options.ReadOnly branch", okSt, detail)
		if okSt && len(ofs) == 1 {
			flag := ofs[0].Common().Args[1]
			rdonly, rdwr, creat := c.mustConst("os", "O_RDONLY"), c.mustConst("os", "O_RDWR"), c.mustConst("os", "O_CREATE")
			okFlag := false
			detail := "the open flag is not a two-way choice on options.ReadOnly"
			if phi, ok := flag.(*ssa.Phi); ok && len(phi.Edges) == 2 {
				okFlag = true
				for i, e := range phi.Edges {
					v, isC := constInt(e)
					if !isC {
						// O_RDWR|O_CREATE may be a BinOp of constants
						ev := &Evaluator{}
						if got, ok2 := ev.ValueAtEntry(e).Int(); ok2 {
							v, isC = got, true
						}
					}
					pred := phi.Block().Preds[i]
					inRO := pred == roBranch || roBranch.Dominates(pred)
					switch {
					case !isC:
						okFlag = false
						detail = "non-constant open flag"
					case inRO && v != rdonly:
						okFlag = false
						detail = fmt.Sprintf("read-only open uses flag %#x, want O_RDONLY", v)
					case !inRO && (v&rdwr == 0 || v&creat == 0):
						okFlag = false
						detail = fmt.Sprintf("read-write open uses flag %#x, want O_RDWR|O_CREATE", v)
					}
				}
			}
			c.check(id+":bbolt.Open:open-flag", open, ofs[0].Pos(), "the file is opened O_RDONLY exactly when options.ReadOnly, O_RDWR|O_CREATE otherwise", okFlag, detail)
		}
	})
}

// ruleFlockSibling tabulates the platform's flock over exclusive ∈ {T,F} and three outcomes of the lock primitive.
func ruleFlockSibling(c *Ctx, id string) {
	c.rule(id, "flock-sibling", 3, func() {
		fl := c.fn("bbolt.flock")
		type lockCall struct {
			name string
			args []V
		}
		run := func(exclusive bool, outcome string, wouldBlock int64) (Outcome, []lockCall, *V) {
			var calls []lockCall
			var lockType *V
			nLock := 0
			ev := &Evaluator{
				MaxSteps: 4000,
				Param: func(p *ssa.Parameter) (V, bool) {
					switch p.Name() {
					case "exclusive":
						return bV(exclusive), true
					case "timeout":
						return iV(1_000_000_000), true
					}
					return unkV, false
				},
				Load: func(u *ssa.UnOp) (V, bool) {
					if g, ok := u.X.(*ssa.Global); ok {
						return symV("global:" + g.Name()), true
					}
					return unkV, false
				},
				OnStore: func(s *ssa.Store, val V) {
					if fa, ok := s.Addr.(*ssa.FieldAddr); ok && fieldOfAddr(fa).Name() == "Type" {
						v := val
						lockType = &v
					}
				},
				Call: func(call *ssa.Call, args []V) (V, bool) {
					n := calleeOf(call).Name()
					switch n {
					case "syscall.Flock", "syscall.FcntlFlock", "windows.LockFileEx", "unix.Flock", "unix.FcntlFlock":
						calls = append(calls, lockCall{n, args})
						nLock++
						switch outcome {
						case "ok":
							return nilV, true
						case "wouldblock":
							return iV(wouldBlock), true
						default:
							return iV(987654), true
						}
					case "time.Since":
						return iV(5_000_000_000), true
					}
					return unkV, false
				},
			}
			o := ev.Exec(fl, nil)
			return o, calls, lockType
		}
		for _, exclusive := range []bool{true, false} {
			o, calls, lt := run(exclusive, "ok", 0)
			key := fmt.Sprintf("%s:bbolt.flock:request[exclusive=%v]", id, exclusive)
			bad := ""
			if o.Kind != "return" || len(o.Rets) != 1 || o.Rets[0].K != vNil {
				bad = "a granted lock does not make flock return nil: " + o.String()
			} else if len(calls) != 1 {
				bad = fmt.Sprintf("%d lock primitive calls", len(calls))
			} else {
				lc := calls[0]
				// the primitive is part of the contract: flock(2) locks belong to the open file description (a second
				// Open in the same process is refused, closing another descriptor of the file does not drop the lock);
				// fcntl record locks belong to the PROCESS. Only the ports that have no flock use fcntl.
				goos := c.P.GOOS
				if goos == "" {
					goos = runtime.GOOS
				}
				wantPrim := map[string]string{"linux": "Flock", "darwin": "Flock", "freebsd": "Flock", "openbsd": "Flock", "netbsd": "Flock", "dragonfly": "Flock",
					"solaris": "FcntlFlock", "aix": "FcntlFlock", "android": "FcntlFlock", "windows": "LockFileEx"}[goos]
				if wantPrim != "" && !strings.HasSuffix(lc.name, "."+wantPrim) {
					bad = fmt.Sprintf("on %s the file lock is taken with %s, want %s (per-process record locks do not exclude a second open from the same process and vanish when any descriptor of the file is closed)", goos, lc.name, wantPrim)
				}
				switch lc.name {
				case "syscall.Flock", "unix.Flock":
					nb, ex, sh := c.mustConst("syscall", "LOCK_NB"), c.mustConst("syscall", "LOCK_EX"), c.mustConst("syscall", "LOCK_SH")
					want := nb | sh
					if exclusive {
						want = nb | ex
					}
					if got, ok := lc.args[1].Int(); !ok || got != want {
						bad = fmt.Sprintf("Flock flag %s, want %#x (LOCK_NB|%s)", lc.args[1], want, map[bool]string{true: "LOCK_EX", false: "LOCK_SH"}[exclusive])
					}
				case "syscall.FcntlFlock", "unix.FcntlFlock":
					setlk, wr, rd := c.mustConst("syscall", "F_SETLK"), c.mustConst("syscall", "F_WRLCK"), c.mustConst("syscall", "F_RDLCK")
					want := rd
					if exclusive {
						want = wr
					}
					if got, ok := lc.args[1].Int(); !ok || got != setlk {
						bad = fmt.Sprintf("fcntl command %s, want F_SETLK (non-blocking)", lc.args[1])
					} else if lt == nil {
						bad = "lock type not stored"
					} else if got, ok := lt.Int(); !ok || got != want {
						bad = fmt.Sprintf("lock type %s, want %d", *lt, want)
					}
				case "windows.LockFileEx":
					fi, ex := c.mustConst("golang.org/x/sys/windows", "LOCKFILE_FAIL_IMMEDIATELY"), c.mustConst("golang.org/x/sys/windows", "LOCKFILE_EXCLUSIVE_LOCK")
					want := fi
					if exclusive {
						want = fi | ex
					}
					if got, ok := lc.args[1].Int(); !ok || got != want {
						bad = fmt.Sprintf("LockFileEx flags %s, want %#x", lc.args[1], want)
					}
				default:
					bad = "unknown lock primitive " + lc.name
				}
			}
			c.check(key, fl, fl.Pos(), "the lock request is exclusive iff `exclusive`, shared otherwise, and always non-blocking; a granted lock returns nil", bad == "", bad)
		}
		// would-block: retried, then ErrTimeout; other errors returned
		wb := int64(0)
		switch {
		case c.P.GOOS == "windows":
			wb = c.mustConst("golang.org/x/sys/windows", "ERROR_LOCK_VIOLATION")
		case len(callsIn(fl, "syscall.FcntlFlock")) > 0:
			wb = c.mustConst("syscall", "EAGAIN")
		default:
			wb = c.mustConst("syscall", "EWOULDBLOCK")
		}
		o, calls, _ := run(true, "wouldblock", wb)
		okT := o.Kind == "return" && len(o.Rets) == 1 && o.Rets[0].K == vSym && strings.HasSuffix(o.Rets[0].S, "ErrTimeout") && len(calls) >= 1
		c.check(id+":bbolt.flock:would-block->ErrTimeout", fl, fl.Pos(), "a would-block result is retried and, once the timeout has elapsed, ErrTimeout is returned", okT, "outcome "+o.String())
		o, _, _ = run(true, "other", 0)
		okO := o.Kind == "return" && len(o.Rets) == 1
		if okO {
			got, isInt := o.Rets[0].Int()
			okO = isInt && got == 987654
		}
		c.check(id+":bbolt.flock:other-error-returned", fl, fl.Pos(), "any other error of the lock primitive is returned unchanged", okO, "outcome "+o.String())
	})
}

func c17R3(c *Ctx, id string) {
	c.rule(id, "read-only-refuses-writers", 5, func() {
		roF := c.dbField("readOnly")
		// beginRWTx: first thing
		brw := c.fn("bbolt.(*DB).beginRWTx")
		entry := brw.Blocks[0]
		ok := false
		detail := "beginRWTx does not start with the read-only test"
		if iff, isIf := entry.Instrs[len(entry.Instrs)-1].(*ssa.If); isIf && pathOf(iff.Cond).Last() == roF {
			ok = true
			for _, in := range entry.Instrs {
				switch in.(type) {
				case ssa.CallInstruction, *ssa.Store:
					ok = false
					detail = "a call or store precedes the read-only test"
				}
			}
			sawRet := false
			for _, in := range entry.Succs[0].Instrs {
				if r, isR := in.(*ssa.Return); isR {
					if ld, isLd := returnedValue(r, 1).(*ssa.UnOp); isLd {
						if g, isG := ld.X.(*ssa.Global); isG && g.Name() == "ErrDatabaseReadOnly" {
							sawRet = true
						}
					}
				}
			}
			if !sawRet {
				ok = false
				detail = "the read-only edge does not return ErrDatabaseReadOnly"
			}
		}
		c.check(id+":(*DB).beginRWTx:readonly-first", brw, brw.Pos(), "beginRWTx returns ErrDatabaseReadOnly on the db.readOnly edge before any lock or state change", ok, detail)
		// writable transactions are created only there
		wrF := c.P.lookupField(rootPkg, "Tx", "writable")
		bad := ""
		n := 0
		for _, st := range storesToField(c.P.FnsIn(rootPkg), wrF) {
			n++
			if shortFn(st.Fn) != "bbolt.(*DB).beginRWTx" {
				bad = shortFn(st.Fn)
			}
		}
		c.check(id+":Tx.writable:stores", brw, brw.Pos(), "Tx.writable is set only in beginRWTx", bad == "" && n == 1, fmt.Sprintf("%d stores; offender %s", n, bad))
		// Open on a read-only DB returns before the freelist-flush transaction
		open := c.fn("bbolt.Open")
		r := reach(nil, []*ssa.BasicBlock{open.Blocks[0]}, nil, cutByEnv(map[*types.Var]bool{roF: true}))
		badO := ""
		for in := range r {
			if isCallTo(in, "bbolt.(*DB).Begin", "bbolt.(*Tx).Commit", "bbolt.(*DB).beginRWTx", "bbolt.(*DB).Update") {
				badO = c.P.Position(in.Pos())
			}
		}
		c.check(id+":bbolt.Open:no-writer-when-readonly", open, open.Pos(), "with db.readOnly set, Open cannot reach Begin/Commit (the freelist-flush transaction)", badO == "", "write transaction reachable at "+badO)
		// writers are reachable only from Commit past the writable guard / init / grow
		commit := c.fn("bbolt.(*Tx).Commit")
		for _, spec := range []struct {
			callee  string
			allowed map[string]bool
		}{
			{"bbolt.(*Tx).write", map[string]bool{"bbolt.(*Tx).Commit": true}},
			{"bbolt.(*Tx).writeMeta", map[string]bool{"bbolt.(*Tx).Commit": true}},
			{"bbolt.(*DB).grow", map[string]bool{"bbolt.(*Tx).Commit": true}},
			{"bbolt.(*DB).init", map[string]bool{"bbolt.Open": true}},
		} {
			f := c.fn(spec.callee)
			badC := ""
			for _, cs := range c.callersOf(f) {
				if !spec.allowed[shortFn(cs.Caller)] {
					badC = shortFn(cs.Caller)
				}
			}
			c.check(id+":"+spec.callee+":callers", f, f.Pos(), fmt.Sprintf("%s is called only from %v", spec.callee, sortedKeys(spec.allowed)), badC == "", "also called from "+badC)
		}
		// in Commit the writers sit behind the !tx.writable guard
		rr := reach(nil, []*ssa.BasicBlock{commit.Blocks[0]}, nil, cutByEnv(map[*types.Var]bool{wrF: false}))
		badW := ""
		for in := range rr {
			if isCallTo(in, "bbolt.(*Tx).write", "bbolt.(*Tx).writeMeta", "bbolt.(*DB).grow", "bbolt.(*Bucket).spill", "freelist.Interface.Free") {
				badW = c.P.Position(in.Pos())
			}
		}
		c.check(id+":(*Tx).Commit:writable-guard", commit, commit.Pos(), "with tx.writable false, Commit reaches no spill / Free / grow / write / writeMeta", badW == "", "reachable at "+badW)
		// Truncate sites are unreachable when db.readOnly
		for _, fn := range c.P.FnsIn(rootPkg) {
			trs := plainCallsIn(fn, "os.(*File).Truncate")
			if len(trs) == 0 {
				continue
			}
			rr := reach(nil, []*ssa.BasicBlock{fn.Blocks[0]}, nil, cutByEnv(map[*types.Var]bool{roF: true}))
			badT := ""
			for _, t := range trs {
				if rr[t] {
					badT = c.P.Position(t.Pos())
				}
			}
			c.check(id+":"+shortFn(fn)+":truncate-not-when-readonly", fn, trs[0].Pos(), "file.Truncate is unreachable when db.readOnly is set", badT == "", "Truncate reachable at "+badT)
		}
	})
}

// ruleMmapProt: every mapping is read-only.
func ruleMmapProt(c *Ctx, id string) {
	c.rule(id, "mapping-protection", 1, func() {
		forbidden := map[string]bool{"unix.Mprotect": true, "syscall.Mprotect": true, "unix.Mremap": true, "windows.VirtualProtect": true, "syscall.VirtualProtect": true}
		nMap := 0
		for _, fn := range c.P.FnsIn(rootPkg) {
			name := shortFn(fn)
			eachInstr(fn, func(in ssa.Instruction) {
				ci, ok := in.(ssa.CallInstruction)
				if !ok {
					return
				}
				cn := calleeOf(ci).Name()
				args := ci.Common().Args
				switch cn {
				case "unix.Mmap", "syscall.Mmap":
					nMap++
					prot, isC := constInt(args[3])
					want := c.mustConst("syscall", "PROT_READ")
					okP := isC && prot == want
					c.check(id+":"+name+":"+cn+":PROT_READ", fn, in.Pos(), "the mapping protection is the constant PROT_READ", okP, fmt.Sprintf("protection argument is %v", args[3]))
					// flags: MAP_SHARED | db.MmapFlags
					shared := c.mustConst("syscall", "MAP_SHARED")
					okF := false
					if bo, ok := args[4].(*ssa.BinOp); ok && bo.Op == token.OR {
						for _, side := range []ssa.Value{bo.X, bo.Y} {
							if v, isC := constInt(side); isC && v == shared {
								okF = true
							}
						}
					}
					c.check(id+":"+name+":"+cn+":MAP_SHARED", fn, in.Pos(), "the mapping is MAP_SHARED (| user MmapFlags): readers see committed writes through the same mapping", okF, "flags are not MAP_SHARED|db.MmapFlags")
					if name != "bbolt.mmap" {
						c.check(id+":"+name+":second-mapping", fn, in.Pos(), "the data file is mapped only in the platform mmap", false, name+" creates another mapping")
					}
				case "syscall.CreateFileMapping", "windows.CreateFileMapping":
					nMap++
					prot, isC := constInt(args[2])
					want := c.mustConst("syscall", "PAGE_READONLY")
					c.check(id+":"+name+":"+cn+":PAGE_READONLY", fn, in.Pos(), "the file mapping object is PAGE_READONLY", isC && prot == want, fmt.Sprintf("protection argument is %v", args[2]))
				case "syscall.MapViewOfFile", "windows.MapViewOfFile":
					acc, isC := constInt(args[1])
					want := c.mustConst("syscall", "FILE_MAP_READ")
					c.check(id+":"+name+":"+cn+":FILE_MAP_READ", fn, in.Pos(), "the view is FILE_MAP_READ", isC && acc == want, fmt.Sprintf("access argument is %v", args[1]))
				}
				if forbidden[cn] {
					c.check(id+":"+name+":"+cn, fn, in.Pos(), "no mprotect / remap of the mapping exists", false, name+" calls "+cn)
				}
			})
		}
		c.check(id+":mappings", nil, 0, "exactly one mapping call in the package", nMap == 1, fmt.Sprintf("%d mapping calls", nMap))
	})
}

func c17R5(c *Ctx, id string) {
	c.rule(id, "close-releases", 3, func() {
		cl := c.fn("bbolt.(*DB).close")
		fileF := c.dbField("file")
		roF := c.dbField("readOnly")
		closes := plainCallsIn(cl, "os.(*File).Close")
		unl := plainCallsIn(cl, "bbolt.funlock")
		ok := len(closes) == 1
		detail := fmt.Sprintf("%d file.Close calls", len(closes))
		var nonNil *ssa.BasicBlock
		if ok {
			for b := closes[0].Block(); b != nil; b = b.Idom() {
				iff, isIf := b.Instrs[len(b.Instrs)-1].(*ssa.If)
				if !isIf {
					continue
				}
				if bo, isBin := iff.Cond.(*ssa.BinOp); isBin && pathOf(bo.X).Last() == fileF && isNilConst(bo.Y) {
					nonNil = b.Succs[0]
					if bo.Op == token.EQL {
						nonNil = b.Succs[1]
					}
				}
			}
			if nonNil == nil {
				ok = false
				detail = "file.Close is not under `db.file != nil`"
			} else {
				r := reach(nil, []*ssa.BasicBlock{nonNil}, func(in ssa.Instruction) bool { return in == closes[0] }, nil)
				for _, ret := range returnsOf(cl) {
					if r[ret] {
						ok = false
						detail = "a return is reachable with db.file != nil without closing the descriptor"
					}
				}
			}
			// the `!db.opened` early return is the only way around
		}
		c.check(id+":(*DB).close:file-closed", cl, cl.Pos(), "with db.file != nil every path through close closes the descriptor (dropping the advisory lock)", ok, detail)
		ok2 := len(unl) == 1 && nonNil != nil
		if ok2 {
			r := reach(nil, []*ssa.BasicBlock{nonNil}, func(in ssa.Instruction) bool { return in == unl[0] }, cutByEnv(map[*types.Var]bool{roF: false}))
			ok2 = !r[closes[0]]
		}
		c.check(id+":(*DB).close:funlock-first", cl, cl.Pos(), "unless read-only, funlock is called before the descriptor is closed", ok2, "file.Close reachable without funlock on a read-write database")
		checkOpenedBeforeOpenFile(c, id)
		// Close takes the three locks before close()
		cF := c.fn("bbolt.(*DB).Close")
		inner := c.theCall(id, cF, "bbolt.(*DB).close")
		if inner == nil {
			return
		}
		need := map[string]bool{"rwlock": false, "metalock": false, "mmaplock": false}
		eachInstr(cF, func(in ssa.Instruction) {
			call, ok := in.(*ssa.Call)
			if !ok {
				return
			}
			n := calleeOf(call).Name()
			if n != "sync.(*Mutex).Lock" && n != "sync.(*RWMutex).Lock" {
				return
			}
			f := pathOf(call.Call.Args[0]).Last()
			if f != nil && dominates(call, inner) {
				if _, want := need[f.Name()]; want {
					need[f.Name()] = true
				}
			}
		})
		c.check(id+":(*DB).Close:three-locks", cF, cF.Pos(), "Close acquires rwlock, metalock and mmaplock (exclusive) before closing: it waits for open transactions", need["rwlock"] && need["metalock"] && need["mmaplock"], fmt.Sprintf("held: %v", need))
	})
}

// c17R6: the CLI's inspection commands never open the database read-write.
func c17R6(c *Ctx, id string) {
	c.rule(id, "inspection-commands-read-only", 11, func() {
		cmdPath := modulePath + "/cmd/bbolt/command"
		optRO := c.P.lookupField(rootPkg, "Options", "ReadOnly")
		// commands allowed to open read-write, by function
		rwAllowed := map[string]string{
			"command.benchFunc":                  "bench creates and fills its own scratch database",
			"command.(*compactOptions).Run":      "compact: the destination (the source is opened ReadOnly: C15.R3)",
			"command.surgeryFreelistRebuildFunc": "surgery freelist rebuild: opens its OUTPUT file (C20.R1)",
		}
		writersAllowedPrefix := []string{"command.surgery", "surgeon."}
		nOpen := 0
		for _, fn := range c.P.FnsIn(cmdPath) {
			name := shortFn(fn)
			top := shortFn(topLevel(fn))
			for _, call := range plainCallsIn(fn, "bbolt.Open") {
				nOpen++
				ro := optionsLiteralField(call.Call.Args[2], optRO)
				if reason, ok := rwAllowed[top]; ok {
					// compact's source must still be read-only: checked by the literal below
					if top == "command.(*compactOptions).Run" {
						ls := provenance(call.Call.Args[0], provOpts{})
						if hasLeaf(ls, "param", "srcPath") {
							c.check(id+":"+name+":Open(src)", fn, call.Pos(), "compact opens its source with ReadOnly: true", ro == "true", "source opened with ReadOnly="+ro)
							continue
						}
					}
					c.check(id+":"+name+":Open(rw-allowed)", fn, call.Pos(), "read-write open in a command that is entitled to it: "+reason, true, "")
					continue
				}
				c.check(id+":"+name+":Open", fn, call.Pos(), "an inspection command opens the database with the constant option ReadOnly: true", ro == "true", "bolt.Open with ReadOnly="+ro+" in "+name)
			}
			// raw writers only in surgery
			for _, ci := range callsIn(fn, "guts_cli.WritePage", "command.writeMetaPageAt", "os.(*File).WriteAt") {
				okW := false
				for _, p := range writersAllowedPrefix {
					if strings.HasPrefix(top, p) {
						okW = true
					}
				}
				if top == "command.writeMetaPageAt" {
					okW = true
				}
				c.check(id+":"+name+":"+calleeOf(ci).Name(), fn, ci.Pos(), "raw page/file writers are used only by the surgery commands", okW, name+" writes a file")
			}
			// os.OpenFile flags
			for _, call := range plainCallsIn(fn, "os.OpenFile") {
				v, isC := constInt(call.Call.Args[1])
				rdonly := c.mustConst("os", "O_RDONLY")
				okF := isC && (v == rdonly || top == "command.writeMetaPageAt")
				c.check(id+":"+name+":OpenFile", fn, call.Pos(), "os.OpenFile in the CLI is O_RDONLY except in writeMetaPageAt (surgery)", okF, fmt.Sprintf("flag %v", call.Call.Args[1]))
			}
		}
		c.check(id+":opens", nil, 0, "bolt.Open call sites in the CLI were found", nOpen >= 10, fmt.Sprintf("%d bolt.Open calls", nOpen))
	})
}

// optionsLiteralField returns "true"/"false"/"unset"/"unknown" for a boolean
// field of the &Options{...} literal passed as v.
func optionsLiteralField(v ssa.Value, field *types.Var) string {
	alloc, ok := v.(*ssa.Alloc)
	if !ok {
		return "unknown"
	}
	res := "unset"
	for _, r := range *alloc.Referrers() {
		fa, ok := r.(*ssa.FieldAddr)
		if !ok || fieldOfAddr(fa) != field {
			continue
		}
		for _, rr := range *fa.Referrers() {
			if st, ok := rr.(*ssa.Store); ok {
				if b, isC := constBool(st.Val); isC {
					if b && res != "false" && res != "unknown" {
						res = "true"
					} else if !b {
						res = "false"
					}
				} else {
					res = "unknown"
				}
			}
		}
	}
	return res
}
