package main

import (
	"fmt"
	"go/token"
	"go/types"
	"sort"
	"strings"

	"golang.org/x/tools/go/ssa"
)

// ---------------------------------------------------------------- file-writer allow-list (C01.R5, C06.R6, C17.R3)

var fileReadOnlyMethods = map[string]bool{
	"os.(*File).Fd": true, "os.(*File).Stat": true, "os.(*File).Name": true, "os.(*File).ReadAt": true,
	"os.(*File).Close": true, "os.(*File).Sync": true, "os.(*File).Read": true,
}

// descriptor consumers that do not modify file content
var fdAllowedCallees = map[string]bool{
	"syscall.Fdatasync": true, "syscall.Fsync": true, "syscall.Flock": true, "syscall.FcntlFlock": true,
	"unix.Mmap": true, "unix.Fdatasync": true, "unix.Fsync": true, "unix.FcntlFlock": true, "unix.Flock": true,
	"windows.LockFileEx": true, "windows.UnlockFileEx": true, "windows.CreateFileMapping": true, "windows.FlushFileBuffers": true,
	"syscall.LockFileEx": true, "syscall.CreateFileMapping": true, "syscall.Mmap": true,
}

// useClosure follows a value through phis, conversions and local cells and
// calls visit for every instruction that uses it (or an alias of it).
func useClosure(v ssa.Value, visit func(user ssa.Instruction, alias ssa.Value)) {
	seen := map[ssa.Value]bool{}
	var walk func(x ssa.Value)
	walk = func(x ssa.Value) {
		if x == nil || seen[x] || x.Referrers() == nil {
			return
		}
		seen[x] = true
		for _, r := range *x.Referrers() {
			switch u := r.(type) {
			case *ssa.Phi:
				walk(u)
			case *ssa.Convert:
				walk(u)
			case *ssa.ChangeType:
				walk(u)
			case *ssa.Store:
				if u.Val == x {
					if a, ok := u.Addr.(*ssa.Alloc); ok {
						for _, rr := range *a.Referrers() {
							if ld, ok := rr.(*ssa.UnOp); ok && ld.Op == token.MUL {
								walk(ld)
							}
						}
						continue
					}
				}
				visit(r, x)
			case *ssa.DebugRef:
			default:
				visit(r, x)
			}
		}
	}
	walk(v)
}

func ruleFileWriterAllowList(c *Ctx, id string) {
	c.rule(id, "file-writer-allow-list", 7, func() {
		wf := c.dbField("ops.writeAt")
		fileF := c.dbField("file")
		fns := c.P.FnsIn(rootPkg)

		truncAllowed := map[string]bool{"bbolt.(*DB).grow": true}
		if c.P.GOOS == "windows" {
			truncAllowed["bbolt.mmap"] = true
		}
		invokersAllowed := map[string]bool{"bbolt.(*DB).init": true, "bbolt.(*Tx).write": true, "bbolt.(*Tx).writeMeta": true}
		storesAllowed := map[string]bool{"bbolt.Open": true, "bbolt.(*DB).close": true}

		// (1) who invokes ops.writeAt
		for _, fn := range fns {
			for _, ci := range fieldCallsIn(fn, wf) {
				name := shortFn(fn)
				c.check(id+":"+name+":invokes-writeAt", fn, ci.Pos(), "ops.writeAt is invoked only by init / write / writeMeta", invokersAllowed[name],
					name+" writes the data file through ops.writeAt but is not in the writer allow-list")
			}
		}
		// (2) who stores ops.writeAt, and what
		for _, st := range storesToField(fns, wf) {
			name := shortFn(st.Fn)
			ok := storesAllowed[name]
			detail := name + " replaces the file writer"
			if ok && name == "bbolt.Open" {
				// must be the bound method db.file.WriteAt
				mc, isMC := st.Val.(*ssa.MakeClosure)
				ok = isMC && strings.HasPrefix(shortFn(mc.Fn.(*ssa.Function)), "os.(*File).WriteAt")
				if ok && len(mc.Bindings) == 1 {
					ok = pathOf(mc.Bindings[0]).Has(fileF)
				}
				detail = "Open must install db.file.WriteAt"
			}
			if ok && name == "bbolt.(*DB).close" {
				ok = isNilConst(st.Val)
				detail = "close must clear the writer"
			}
			c.check(id+":"+name+":stores-writeAt", st.Fn, st.Instr.Pos(), "ops.writeAt is assigned only in Open (db.file.WriteAt) and close (nil)", ok, detail)
		}
		// (3) every use of the *os.File held in DB.file
		for _, fn := range fns {
			name := shortFn(fn)
			eachInstr(fn, func(in ssa.Instruction) {
				ld, ok := in.(*ssa.UnOp)
				if !ok || ld.Op != token.MUL {
					return
				}
				fa, ok := ld.X.(*ssa.FieldAddr)
				if !ok || fieldOfAddr(fa) != fileF {
					return
				}
				useClosure(ld, func(user ssa.Instruction, alias ssa.Value) {
					key := id + ":" + name + ":file-use"
					switch u := user.(type) {
					case ssa.CallInstruction:
						callee := calleeOf(u)
						cn := callee.Name()
						args := u.Common().Args
						isRecv := len(args) > 0 && args[0] == alias && callee.Static != nil && strings.HasPrefix(cn, "os.(*File).")
						switch {
						case isRecv && fileReadOnlyMethods[cn]:
							if cn == "os.(*File).Fd" {
								if call, ok := u.(*ssa.Call); ok {
									checkFdUses(c, id, fn, call)
								}
							}
							return
						case isRecv && cn == "os.(*File).Truncate":
							c.check(id+":"+name+":truncates-file", fn, user.Pos(), "DB.file is truncated only in grow (and windows mmap)", truncAllowed[name],
								name+" changes the file length but is not in the allow-list")
							return
						case isRecv:
							c.check(key+":"+cn, fn, user.Pos(), "DB.file is only read, synced, truncated (allow-listed) or closed", false, name+" calls "+cn+" on the data file")
							return
						case cn == "bbolt.sameFile" || cn == "io.NewSectionReader" || cn == "os.SameFile":
							return
						}
						c.check(key+":arg-of-"+cn, fn, user.Pos(), "DB.file is not handed to other code", false, name+" passes the data file to "+cn)
					case *ssa.MakeClosure:
						bn := shortFn(u.Fn.(*ssa.Function))
						ok := strings.HasPrefix(bn, "os.(*File).WriteAt") && name == "bbolt.Open"
						c.check(id+":"+name+":binds-"+bn, fn, user.Pos(), "the only bound method of DB.file is WriteAt, taken in Open", ok, name+" binds "+bn+" of the data file")
					case *ssa.BinOp, *ssa.If:
						return
					case *ssa.MakeInterface:
						// only reader interfaces
						okI := true
						if it, isI := u.Type().Underlying().(*types.Interface); isI {
							for i := 0; i < it.NumMethods(); i++ {
								mn := it.Method(i).Name()
								if strings.HasPrefix(mn, "Write") || mn == "Truncate" || mn == "ReadFrom" {
									okI = false
								}
							}
						}
						// follow the interface value to its users
						useClosure(u, func(user2 ssa.Instruction, _ ssa.Value) {
							if ci, ok := user2.(ssa.CallInstruction); ok {
								n2 := calleeOf(ci).Name()
								if n2 != "io.NewSectionReader" {
									c.check(key+":iface-arg-of-"+n2, fn, user2.Pos(), "DB.file is not handed to other code", false, name+" passes the data file (as interface) to "+n2)
								}
							}
						})
						if !okI {
							c.check(key+":writer-iface", fn, user.Pos(), "DB.file is never converted to a writer interface", false, name+" converts the data file to "+u.Type().String())
						}
					case *ssa.Store:
						// stored somewhere that is not a local cell
						c.check(key+":escapes", fn, user.Pos(), "DB.file does not escape into other structures", false, name+" stores the data file into "+u.Addr.Name())
					case *ssa.Return:
						c.check(key+":returned", fn, user.Pos(), "DB.file is not returned", false, name+" returns the data file")
					default:
						c.check(key+":other", fn, user.Pos(), "DB.file use is of a known kind", false, fmt.Sprintf("%s uses the data file in %T", name, user))
					}
				})
			})
		}
		// (4) stores to DB.file itself
		for _, st := range storesToField(fns, fileF) {
			name := shortFn(st.Fn)
			ok := name == "bbolt.Open" || (name == "bbolt.(*DB).close" && isNilConst(st.Val))
			c.check(id+":"+name+":stores-file", st.Fn, st.Instr.Pos(), "DB.file is assigned only in Open (from openFile) and close (nil)", ok, name+" replaces DB.file")
		}
	})
}

func checkFdUses(c *Ctx, id string, fn *ssa.Function, fd *ssa.Call) {
	name := shortFn(fn)
	useClosure(fd, func(user ssa.Instruction, _ ssa.Value) {
		ci, ok := user.(ssa.CallInstruction)
		if !ok {
			return
		}
		cn := calleeOf(ci).Name()
		c.check(id+":"+name+":fd-to-"+cn, fn, user.Pos(), "the descriptor of DB.file is passed only to sync / lock / mmap primitives", fdAllowedCallees[cn],
			name+" passes the data file's descriptor to "+cn)
	})
}

// ---------------------------------------------------------------- I/O error discipline (C01.R6, C08.R5)

var ioLayerCallees = map[string]bool{
	"bbolt.fdatasync": true, "os.(*File).Sync": true, "os.(*File).Truncate": true,
	"bbolt.(*DB).grow": true, "bbolt.(*DB).mmap": true, "bbolt.(*DB).munmap": true, "bbolt.mmap": true, "bbolt.munmap": true,
	"bbolt.mlock": true, "bbolt.munlock": true, "bbolt.(*DB).mlock": true, "bbolt.(*DB).munlock": true, "bbolt.(*DB).mrelock": true,
	"bbolt.(*DB).allocate": true, "bbolt.(*Tx).allocate": true, "bbolt.(*Tx).write": true, "bbolt.(*Tx).writeMeta": true,
	"bbolt.(*Tx).commitFreelist": true, "bbolt.(*node).spill": true, "bbolt.(*Bucket).spill": true, "bbolt.(*DB).init": true,
	"bbolt.flock": true, "bbolt.(*DB).fileSize": true, "bbolt.(*DB).getPageSize": true, "bbolt.(*DB).mmapSize": true,
	"bbolt.msync": true,
}

func ruleIOErrorDiscipline(c *Ctx, id string) {
	c.rule(id, "io-error-discipline", 28, func() {
		wf := c.dbField("ops.writeAt")
		for _, fn := range c.P.FnsIn(rootPkg) {
			name := shortFn(fn)
			counts := map[string]int{}
			eachInstr(fn, func(in ssa.Instruction) {
				ci, ok := in.(ssa.CallInstruction)
				if !ok {
					return
				}
				callee := calleeOf(ci)
				cn := callee.Name()
				if !(ioLayerCallees[cn] || (callee.Field != nil && callee.Field == wf)) {
					return
				}
				counts[cn]++
				key := fmt.Sprintf("%s:%s:%s#%d", id, name, cn, counts[cn])
				call, isCall := ci.(*ssa.Call)
				if !isCall {
					c.check(key, fn, in.Pos(), "the error of an I/O-layer call is tested and propagated", false, "deferred or spawned: the error result is lost")
					return
				}
				msg := errorHandled(call)
				c.check(key, fn, in.Pos(), "the error of "+cn+" is tested and its non-nil edge reaches an error return (or it is returned / collected)", msg == "", msg)
			})
		}
	})
}

// ---------------------------------------------------------------- meta slot (C01.R7, C06.R6, C12.R7)

func ruleMetaSlot(c *Ctx, id string) {
	c.rule(id, "meta-slot", 4, func() {
		commonPath := modulePath + "/internal/common"
		txidF := c.P.lookupField(commonPath, "Meta", "txid")
		pageID := c.P.lookupField(commonPath, "Page", "id")
		if txidF == nil || pageID == nil {
			panic(anchorErr{"common.Meta.txid / common.Page.id"})
		}
		// (a) Meta.Write stores txid%2 into the page id
		mw := c.fn("common.(*Meta).Write")
		bad := ""
		rows := 0
		for k := int64(0); k < 8; k++ {
			var stored *V
			ev := &Evaluator{
				Load: func(u *ssa.UnOp) (V, bool) {
					fp := pathOf(u)
					switch {
					case fp.Last() == txidF:
						return uV(uint64(k)), true
					case fp.Names() == "root.root":
						return uV(3), true
					case fp.Names() == "pgid":
						return uV(100), true
					case fp.Names() == "freelist":
						return uV(2), true
					}
					return unkV, false
				},
				OnStore: func(s *ssa.Store, val V) {
					if fa, ok := s.Addr.(*ssa.FieldAddr); ok && fieldOfAddr(fa) == pageID {
						v := val
						stored = &v
					}
				},
			}
			o := ev.Exec(mw, nil)
			rows++
			if o.Kind != "return" {
				bad = fmt.Sprintf("txid=%d: %s", k, o)
				break
			}
			if stored == nil {
				bad = fmt.Sprintf("txid=%d: no store to Page.id", k)
				break
			}
			if got, ok := stored.Int(); !ok || got != k%2 {
				bad = fmt.Sprintf("txid=%d: page id %s, want %d", k, *stored, k%2)
				break
			}
		}
		c.check(id+":common.(*Meta).Write:slot=txid%2", mw, mw.Pos(), fmt.Sprintf("the page id written by Meta.Write equals txid mod 2 (tabulated for txid 0..7, %d rows)", rows), bad == "", bad)

		// (b) txid arithmetic and who may change it
		inc := c.fn("common.(*Meta).IncTxid")
		badInc := ""
		for k := int64(5); k < 7; k++ {
			var stored *V
			ev := &Evaluator{
				Load: func(u *ssa.UnOp) (V, bool) {
					if pathOf(u).Last() == txidF {
						return uV(uint64(k)), true
					}
					return unkV, false
				},
				OnStore: func(s *ssa.Store, val V) {
					if fa, ok := s.Addr.(*ssa.FieldAddr); ok && fieldOfAddr(fa) == txidF {
						v := val
						stored = &v
					}
				},
			}
			o := ev.Exec(inc, nil)
			if got, ok := int64(0), false; stored != nil {
				got, ok = stored.Int()
				if !ok || got != k+1 {
					badInc = fmt.Sprintf("IncTxid(%d) stores %s", k, *stored)
				}
			} else {
				badInc = "IncTxid stores nothing: " + o.String()
			}
		}
		callers := c.callerNames(inc)
		okCallers := len(callers) == 1 && callers[0] == "bbolt.(*Tx).init"
		// the call is on the tx.writable branch
		if okCallers {
			txInit := c.fn("bbolt.(*Tx).init")
			wrF := c.P.lookupField(rootPkg, "Tx", "writable")
			for _, call := range plainCallsIn(txInit, "common.(*Meta).IncTxid") {
				guarded := false
				for b := call.Block(); b != nil; b = b.Idom() {
					if iff, ok := b.Instrs[len(b.Instrs)-1].(*ssa.If); ok && blockDominatedByEdge(b, b.Succs[0], call.Block()) {
						if pathOf(iff.Cond).Last() == wrF {
							guarded = true
						}
					}
				}
				if !guarded {
					okCallers = false
					badInc = "IncTxid is not guarded by tx.writable"
				}
			}
		}
		c.check(id+":common.(*Meta).IncTxid:+1-only-in-tx.init", inc, inc.Pos(), "IncTxid adds exactly 1 and is called only from (*Tx).init under tx.writable", badInc == "" && okCallers,
			fmt.Sprintf("%s callers=%v", badInc, callers))

		for _, spec := range []struct {
			fn      string
			allowed map[string]bool
		}{
			{"common.(*Meta).SetTxid", map[string]bool{"bbolt.(*DB).init": true}},
			{"common.(*Meta).DecTxid", map[string]bool{"bbolt.(*Tx).WriteTo": true}},
		} {
			f := c.fn(spec.fn)
			badC := ""
			for _, cs := range c.callersOf(f) {
				n := shortFn(topLevel(cs.Caller))
				pk := fnPkg(cs.Caller)
				if pk != nil && strings.Contains(pk.Path(), "/cmd/") {
					continue // surgery meta update: explicit, user-requested edit of an offline file
				}
				if !spec.allowed[n] {
					badC = n
				}
			}
			c.check(id+":"+spec.fn+":callers", f, f.Pos(), fmt.Sprintf("%s is called only from %v (and the offline surgery tool)", spec.fn, sortedKeys(spec.allowed)), badC == "", badC+" changes a transaction id")
		}
		// direct stores to Meta.txid outside the accessors
		for _, st := range storesToField(c.P.Subjects, txidF) {
			n := shortFn(st.Fn)
			ok := n == "common.(*Meta).SetTxid" || n == "common.(*Meta).IncTxid" || n == "common.(*Meta).DecTxid"
			if !ok {
				c.check(id+":"+n+":stores-txid", st.Fn, st.Instr.Pos(), "Meta.txid is stored only by its accessors", false, n+" stores Meta.txid directly")
			}
		}

		// (c) writeMeta: offset derives from the id of the page handed to Meta.Write and pageSize
		wm := c.fn("bbolt.(*Tx).writeMeta")
		wf := c.dbField("ops.writeAt")
		ws := fieldCallsIn(wm, wf)
		mws := plainCallsIn(wm, "common.(*Meta).Write")
		okOff := len(ws) == 1 && len(mws) == 1
		detail := fmt.Sprintf("%d writeAt, %d Meta.Write calls", len(ws), len(mws))
		if okOff {
			page := mws[0].Call.Args[1]
			off := ws[0].Common().Args[1]
			ls := provenance(off, provOpts{ThroughCall: func(*ssa.Call) bool { return true }})
			sawID := false
			for _, l := range ls {
				switch l.Kind {
				case "call":
					call := l.V.(*ssa.Call)
					if l.Name == "common.(*Page).Id" && call.Call.Args[0] == page {
						sawID = true
					} else if l.Name == "bbolt.(*DB).pageInBuffer" || l.Name == "common.(*Page).Id" {
						if l.Name == "common.(*Page).Id" {
							okOff = false
							detail = "offset uses the id of a different page"
						}
					} else {
						okOff = false
						detail = "offset depends on " + l.Name
					}
				case "field":
					if !(strings.HasSuffix(l.Name, "pageSize") || l.Name == "db" || strings.HasSuffix(l.Name, ".db")) {
						okOff = false
						detail = "offset depends on field " + l.Name
					}
				}
			}
			if !sawID {
				okOff = false
				detail = "offset does not derive from p.Id() of the page given to Meta.Write"
			}
			if okOff {
				if msg := offsetTable(c, off); msg != "" {
					okOff = false
					detail = msg
				}
			}
			if !dominates(mws[0], ws[0].(ssa.Instruction)) {
				okOff = false
				detail = "Meta.Write must precede writeAt"
			}
			// the buffer written is the buffer the page lives in
			bufLs := provenance(ws[0].Common().Args[0], provOpts{})
			pgLs := provenance(page, provOpts{ThroughCall: func(*ssa.Call) bool { return true }})
			shared := false
			for _, a := range bufLs {
				for _, b := range pgLs {
					if a.V == b.V && (a.Kind == "make" || a.Kind == "alloc") {
						shared = true
					}
				}
			}
			if !shared {
				okOff = false
				detail = "the buffer written is not the buffer holding the meta page"
			}
		}
		c.check(id+":(*Tx).writeMeta:offset=p.Id*pageSize", wm, wm.Pos(), "the meta writeAt offset derives only from p.Id() of the page filled by tx.meta.Write(p) and pageSize; the buffer written holds that page", okOff, detail)

		// (d) db.meta() decision table
		ruleMetaTable(c, id)
	})
}

// ruleMetaTable tabulates (*DB).meta over (valid0, valid1, txid1>txid0).
func ruleMetaTable(c *Ctx, id string) {
	mf := c.fn("bbolt.(*DB).meta")
	bad := ""
	rows := 0
	for _, v0 := range []bool{true, false} {
		for _, v1 := range []bool{true, false} {
			for _, newer1 := range []bool{true, false} {
				rows++
				ev := &Evaluator{
					Load: func(u *ssa.UnOp) (V, bool) {
						switch pathOf(u).Names() {
						case "meta0":
							return symV("m0"), true
						case "meta1":
							return symV("m1"), true
						}
						return unkV, false
					},
					Call: func(call *ssa.Call, args []V) (V, bool) {
						n := calleeOf(call).Name()
						if len(args) == 0 || args[0].K != vSym {
							return unkV, false
						}
						is1 := args[0].S == "m1"
						switch n {
						case "common.(*Meta).Txid":
							if is1 == newer1 {
								return uV(9), true
							}
							return uV(8), true
						case "common.(*Meta).Validate":
							valid := v0
							if is1 {
								valid = v1
							}
							if valid {
								return nilV, true
							}
							return symV("err"), true
						}
						return unkV, false
					},
				}
				o := ev.Exec(mf, nil)
				want := "panic"
				a, b, va, vb := "m0", "m1", v0, v1
				if newer1 {
					a, b, va, vb = "m1", "m0", v1, v0
				}
				if va {
					want = a
				} else if vb {
					want = b
				}
				got := o.Kind
				if o.Kind == "return" && len(o.Rets) == 1 && o.Rets[0].K == vSym {
					got = o.Rets[0].S
				}
				if got != want {
					bad = fmt.Sprintf("valid0=%v valid1=%v txid1>txid0=%v: got %s (%s), want %s", v0, v1, newer1, got, o, want)
				}
			}
		}
	}
	c.check(id+":(*DB).meta:table", mf, mf.Pos(), fmt.Sprintf("db.meta() returns the valid meta with the larger txid, the other one if only that is valid, panics iff both invalid (%d rows)", rows), bad == "", bad)
}

// ---------------------------------------------------------------- checksum after mutation (C01.R8, C12, C14, C20)

var metaMutators = map[string]bool{
	"common.(*Meta).SetMagic": true, "common.(*Meta).SetVersion": true, "common.(*Meta).SetPageSize": true, "common.(*Meta).SetFlags": true,
	"common.(*Meta).SetRootBucket": true, "common.(*Meta).SetFreelist": true, "common.(*Meta).SetPgid": true, "common.(*Meta).SetTxid": true,
	"common.(*Meta).IncTxid": true, "common.(*Meta).DecTxid": true,
}

var rawWriters = map[string]bool{
	"field:writeAt": true, "io.Writer.Write": true, "os.(*File).WriteAt": true, "os.(*File).Write": true, "guts_cli.WritePage": true,
	"command.writeMetaPageAt": true,
}

// functions that mutate a meta in a buffer their caller writes out
var deferredMetaWriters = map[string]bool{"command.updateMetaField": true}

func isMetaPtr(t types.Type) bool {
	pt, ok := t.(*types.Pointer)
	if !ok {
		return false
	}
	n, ok := pt.Elem().(*types.Named)
	return ok && n.Obj().Name() == "Meta" && n.Obj().Pkg() != nil && strings.HasSuffix(n.Obj().Pkg().Path(), "internal/common")
}

func ruleChecksumAfterMutation(c *Ctx, id string, floor int) {
	c.rule(id, "checksum-after-mutation", floor, func() {
		commonPath := modulePath + "/internal/common"
		ckF := c.P.lookupField(commonPath, "Meta", "checksum")
		if ckF == nil {
			panic(anchorErr{"common.Meta.checksum"})
		}
		for _, fn := range c.P.Subjects {
			name := shortFn(fn)
			var muts, sums, writes []ssa.Instruction
			eachInstr(fn, func(in ssa.Instruction) {
				switch x := in.(type) {
				case ssa.CallInstruction:
					cn := calleeOf(x).Name()
					switch {
					case metaMutators[cn]:
						muts = append(muts, in)
					case cn == "common.(*Meta).SetChecksum":
						// the argument must be Sum64() of a meta
						ok := false
						for _, l := range provenance(x.Common().Args[1], provOpts{}) {
							if l.Kind == "call" && l.Name == "common.(*Meta).Sum64" {
								ok = true
							}
						}
						if ok {
							sums = append(sums, in)
						} else {
							muts = append(muts, in) // a checksum that is not Sum64() is just another mutation
						}
					case rawWriters[cn]:
						writes = append(writes, in)
					case cn == "common.(*Meta).Copy" && name == "common.(*Meta).Write":
						writes = append(writes, in)
					}
				case *ssa.Store:
					if fa, ok := x.Addr.(*ssa.FieldAddr); ok {
						if st, ok := fa.X.Type().Underlying().(*types.Pointer); ok && isMetaPtr(st) {
							if fieldOfAddr(fa) == ckF {
								okSum := false
								for _, l := range provenance(x.Val, provOpts{}) {
									if l.Kind == "call" && l.Name == "common.(*Meta).Sum64" {
										okSum = true
									}
								}
								if okSum {
									sums = append(sums, in)
								} else {
									muts = append(muts, in)
								}
							} else if !strings.HasPrefix(name, "common.(*Meta).Set") && name != "common.(*Meta).IncTxid" && name != "common.(*Meta).DecTxid" {
								muts = append(muts, in)
							}
						}
					} else if isMetaPtr(x.Addr.Type()) {
						// whole-struct assignment *m = ...
						if name != "common.(*Meta).Copy" {
							muts = append(muts, in)
						}
					}
				}
			})
			// `if m.Checksum() != m.Sum64() { m.SetChecksum(sum) }`: after the comparison the
			// checksum equals Sum64() on both edges, provided the unequal edge assigns it.
			eachInstr(fn, func(in ssa.Instruction) {
				bo, ok := in.(*ssa.BinOp)
				if !ok || (bo.Op != token.NEQ && bo.Op != token.EQL) {
					return
				}
				a, okA := bo.X.(*ssa.Call)
				b, okB := bo.Y.(*ssa.Call)
				if !okA || !okB {
					return
				}
				na, nb := calleeOf(a).Name(), calleeOf(b).Name()
				if !((na == "common.(*Meta).Checksum" && nb == "common.(*Meta).Sum64") || (nb == "common.(*Meta).Checksum" && na == "common.(*Meta).Sum64")) {
					return
				}
				for _, r := range *bo.Referrers() {
					iff, ok := r.(*ssa.If)
					if !ok {
						continue
					}
					ne := iff.Block().Succs[0]
					if bo.Op == token.EQL {
						ne = iff.Block().Succs[1]
					}
					for _, s := range sums {
						if s.Block() == ne || ne.Dominates(s.Block()) {
							sums = append(sums, bo)
							return
						}
					}
				}
			})
			if deferredMetaWriters[name] {
				// the caller writes the buffer: the hand-over is the return
				for _, r := range returnsOf(fn) {
					writes = append(writes, r)
				}
			}
			if name == "common.(*Meta).Write" {
				// checksum is computed inside; the hand-over is the Copy
				ok := len(sums) == 1 && len(writes) == 1 && dominates(sums[0], writes[0])
				if ok {
					r := reach(sums[:1], nil, func(in ssa.Instruction) bool { return in == writes[0] }, nil)
					for _, m := range muts {
						if r[m] {
							ok = false
						}
					}
				}
				c.check(id+":"+name+":checksum<copy", fn, fn.Pos(), "m.checksum = m.Sum64() dominates the copy into the page, with no field store in between", ok, "the meta is copied to the page with a stale checksum")
				continue
			}
			if len(muts) == 0 || len(writes) == 0 {
				continue
			}
			// every path mutation -> writer passes a checksum assignment
			isSum := map[ssa.Instruction]bool{}
			for _, s := range sums {
				isSum[s] = true
			}
			bad := ""
			relevant := false
			for _, m := range muts {
				r := reach([]ssa.Instruction{m}, nil, func(in ssa.Instruction) bool { return isSum[in] }, nil)
				for _, w := range writes {
					full := reach([]ssa.Instruction{m}, nil, nil, nil)
					if full[w] {
						relevant = true
					}
					if r[w] {
						bad = fmt.Sprintf("mutation at %s reaches the write at %s without SetChecksum(Sum64())", c.P.Position(m.Pos()), c.P.Position(w.Pos()))
					}
				}
			}
			if !relevant {
				continue
			}
			c.check(id+":"+name+":mutation<checksum<write", fn, fn.Pos(), fmt.Sprintf("between the last Meta field store and the hand-over to a writer the checksum is recomputed on every path (%d mutations, %d checksum assignments, %d writes)", len(muts), len(sums), len(writes)),
				bad == "", bad)
		}
	})
}

func sortedFnNames(fns []*ssa.Function) []string {
	var out []string
	for _, f := range fns {
		out = append(out, shortFn(f))
	}
	sort.Strings(out)
	return out
}

// ruleRollbackUndoesFrees: every way a WRITE transaction is abandoned undoes the
// page frees it recorded — freelist.Rollback(<tx>.meta.Txid()) is must-pass before
// (*Tx).close in both the user rollback and the physical rollback. A transaction
// frees pages immediately (DeleteBucket, rebalance); if they stay in pending[txid]
// after the abort, the next writer re-uses the txid and releases pages that are
// still part of the newest committed state.
func ruleRollbackUndoesFrees(c *Ctx, id string) {
	c.rule(id, "abort-undoes-frees", 2, func() {
		wr := txField(c, "writable")
		dbF := txField(c, "db")
		for _, name := range []string{"bbolt.(*Tx).nonPhysicalRollback", "bbolt.(*Tx).rollback"} {
			fn := c.fn(name)
			closeC := c.theCall(id, fn, "bbolt.(*Tx).close")
			if closeC == nil {
				continue
			}
			rbs := callsIn(fn, "freelist.Interface.Rollback")
			isRB := func(in ssa.Instruction) bool {
				for _, r := range rbs {
					if r == in {
						return true
					}
				}
				return false
			}
			r := reach(nil, []*ssa.BasicBlock{fn.Blocks[0]}, isRB, cutByEnv(map[*types.Var]bool{wr: true, dbF: true}))
			ok := len(rbs) >= 1 && !r[closeC]
			// and the key is the transaction's own id (C06.R4 checks the argument)
			c.check(id+":"+name+":freelist.Rollback<close", fn, closeC.Pos(), "for an open write transaction every path to tx.close() passes freelist.Rollback(txid): the pages it freed leave the pending set", ok,
				"tx.close() is reachable for a write transaction without freelist.Rollback: pages freed by the aborted transaction stay pending under its txid and are released by the next writer although the committed state still uses them")
		}
	})
}

// checkOpenedBeforeOpenFile: (*DB).close is a no-op unless db.opened is set, so the
// cleanup on Open's error exits only works if `opened` is already true when the
// file is opened and locked (two cooperating sites: the flag in Open, the early
// return in close).
func checkOpenedBeforeOpenFile(c *Ctx, id string) {
	open := c.fn("bbolt.Open")
	openedF := c.dbField("opened")
	cl := c.fn("bbolt.(*DB).close")
	// close's early return is exactly the `!db.opened` guard
	guardOK := false
	entry := cl.Blocks[0]
	if iff, isIf := entry.Instrs[len(entry.Instrs)-1].(*ssa.If); isIf && pathOf(iff.Cond).Last() == openedF {
		guardOK = true
	}
	var setTrue ssa.Instruction
	bad := ""
	for _, st := range storesToField([]*ssa.Function{open}, openedF) {
		if b, isC := constBool(st.Val); isC && b {
			setTrue = st.Instr
		} else {
			bad = "Open stores a value other than true into DB.opened"
		}
	}
	ofs := fieldCallsIn(open, c.dbField("openFile"))
	n := 0
	if setTrue == nil {
		bad = "Open never sets DB.opened"
	} else {
		for _, o := range ofs {
			if !dominates(setTrue, o.(ssa.Instruction)) {
				bad = "the file is opened (and then locked) before db.opened is set: close() on an error exit returns early and leaks descriptor and lock"
			}
		}
		for _, call := range plainCallsIn(open, "bbolt.(*DB).close") {
			n++
			if !dominates(setTrue, call) {
				bad = "db.close() at " + c.P.Position(call.Pos()) + " can run with db.opened still false (it would do nothing)"
			}
		}
	}
	c.check(id+":bbolt.Open:opened-before-openFile", open, open.Pos(), fmt.Sprintf("DB.opened is set to true before the file is opened, so each of the %d db.close() calls on Open's error exits really closes the descriptor (close is a no-op while !db.opened)", n), bad == "" && guardOK && len(ofs) == 1 && n > 0, bad)
}
