# sourced by setup.sh and bin/check: the toolchain that can type-check /repo offline
if [ -x /opt/veriftools/go1.26.8/bin/go ]; then
  export PATH=/opt/veriftools/go1.26.8/bin:$PATH
else
  # fallback: the repository's own toolchain from the module cache
  for d in /root/go/pkg/mod/golang.org/toolchain@v0.0.1-go1.25.*.linux-amd64/bin; do
    [ -x "$d/go" ] && export PATH=$d:$PATH
  done
fi
export GOTOOLCHAIN=local GOFLAGS=-mod=mod GOPROXY=off GOSUMDB=off CARGO_NET_OFFLINE=true PIP_NO_INDEX=1
unset GOWORK
