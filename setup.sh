#!/bin/bash
# setup_cmd: builds /verif/bin/verif-static from /verif/checker, offline.
set -euo pipefail
cd "$(dirname "$0")"
. ./env.sh
mkdir -p bin evidence
(cd checker && go build -o ../bin/verif-static .)
echo "built $(pwd)/bin/verif-static with $(go version)"
