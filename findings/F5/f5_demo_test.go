package bbolt

// F5 demonstration: a failing fdatasync at the very end of (*Tx).writeMeta
// (i.e. AFTER the meta page has already been written with writeAt) makes
// (*Tx).Commit call tx.rollback(). At that point db.meta() already returns the
// NEW meta page (it is visible through the shared mmap), so rollback() reloads
// the NEW freelist page, which lists the pages freed by the failed transaction
// itself. freelist.Rollback(txid) has dropped pending[txid] just before, so
// these ids become plainly *free* although a still-open read transaction uses
// them. The next writers overwrite the reader's snapshot.
//
// No non-test code is modified: the fault is injected by wrapping the
// unexported db.ops.writeAt hook and temporarily dup2()-ing a pipe over the
// database file descriptor so that exactly one syscall.Fdatasync fails.

import (
	"bytes"
	"crypto/sha256"
	"encoding/hex"
	"fmt"
	"os"
	"path/filepath"
	"sort"
	"syscall"
	"testing"
	"unsafe"

	"go.etcd.io/bbolt/internal/common"
)

const (
	f5Keys    = 200
	f5ValSize = 1024
)

func f5Key(i int) []byte { return []byte(fmt.Sprintf("key-%05d", i)) }

// f5Snapshot walks every key of bucket "data" through tx and returns a
// key->value copy plus a digest. Panics while walking (page type assertions,
// out-of-range slices, ...) are caught and returned as an error string.
func f5Snapshot(tx *Tx) (kv map[string][]byte, digest string, walkErr string) {
	kv = map[string][]byte{}
	defer func() {
		if r := recover(); r != nil {
			walkErr = fmt.Sprintf("PANIC while walking: %v", r)
		}
	}()
	b := tx.Bucket([]byte("data"))
	if b == nil {
		return kv, "", "bucket \"data\" not found"
	}
	h := sha256.New()
	c := b.Cursor()
	for k, v := c.First(); k != nil; k, v = c.Next() {
		kv[string(k)] = append([]byte(nil), v...)
		h.Write(k)
		h.Write([]byte{0})
		h.Write(v)
		h.Write([]byte{0})
	}
	return kv, hex.EncodeToString(h.Sum(nil)), ""
}

// f5PagesOf returns the set of page ids reachable from bucket "data" in tx.
func f5PagesOf(tx *Tx) (ids []uint64, walkErr string) {
	defer func() {
		if r := recover(); r != nil {
			walkErr = fmt.Sprintf("PANIC while collecting pages: %v", r)
		}
	}()
	b := tx.Bucket([]byte("data"))
	if b == nil {
		return nil, "bucket \"data\" not found"
	}
	seen := map[uint64]bool{}
	var rec func(pgid uint64)
	rec = func(pgid uint64) {
		p := tx.page(common.Pgid(pgid))
		for i := uint32(0); i <= p.Overflow(); i++ {
			seen[pgid+uint64(i)] = true
		}
		if p.IsBranchPage() {
			for i := 0; i < int(p.Count()); i++ {
				rec(uint64(p.BranchPageElement(uint16(i)).Pgid()))
			}
		}
	}
	rec(uint64(b.RootPage()))
	for id := range seen {
		ids = append(ids, id)
	}
	sort.Slice(ids, func(i, j int) bool { return ids[i] < ids[j] })
	return ids, ""
}

func f5Diff(t *testing.T, before, after map[string][]byte) (missing, changed, extra int) {
	t.Helper()
	keys := make([]string, 0, len(before))
	for k := range before {
		keys = append(keys, k)
	}
	sort.Strings(keys)
	shown := 0
	for _, k := range keys {
		nv, ok := after[k]
		switch {
		case !ok:
			missing++
			if shown < 5 {
				t.Logf("    key %q: MISSING from reader's second walk", k)
				shown++
			}
		case !bytes.Equal(before[k], nv):
			changed++
			if shown < 5 {
				n := 8
				if len(nv) < n {
					n = len(nv)
				}
				t.Logf("    key %q: value changed: was len=%d first bytes % x ; now len=%d first bytes % x",
					k, len(before[k]), before[k][:8], len(nv), nv[:n])
				shown++
			}
		}
	}
	for k := range after {
		if _, ok := before[k]; !ok {
			extra++
			if shown < 8 {
				n := 16
				if len(k) < n {
					n = len(k)
				}
				t.Logf("    EXTRA key (not in first walk): len=%d first bytes % x", len(k), []byte(k)[:n])
				shown++
			}
		}
	}
	return
}

func f5Check(t *testing.T, db *DB, label string) int {
	t.Helper()
	n := 0
	err := db.View(func(tx *Tx) error {
		for e := range tx.Check() {
			n++
			if n <= 10 {
				t.Logf("  [%s] tx.Check: %v", label, e)
			}
		}
		return nil
	})
	if err != nil {
		t.Logf("  [%s] db.View for Check returned %v", label, err)
	}
	t.Logf("  [%s] tx.Check on a FRESH read tx reported %d problem(s)", label, n)
	return n
}

func f5Run(t *testing.T, inject bool) (readerViewChanged bool) {
	path := filepath.Join(t.TempDir(), "f5.db")
	// InitialMmapSize only avoids a re-mmap (which would block on the open
	// reader R, a documented bbolt behaviour); everything else is default.
	db, err := Open(path, 0600, &Options{InitialMmapSize: 64 << 20})
	if err != nil {
		t.Fatal(err)
	}
	defer func() {
		// do not let a close error hide the result
		_ = db.Close()
	}()
	pageSize := db.pageSize
	t.Logf("pageSize=%d inject=%v NoSync=%v NoFreelistSync=%v", pageSize, inject, db.NoSync, db.NoFreelistSync)

	// ---- step 1: populate -------------------------------------------------
	if err := db.Update(func(tx *Tx) error {
		b, err := tx.CreateBucket([]byte("data"))
		if err != nil {
			return err
		}
		for i := 0; i < f5Keys; i++ {
			if err := b.Put(f5Key(i), bytes.Repeat([]byte{0xAA}, f5ValSize)); err != nil {
				return err
			}
		}
		return nil
	}); err != nil {
		t.Fatal(err)
	}

	// ---- step 2: open reader R and remember what it sees -----------------
	R, err := db.Begin(false)
	if err != nil {
		t.Fatal(err)
	}
	defer func() { _ = R.Rollback() }()
	before, digestBefore, werr := f5Snapshot(R)
	if werr != "" {
		t.Fatalf("first walk failed: %s", werr)
	}
	rPages, _ := f5PagesOf(R)
	t.Logf("step2: reader R (txid=%d) sees %d keys, digest=%s", R.ID(), len(before), digestBefore[:16])
	t.Logf("step2: R's bucket \"data\" occupies %d pages, ids %d..%d", len(rPages), rPages[0], rPages[len(rPages)-1])
	t.Logf("step2: freelist free=%d pending=%d  meta.txid=%d meta.freelist=%d",
		db.freelist.FreeCount(), db.freelist.PendingCount(), db.meta().Txid(), db.meta().Freelist())

	// ---- step 3: writer whose commit fails at the final fdatasync --------
	origWriteAt := db.ops.writeAt
	fd := int(db.file.Fd())
	savedFd := -1
	var pipeFds [2]int
	armed := false
	injected := false
	if inject {
		db.ops.writeAt = func(b []byte, off int64) (int, error) {
			n, err := origWriteAt(b, off)
			if armed && !injected && err == nil && off < int64(2*pageSize) && len(b) == pageSize {
				// The meta page is now in the file (and visible via mmap).
				// Make the *next* fdatasync on db.file fail with EINVAL by
				// temporarily pointing the descriptor at a pipe.
				var e error
				if savedFd, e = syscall.Dup(fd); e != nil {
					panic(e)
				}
				if e = syscall.Pipe(pipeFds[:]); e != nil {
					panic(e)
				}
				if e = syscall.Dup2(pipeFds[0], fd); e != nil {
					panic(e)
				}
				injected = true
			}
			return n, err
		}
	}

	wtx, err := db.Begin(true)
	if err != nil {
		t.Fatal(err)
	}
	wtxid := wtx.ID()
	wb := wtx.Bucket([]byte("data"))
	for i := 0; i < f5Keys; i++ {
		if err := wb.Put(f5Key(i), bytes.Repeat([]byte{0xBB}, f5ValSize)); err != nil {
			t.Fatal(err)
		}
	}
	armed = true
	commitErr := wtx.Commit()
	armed = false
	if inject {
		if !injected {
			t.Fatalf("fault was never injected")
		}
		// restore the descriptor
		if e := syscall.Dup2(savedFd, fd); e != nil {
			t.Fatalf("restore dup2: %v", e)
		}
		_ = syscall.Close(savedFd)
		_ = syscall.Close(pipeFds[0])
		_ = syscall.Close(pipeFds[1])
		db.ops.writeAt = origWriteAt
		if commitErr == nil {
			t.Fatalf("expected Commit to fail, it succeeded")
		}
		t.Logf("step3: writer txid=%d Commit returned error as intended: %v", wtxid, commitErr)
		if st, e := os.Stat(path); e != nil || st.Size() == 0 {
			t.Fatalf("db file not healthy after restore: %v", e)
		}
		if e := fdatasync(db); e != nil {
			t.Fatalf("fdatasync still failing after restore: %v", e)
		}
	} else {
		if commitErr != nil {
			t.Fatalf("control commit failed: %v", commitErr)
		}
		t.Logf("step3: writer txid=%d Commit succeeded (control)", wtxid)
	}
	t.Logf("step3: after commit attempt: db.meta().Txid()=%d (writer txid was %d) meta.freelist=%d",
		db.meta().Txid(), wtxid, db.meta().Freelist())
	t.Logf("step3: freelist free=%d pending=%d", db.freelist.FreeCount(), db.freelist.PendingCount())
	// Which of R's pages does the in-memory freelist now consider FREE
	// (allocatable), as opposed to pending?
	var rFreed []uint64
	for _, id := range rPages {
		if db.freelist.Freed(common.Pgid(id)) {
			rFreed = append(rFreed, id)
		}
	}
	t.Logf("step3: %d of R's %d pages are known to db.freelist; FreeCount=%d PendingCount=%d (pages freed under an open reader must stay PENDING; FREE means the next writer may overwrite them)",
		len(rFreed), len(rPages), db.freelist.FreeCount(), db.freelist.PendingCount())

	// Reader still fine right now?
	_, digestMid, werr := f5Snapshot(R)
	t.Logf("step3: R re-walk right after the commit attempt: digest=%s err=%q (same as before: %v)",
		digestMid[:min(16, len(digestMid))], werr, digestMid == digestBefore)

	// Side observation: what does a NEW transaction see after the "failed" commit?
	_ = db.View(func(tx *Tx) error {
		v := tx.Bucket([]byte("data")).Get(f5Key(0))
		t.Logf("step3: a FRESH read tx (txid=%d) sees key-00000 first byte = %#x (0xaa = old value, 0xbb = value written by the writer of step 3)", tx.ID(), v[0])
		return nil
	})

	// ---- step 4: further successful writers with recognisable data --------
	for round := 0; round < 3; round++ {
		if err := db.Update(func(tx *Tx) error {
			b, err := tx.CreateBucketIfNotExists([]byte("other"))
			if err != nil {
				return err
			}
			for i := 0; i < 150; i++ {
				k := []byte(fmt.Sprintf("other-%d-%05d", round, i))
				if err := b.Put(k, bytes.Repeat([]byte{0xEE}, f5ValSize)); err != nil {
					return err
				}
			}
			return nil
		}); err != nil {
			t.Fatalf("step4 round %d: Update failed: %v", round, err)
		}
	}
	st := db.Stats()
	t.Logf("step4: 3 successful Updates done. Stats: FreePageN=%d PendingPageN=%d OpenTxN=%d TxN=%d  meta.txid=%d",
		st.FreePageN, st.PendingPageN, st.OpenTxN, st.TxN, db.meta().Txid())

	// ---- step 5: re-read through R ----------------------------------------
	after, digestAfter, werr := f5Snapshot(R)
	t.Logf("step5: R second walk: %d keys, digest=%s walkErr=%q", len(after), digestAfter[:min(16, len(digestAfter))], werr)
	missing, changed, extra := f5Diff(t, before, after)
	t.Logf("step5: compared to first walk: missing=%d changed=%d extra=%d", missing, changed, extra)
	nEE := 0
	for _, v := range after {
		if bytes.Contains(v, bytes.Repeat([]byte{0xEE}, 64)) {
			nEE++
		}
	}
	t.Logf("step5: %d value(s) returned by R contain the 0xEE filler written by LATER transactions", nEE)

	// direct Get through R for a few keys
	func() {
		defer func() {
			if r := recover(); r != nil {
				t.Logf("step5: PANIC during R.Bucket(...).Get: %v", r)
			}
		}()
		b := R.Bucket([]byte("data"))
		bad := 0
		for i := 0; i < f5Keys; i++ {
			v := b.Get(f5Key(i))
			if !bytes.Equal(v, before[string(f5Key(i))]) {
				bad++
			}
		}
		t.Logf("step5: R.Get on the %d original keys: %d return a different value than in step 2", f5Keys, bad)
	}()

	// Raw look at the pages R's snapshot consists of.
	filler := bytes.Repeat([]byte{0xEE}, 256)
	overwritten := 0
	for _, id := range rPages {
		raw := common.UnsafeByteSlice(unsafe.Pointer(db.page(common.Pgid(id))), 0, 0, pageSize)
		if bytes.Contains(raw, filler) {
			overwritten++
		}
	}
	t.Logf("step5: %d of the %d pages of R's snapshot now physically contain the 0xEE filler of the LATER transactions", overwritten, len(rPages))
	rootID := R.meta.RootBucket().RootPage()
	rp := db.page(rootID)
	t.Logf("step5: R's root-bucket page %d now: id-field=%d type=%s count=%d (R opened it as the leaf holding bucket \"data\")",
		rootID, rp.Id(), rp.Typ(), rp.Count())

	// Check through a fresh tx (the current committed state).
	f5Check(t, db, "fresh")

	readerViewChanged = werr != "" || digestAfter != digestBefore || missing+changed+extra > 0
	return readerViewChanged
}

// TestF5_FailedMetaSync_ReaderSnapshotCorrupted is the demonstration: it PASSES
// when the defect manifests (reader's snapshot changed) and logs the symptom.
func TestF5_FailedMetaSync_ReaderSnapshotCorrupted(t *testing.T) {
	if changed := f5Run(t, true); changed {
		t.Logf("VERDICT: DEFECT CONFIRMED - the open read transaction's snapshot changed after a failed Commit")
	} else {
		t.Fatalf("VERDICT: NOT REPRODUCED - reader's view is unchanged")
	}
}

// TestF5_Control is the same scenario without the injected fdatasync failure.
func TestF5_Control(t *testing.T) {
	if changed := f5Run(t, false); changed {
		t.Fatalf("control: reader's view changed although nothing failed")
	}
	t.Logf("CONTROL: reader's view is identical before and after")
}
